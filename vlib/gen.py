"""Seeded generators of `.ops` traces (line protocol of DESIGN.md §1.5).

Every random choice comes from one SplitMix64 state, so a trace is reproducible from
(seed, property, tier, index).  A trace is a list of (line, role) with role in
  bg     background operation that moves the state (compared impl-vs-model only as a guard)
  probe  state probe (`shape`, `iter`, `snap`) used as the correspondence guard
  own    operation whose (projected) output the property under check speaks about
"""

GEN_VERSION = 20

MASK64 = (1 << 64) - 1


class Rng:
    def __init__(self, seed):
        self.s = seed & MASK64

    def next(self):
        self.s = (self.s + 0x9E3779B97F4A7C15) & MASK64
        z = self.s
        z = ((z ^ (z >> 30)) * 0xBF58476D1CE4E5B9) & MASK64
        z = ((z ^ (z >> 27)) * 0x94D049BB133111EB) & MASK64
        return z ^ (z >> 31)

    def below(self, n):
        return self.next() % n if n > 0 else 0

    def chance(self, num, den=100):
        return self.below(den) < num

    def pick(self, xs):
        return xs[self.below(len(xs))]

    def weighted(self, items):
        tot = sum(w for _, w in items)
        r = self.below(tot)
        for x, w in items:
            if r < w:
                return x
            r -= w
        return items[-1][0]

    def bits(self, n):
        v = 0
        for _ in range((n + 63) // 64):
            v = (v << 64) | self.next()
        return v & ((1 << n) - 1) if n > 0 else 0


class Universe:
    """a skeleton of related prefixes: (net, len) with net = the `len` leading bits as an int"""

    def __init__(self, rng, w, maxlen=None, size=None):
        self.rng, self.w = rng, w
        self.maxlen = w if maxlen is None else maxlen
        n = size if size is not None else 6 + rng.below(19)
        keys = set()
        base = rng.bits(w)
        for _ in range(n):
            keys.add(self._fresh(base))
        # closure: parents, siblings, children, common prefixes
        ks = list(keys)
        for k in ks:
            net, ln = k
            if ln > 0 and rng.chance(60):
                keys.add((net >> 1, ln - 1))
            if ln > 0 and rng.chance(50):
                keys.add((net ^ 1, ln))
            if ln < self.maxlen and rng.chance(50):
                keys.add(((net << 1) | rng.below(2), ln + 1))
        ks = list(keys)
        for _ in range(len(ks)):
            a, b = rng.pick(ks), rng.pick(ks)
            keys.add(self._lcp(a, b))
        keys.add((0, 0))
        self.keys = sorted(keys, key=lambda k: (k[1], k[0]))

    def _len(self):
        r, w, m = self.rng, self.w, self.maxlen
        c = r.below(100)
        if c < 8:
            return 0
        if c < 16:
            return min(1, m)
        if c < 24:
            return m
        if c < 32:
            return max(m - 1, 0)
        if c < 42 and m > 10:
            # word and byte boundaries of the wider types (and their neighbours)
            cands = [x for x in (7, 8, 9, 15, 16, 17, 24, 31, 32, 33, 48, 63, 64, 65, 96, 120, 126) if x <= m]
            return r.pick(cands)
        if c < 85:
            return r.below(min(m, 10) + 1)
        return r.below(m + 1)

    def _fresh(self, base):
        r, w = self.rng, self.w
        ln = self._len()
        if r.chance(70):
            # stay close to the base address: flip few bits
            addr = base
            for _ in range(r.below(3)):
                addr ^= 1 << r.below(w)
            if ln > 0 and r.chance(50):
                addr ^= 1 << (w - 1 - r.below(ln))
        else:
            addr = r.bits(w)
        return (addr >> (w - ln) if ln < w else addr, ln) if ln > 0 else (0, 0)

    def _lcp(self, a, b):
        (na, la), (nb, lb) = a, b
        l = min(la, lb)
        na >>= la - l
        nb >>= lb - l
        while l > 0 and na != nb:
            na >>= 1
            nb >>= 1
            l -= 1
        return (na, l)

    def key(self):
        if self.rng.chance(88):
            return self.rng.pick(self.keys)
        return self._fresh(self.rng.bits(self.w))

    def fmt(self, key, host=True):
        net, ln = key
        w = self.w
        repr_ = (net << (w - ln)) if ln > 0 else 0
        if host and ln < w:
            repr_ |= self.rng.bits(w - ln) if self.rng.chance(70) else 0
        return "%0*x/%d" % ((w + 3) // 4, repr_, ln)

    def p(self):
        return self.fmt(self.key())


class Trace:
    def __init__(self, rng, w, masked, prop, canonical=False, maxlen=None, usize=None):
        self.rng, self.w, self.masked, self.prop = rng, w, masked, prop
        self.u = Universe(rng, w, maxlen=maxlen, size=usize)
        self.lines = []
        self.canonical = canonical
        self.present = {"A": set(), "B": set(), "S": set()}
        self.val = 1

    def emit(self, line, role):
        self.lines.append((line, role))

    def v(self):
        self.val += 1
        return self.val if self.rng.chance(90) else -self.val

    def existing(self, reg):
        s = self.present[reg]
        if s and self.rng.chance(75):
            return self.u.fmt(self.rng.pick(sorted(s)))
        return self.u.p()

    # ---- background mutators ---------------------------------------------------------------
    def bg(self, reg=None, role="bg"):
        r = self.rng
        reg = reg or r.weighted([("A", 6), ("B", 3), ("S", 2)])
        pres = self.present[reg]
        if self.canonical:
            menu = [("insert", 40), ("remove", 18), ("entry_ins", 8), ("retain", 2), ("clear", 1), ("collect", 1)]
        else:
            menu = [("insert", 36), ("remove", 12), ("rkt", 8), ("rc", 3), ("entry_ins", 6), ("retain", 2),
                    ("clear", 1), ("collect", 1), ("vset", 4), ("vremove", 3), ("get_mut", 2)]
        if reg == "S":
            menu = [(k, wt) for k, wt in menu if k not in ("entry_ins", "get_mut")]
        op = r.weighted(menu)
        if op == "insert":
            k = self.u.key()
            self.emit("insert %s %s %d" % (reg, self.u.fmt(k), 0 if reg == "S" else self.v()), role)
            pres.add(k)
        elif op == "remove":
            self.emit("remove %s %s" % (reg, self.existing(reg)), role)
        elif op == "rkt":
            self.emit("remove_keep_tree %s %s" % (reg, self.existing(reg)), role)
        elif op == "rc":
            self.emit("remove_children %s %s" % (reg, self.existing(reg)), role)
        elif op == "entry_ins":
            k = self.u.key()
            m = r.pick(["insert %d" % self.v(), "or_insert %d" % self.v(), "or_insert_with %d" % self.v(),
                        "or_default", "vac_insert %d" % self.v(), "occ_insert %d" % self.v(),
                        "and_modify 3 or_insert %d" % self.v()])
            self.emit("entry %s %s %s" % (reg, self.u.fmt(k), m), role)
            pres.add(k)
        elif op == "retain":
            self.emit("retain %s %s -" % (reg, self.pred()), role)
        elif op == "clear":
            self.emit("clear %s" % reg, role)
            pres.clear()
        elif op == "collect":
            # mostly short; now and then long with many repeated keys (different host bits / values): the last
            # occurrence must win whatever the implementation does with the sequence before inserting
            n = r.below(8) if r.chance(75) else 24 + r.below(110)
            ks = [self.u.key() for _ in range(n)]
            self.emit("collect %s %s" % (reg, " ".join("%s=%d" % (self.u.fmt(k), 0 if reg == "S" else self.v()) for k in ks)), role)
            pres.clear()
            pres.update(ks)
        elif op == "vset":
            k = self.u.key()
            self.emit("viewmut %s at:%s : set %d" % (reg, self.u.fmt(k), 0 if reg == "S" else self.v()), role)
            pres.add(k)
        elif op == "vremove":
            self.emit("viewmut %s at:%s : remove" % (reg, self.existing(reg)), role)
        elif op == "get_mut":
            self.emit("get_mut %s %s %d" % (reg, self.existing(reg), self.v()), role)

    def chain(self, reg, role="bg"):
        """once per trace: a node at (nearly) every length 0..=w along one address - the deepest path a trie can have"""
        if getattr(self, "_chained", False):
            return None
        self._chained = True
        r, w = self.rng, self.w
        addr = r.bits(w)
        for ln in range(w + 1):
            if ln not in (w, w - 1) and r.chance(6):
                continue
            k = ((addr >> (w - ln)) if ln > 0 else 0, ln)
            self.emit("insert %s %s %d" % (reg, self.u.fmt(k), 0 if reg == "S" else self.v()), role)
            self.present[reg].add(k)
        return addr

    def pred(self):
        r = self.rng
        return r.weighted([("mod 2 0", 3), ("mod 3 1", 2), ("lenle %d" % r.below(self.u.maxlen + 1), 3),
                           ("lenodd", 2), ("true", 1), ("false", 1)])

    def probes(self, reg, kinds=("shape", "iter")):
        for k in kinds:
            if k == "gkvs":
                # exact-match lookups of every key the trace may have stored: a state probe that uses no iterator
                ks = sorted(self.present[reg])[:48]
                if ks:
                    self.emit("gkvs %s %s" % (reg, " ".join(self.u.fmt(x, host=False) for x in ks)), "probe")
                continue
            self.emit("%s %s" % (k, reg), "probe")

    def steps(self, reg, mutable=False, maxn=3):
        """a view navigation script"""
        r = self.rng
        out = []
        for _ in range(r.below(maxn + 1)):
            c = r.below(100)
            if c < 35:
                out.append("at:" + self.existing(reg))
            elif c < 50:
                out.append("find:" + self.existing(reg))
            elif c < 60:
                out.append("exact:" + self.existing(reg))
            elif c < 70:
                out.append("lpm:" + self.existing(reg))
            elif c < 85:
                out.append("left")
            else:
                out.append("right")
        return out


def header(w, masked):
    return "width %d %s" % (w, "masked" if masked else "plain")


def warmup(t, n, regs=("A", "B", "S")):
    for _ in range(n):
        t.bg(t.rng.pick(list(regs)))


# ------------------------------------------------------------------------------------------------
# per-property traces
# ------------------------------------------------------------------------------------------------

def gen_C01(t, n):
    r = t.rng
    for _ in range(n):
        if r.chance(3):
            # a clone is a map like any other: keep mutating and observing it
            t.emit("copy A B", "own")
            t.present["B"] = set(t.present["A"])
            for _ in range(1 + r.below(4)):
                t.bg("B", role="own")
            t.emit("iter B", "own")
            t.emit("get_key_value B %s" % t.existing("B"), "own")
            t.emit("iter A", "own")
        reg = r.weighted([("A", 6), ("S", 2)])
        t.bg(reg, role="own")
        if r.chance(15) and reg == "A":
            k = t.u.p()
            m = r.pick(["get", "key", "get_mut %d" % t.v(), "occ_get", "occ_key", "occ_get_mut %d" % t.v(), "occ_remove",
                        "vac_key", "vac_insert_with %d" % t.v(), "vac_default", "and_modify 5 get", "and_modify 2 key"])
            t.emit("entry A %s %s" % (k, m), "own")
        for _ in range(1 + r.below(3)):
            q = t.existing(reg) if r.chance(60) else t.u.p()
            op = r.pick(["get", "get_key_value", "contains_key"])
            t.emit("%s %s %s" % (op, reg, q), "own")
        if r.chance(40):
            t.emit("iter %s" % reg, "own")


def gen_obs(ops_for, probe_kinds=("shape", "iter")):
    """observer-type property: background history, probes, then owned observers"""
    def g(t, n):
        r = t.rng
        warmup(t, 5 + r.below(25))
        for _ in range(n):
            for _ in range(r.below(4)):
                t.bg()
            reg = r.weighted([("A", 6), ("B", 2), ("S", 2)])
            t.probes(reg, kinds=probe_kinds)
            for _ in range(1 + r.below(4)):
                ops_for(t, reg)
    return g


def ops_C02(t, reg):
    if t.rng.chance(4):
        addr = t.chain(reg)
        if addr is not None:
            w = t.w
            for ln in (w, w - 1, w // 2, 1, 0):
                q = t.u.fmt(((addr >> (w - ln)) if ln > 0 else 0, ln))
                for op in (["get_lpm", "get_lpm_prefix"] if reg == "S" else ["get_lpm", "get_lpm_prefix", "get_lpm_mut"]):
                    t.emit("%s %s %s%s" % (op, reg, q, (" %d" % t.v()) if op == "get_lpm_mut" else ""), "own")
            return
    q = t.existing(reg) if t.rng.chance(50) else t.u.p()
    if reg == "S":
        t.emit("%s S %s" % (t.rng.pick(["get_lpm", "get_lpm_prefix"]), q), "own")
    else:
        op = t.rng.pick(["get_lpm", "get_lpm_prefix", "get_lpm_mut"])
        if op == "get_lpm_mut":
            t.emit("get_lpm_mut %s %s %d" % (reg, q, t.v()), "own")
            t.emit("iter %s" % reg, "own")
        else:
            t.emit("%s %s %s" % (op, reg, q), "own")


def ops_C03(t, reg):
    r = t.rng
    if r.chance(3):
        t.emit("defaults", "own")
        return
    if reg == "S":
        op = r.pick(["iter", "ref_iter", "into_iter", "keys", "iter_fused", "iter_clone %d" % r.below(6)])
    else:
        op = r.pick(["iter", "ref_iter", "into_iter", "keys", "values", "into_keys", "into_values", "iter_fused",
                     "iter_clone %d" % r.below(6), "iter_mut 0", "values_mut 0"])
    parts = op.split()
    t.emit(" ".join([parts[0], reg] + parts[1:]), "own")


def ops_C04(t, reg):
    if reg != "S" and t.rng.chance(6):
        # clone / clone_from carry the counter along
        src, dst = ("A", "B") if reg == "A" else ("B", "A")
        t.emit("%s %s %s" % (t.rng.pick(["copy", "copy_from"]), src, dst), "own")
        t.present[dst] = set(t.present[src])
        t.emit("len %s" % dst, "own")
        t.bg(dst, role="own")
        t.emit("len %s" % dst, "own")
    t.bg(reg, role="own")
    t.emit("len %s" % reg, "own")


def ops_C09(t, reg):
    if t.rng.chance(4):
        addr = t.chain(reg)
        if addr is not None:
            w = t.w
            for ln in (w, w - 1, w // 2, 0):
                q = t.u.fmt(((addr >> (w - ln)) if ln > 0 else 0, ln))
                t.emit("%s %s %s" % ("cover_keys" if reg == "S" else "cover", reg, q), "own")
                t.emit("%s %s %s" % ("get_spm_prefix" if reg == "S" else "get_spm", reg, q), "own")
                t.emit("get_lpm_prefix %s %s" % (reg, q), "own")
            return
    q = t.existing(reg) if t.rng.chance(50) else t.u.p()
    if reg == "S":
        op = t.rng.pick(["get_spm_prefix", "cover_keys", "get_lpm_prefix"])
    else:
        op = t.rng.pick(["get_spm", "get_spm_prefix", "cover", "cover_keys", "cover_values", "get_lpm", "get_lpm_prefix",
                         "get_lpm_mut"])
    if op == "get_lpm_mut":
        # "longest-prefix match returns its last": every LPM entry point, next to the cover list of the same query
        t.emit("cover %s %s" % (reg, q), "own")
        t.emit("get_lpm_mut %s %s %d" % (reg, q, t.v()), "own")
        return
    t.emit("%s %s %s" % (op, reg, q), "own")


def ops_C10(t, reg):
    r = t.rng
    q = t.existing(reg) if r.chance(50) else t.u.p()
    c = r.below(100)
    if c < 45:
        if reg == "S":
            t.emit("children S %s" % q, "own")
        else:
            op = r.pick(["children", "into_children", "children_mut"])
            t.emit("%s %s %s%s" % (op, reg, q, " 0" if op == "children_mut" else ""), "own")
    elif c < 75:
        t.emit("remove_children %s %s" % (reg, q), "own")
        t.emit("iter %s" % reg, "own")
        t.emit("snap %s" % reg, "probe")
    else:
        t.emit("retain %s %s -" % (reg, t.pred()), "own")
        t.emit("iter %s" % reg, "own")


def view_script(t, reg, kinds, maxn=3):
    r = t.rng
    out = []
    for _ in range(r.below(maxn + 1)):
        k = r.pick(kinds)
        if k in ("left", "right"):
            out.append(k)
        else:
            c = r.below(100)
            q = t.existing(reg) if c < 55 else t.u.p()
            out.append("%s:%s" % (k, q))
    return out


def ops_C11(t, reg):
    r = t.rng
    st = view_script(t, reg, ["at", "at", "left", "right", "left", "right"], 4)
    mut = r.chance(35)
    if mut:
        act = r.pick(["prefix", "value", "pv", "has", "iter", "walk", "aspv", "aspv"])
        t.emit("viewmut %s %s : %s" % (reg, " ".join(st), act), "own")
    else:
        act = r.pick(["prefix", "value", "pv", "iter", "keys", "values", "walk", "has", "aspv", "intoiter"])
        t.emit("view %s %s : %s" % (reg, " ".join(st), act), "own")


def ops_C12(t, reg):
    r = t.rng
    if r.chance(3):
        addr = t.chain(reg)
        if addr is not None:
            w = t.w
            full = t.u.fmt((addr, w))
            for ln in (0, 1, w // 2, w - 1):
                at = t.u.fmt(((addr >> (w - ln)) if ln > 0 else 0, ln))
                t.emit("view %s at:%s lpm:%s : prefix" % (reg, at, full), "own")
                t.emit("viewmut %s at:%s exact:%s : pv" % (reg, at, full), "own")
            return
    st = view_script(t, reg, ["at", "left", "right"], 2) + view_script(t, reg, ["find", "exact", "lpm", "at"], 2)
    if not st:
        st = ["find:" + t.u.p()]
    mut = r.chance(35)
    act = r.pick(["prefix", "iter", "value", "pv"])
    t.emit("%s %s %s : %s" % ("viewmut" if mut else "view", reg, " ".join(st), act), "own")


def setop_line(t, kinds, mutp=35):
    r = t.rng
    kind = r.pick(kinds)
    mut = r.chance(mutp)
    c = r.below(100)
    if c < 20:
        # two views of one map
        reg = r.pick(["A", "B", "S"])
        if mut:
            st = view_script(t, reg, ["at", "left", "right"], 2)
            return "setop_split %s_mut:%d %s %s" % (kind, r.below(5), reg, " ".join(st))
        sa = view_script(t, reg, ["at", "left", "right", "find"], 2)
        sb = view_script(t, reg, ["at", "left", "right", "find"], 2)
        return "setop %s %s %s : %s %s" % (kind, reg, " ".join(sa), reg, " ".join(sb))
    ra, rb = r.pick([("A", "B"), ("B", "A"), ("A", "S"), ("S", "A"), ("A", "B"), ("B", "S")])
    n = 0 if r.chance(45) else 2
    sa = view_script(t, ra, ["at", "left", "right", "find"], n)
    sb = view_script(t, rb, ["at", "left", "right", "find"], n)
    if mut:
        return "setop %s_mut:%d %s %s : %s %s" % (kind, r.below(5), ra, " ".join(sa), rb, " ".join(sb))
    return "setop %s %s %s : %s %s" % (kind, ra, " ".join(sa), rb, " ".join(sb))


def gen_setops(kinds):
    def g(t, n):
        r = t.rng
        warmup(t, 8 + r.below(30))
        # make the two maps overlap: copy some keys
        if r.chance(60):
            t.emit("copy A B", "bg")
            t.present["B"] = set(t.present["A"])
            warmup(t, r.below(10), regs=("B",))
        for _ in range(n):
            for _ in range(r.below(3)):
                t.bg()
            for reg in ("A", "B", "S"):
                t.probes(reg)
            for _ in range(1 + r.below(3)):
                line = setop_line(t, kinds)
                t.emit(line, "own")
                if "_mut" in line:
                    for reg in ("A", "B", "S"):
                        t.emit("iter %s" % reg, "own")
                        t.emit("shape %s" % reg, "own")
    return g


def ops_C13(t, reg):
    r = t.rng
    if reg == "S":
        reg = "A"
    q = t.existing(reg) if r.chance(60) else t.u.p()
    d = 1 + r.below(4)
    c = r.below(100)
    if c < 15:
        t.emit("iter %s" % reg, "own"); t.emit("iter_mut %s %d" % (reg, d), "own")
    elif c < 25:
        t.emit("iter %s" % reg, "own"); t.emit("values_mut %s %d" % (reg, d), "own")
    elif c < 40:
        t.emit("children %s %s" % (reg, q), "own"); t.emit("children_mut %s %s %d" % (reg, q, d), "own")
    elif c < 50:
        t.emit("get %s %s" % (reg, q), "own"); t.emit("get_mut %s %s %d" % (reg, q, t.v()), "own")
    elif c < 60:
        t.emit("get_lpm %s %s" % (reg, q), "own"); t.emit("get_lpm_mut %s %s %d" % (reg, q, t.v()), "own")
    else:
        st = view_script(t, reg, ["at", "left", "right", "find"], 3)
        act = r.pick(["iter_mut %d" % d, "values_mut %d" % d, "into_iter %d" % d, "value_mut %d" % t.v(), "pv_mut %d" % t.v()])
        ro = "iter" if act.split()[0] in ("iter_mut", "values_mut", "into_iter") else ("value" if act.startswith("value") else "pv")
        t.emit("view %s %s : %s" % (reg, " ".join(st), ro), "own")
        t.emit("viewmut %s %s : %s" % (reg, " ".join(st), act), "own")
    t.emit("iter %s" % reg, "own")
    t.emit("shape %s" % reg, "own")


def gen_C13(t, n):
    r = t.rng
    warmup(t, 8 + r.below(25))
    for _ in range(n):
        for _ in range(r.below(3)):
            t.bg()
        reg = r.pick(["A", "B"])
        t.probes(reg)
        ops_C13(t, reg)
        if r.chance(30):
            for rg in ("A", "B", "S"):
                t.probes(rg)
            k = r.pick(["union", "intersection", "difference", "covering_difference"])
            ro = setop_line(t, [k], mutp=0)
            t.emit(ro, "own")
            if ro.startswith("setop ") and ro.split()[2] != ro.split(" : ")[1].split()[0]:
                parts = ro.split()
                parts[1] = "%s_mut:%d" % (k, 1 + r.below(3))
                t.emit(" ".join(parts), "own")
            for rg in ("A", "B", "S"):
                t.emit("iter %s" % rg, "own")
                t.emit("shape %s" % rg, "own")


def gen_C14(t, n):
    r = t.rng
    warmup(t, 8 + r.below(25))
    for _ in range(n):
        for _ in range(r.below(3)):
            t.bg()
        reg = r.pick(["A", "B"])
        t.probes(reg)
        c = r.below(100)
        if r.chance(15):
            # both sides of a split view look for the same prefix while both are alive
            st = view_script(t, reg, ["at", "left", "right"], 2)
            t.emit(" ".join(("split_probe %s %s %s %s" % (reg, r.pick(["exact", "exact", "find", "lpm"]), t.existing(reg), " ".join(st))).split()), "own")
        if r.chance(10):
            st = view_script(t, reg, ["at", "left", "right"], 2)
            t.emit(" ".join(("par_mixed %s %d %s" % (reg, 1 + r.below(3), " ".join(st))).split()), "own")
            t.emit("iter %s" % reg, "own")
        if c < 12:
            # two threads insert / remove values through the two sides of a split view (shared entry counter)
            st = view_script(t, reg, ["at", "left", "right"], 2)
            t.emit(" ".join(("par_churn %s %d %s" % (reg, 20000, " ".join(st))).split()), "own")
            t.emit("len %s" % reg, "own")
        elif c < 45:
            st = view_script(t, reg, ["at", "left", "right", "find"], 3)
            t.emit("par_bump %s %d %s" % (reg, 1 + r.below(4), " ".join(st)), "own")
            t.emit("iter %s" % reg, "own")
            t.emit("shape %s" % reg, "own")
        elif c < 70:
            st = view_script(t, reg, ["at", "left", "right"], 2)
            k = r.pick(["union", "intersection", "difference", "covering_difference"])
            t.emit("setop_split %s_mut:%d %s %s" % (k, 1 + r.below(3), reg, " ".join(st)), "own")
            t.emit("iter %s" % reg, "own")
        else:
            ops_C13(t, reg)


def gen_C15(t, n):
    r = t.rng
    for _ in range(n):
        reg = r.weighted([("A", 6), ("S", 2)])
        t.bg(reg, role="own")
        t.emit("shape %s" % reg, "own")
        if t.canonical and r.chance(30):
            t.emit("shape_fresh %s" % reg, "own")


def gen_C16(t, n):
    r = t.rng
    for _ in range(n):
        reg = r.weighted([("A", 6), ("S", 2)])
        t.bg(reg, role="own")
        t.emit("snap %s" % reg, "own")


def gen_C16_churn(t, n):
    """insert/remove churn over a small working set"""
    r = t.rng
    ks = [t.u.key() for _ in range(12)]
    for i in range(n):
        k = r.pick(ks)
        c = r.below(100)
        if c < 50:
            t.emit("insert A %s %d" % (t.u.fmt(k), t.v()), "own")
        elif c < 85:
            t.emit("remove A %s" % t.u.fmt(k), "own")
        elif c < 92:
            t.emit("remove_children A %s" % t.u.fmt(k), "own")
        else:
            t.emit("retain A %s -" % t.pred(), "own")
        if i % 8 == 7:
            t.emit("snap A", "own")
    t.emit("snap A", "own")


def gen_C17(t, n):
    r = t.rng
    u = t.u
    w = t.w
    for _ in range(n):
        a, b = u.key(), u.key()
        if r.chance(30):
            b = u._lcp(a, b) if r.chance(50) else (a[0] >> 1, a[1] - 1) if a[1] > 0 else b
        c = r.below(100)
        if c < 25:
            t.emit("pfx contains %s %s" % (u.fmt(a), u.fmt(b)), "own")
        elif c < 40:
            t.emit("pfx eq %s %s" % (u.fmt(a), u.fmt(b)), "own")
        elif c < 60:
            t.emit("pfx lcp %s %s" % (u.fmt(a), u.fmt(b)), "own")
        elif c < 75:
            i = r.pick([0, 1, a[1], max(a[1] - 1, 0), a[1] + 1, w - 1, w, w + 1, 255, r.below(256)])
            t.emit("pfx bit %s %d" % (u.fmt(a), min(i, 255)), "own")
        elif c < 82:
            t.emit("pfx mask %s" % u.fmt(a), "own")
        elif c < 90:
            t.emit("pfx from %s" % u.fmt(a), "own")
        elif c < 93:
            t.emit("pfx zero", "own")
        else:
            t.emit("pfx tor %s %s" % (u.fmt(a), u.fmt(b)), "own")


def c17_exhaustive(full, nshards):
    """width 8: every (address, length) prefix (host bits included) - `bits` for each; `pair` for every ordered
    pair (full) or for 24 partners per prefix chosen by a fixed stride (sample)"""
    allp = [(addr, ln) for ln in range(9) for addr in range(256)]
    fmt = lambda p: "%02x/%d" % p
    shards = [[] for _ in range(nshards)]
    n = 0
    for a in allp:
        shards[n % nshards].append(("pfx bits %s" % fmt(a), "own"))
        n += 1
    if full:
        for i, a in enumerate(allp):
            sh = shards[i % nshards]
            for b in allp:
                sh.append(("pfx pair %s %s" % (fmt(a), fmt(b)), "own"))
    else:
        m = len(allp)
        for i, a in enumerate(allp):
            sh = shards[i % nshards]
            for j in range(24):
                b = allp[(i * 7 + j * 97 + (j * j * 13)) % m]
                sh.append(("pfx pair %s %s" % (fmt(a), fmt(b)), "own"))
            # the prefixes most closely related to `a`: itself with other host bits, parent, children
            addr, ln = a
            rel = [(addr ^ 1, ln), (addr, max(ln - 1, 0)), (addr, min(ln + 1, 8)), (addr ^ 0x80, ln), (0, 0), (addr, 8)]
            for b in rel:
                sh.append(("pfx pair %s %s" % (fmt(a), fmt(b)), "own"))
    return [sh for sh in shards if sh]


def gen_C18(t, n):
    r = t.rng
    for _ in range(n):
        reg = r.weighted([("A", 6), ("B", 2), ("S", 2)])
        if r.chance(4):
            # a long sequence with many repetitions of few keys under different representations: `collect` must
            # keep the last one of each
            pool = [t.u.key() for _ in range(3 + r.below(6))]
            items = " ".join("%s=%d" % (t.u.fmt(r.pick(pool)), 0 if reg == "S" else t.v()) for _ in range(30 + r.below(100)))
            t.emit("collect %s %s" % (reg, items), "own")
            t.present[reg] = set(pool)
            t.emit("%s %s" % ("keys" if reg == "S" else "iter", reg), "own")
            continue
        t.bg(reg, role="own")
        q = t.existing(reg)
        c = r.below(100)
        if c < 20:
            t.emit("get_key_value %s %s" % (reg, q), "own")
        elif c < 35:
            t.emit("get_lpm_prefix %s %s" % (reg, q), "own")
        elif c < 50:
            t.emit("keys %s" % reg, "own")
        elif c < 60 and reg != "S":
            t.emit("entry %s %s %s" % (reg, q, r.pick(["key", "occ_key", "vac_key", "or_insert %d" % t.v(), "occ_insert %d" % t.v(), "and_modify 1 key"])), "own")
            t.emit("keys %s" % reg, "own")
        elif c < 70:
            t.emit("view %s at:%s : %s" % (reg, q, r.pick(["prefix", "pv", "keys"])), "own")
        elif c < 80:
            t.emit("children %s %s" % (reg, q), "own")
        elif c < 90:
            t.emit("remove %s %s" % (reg, q), "own")
            t.emit("keys %s" % reg, "own")
        else:
            for rg in ("A", "B", "S"):
                t.probes(rg)
            t.emit(setop_line(t, ["union", "intersection", "difference", "covering_difference"], mutp=25), "own")


def gen_C19(t, n):
    r = t.rng
    warmup(t, 5 + r.below(20), regs=("A",))
    for _ in range(n):
        c = r.below(100)
        if c < 25:
            t.emit("%s A B" % ("copy_from" if r.chance(35) else "copy"), "own")
            t.emit("eq A B", "own")
            t.emit("len B", "own")
            if r.chance(70):
                t.bg("B", role="own")
                t.emit("eq A B", "own")
                t.emit("iter A", "own")
                t.emit("iter B", "own")
        elif c < 33:
            # same key, same value, (possibly) different host bits: equal only if the stored
            # representations are equal under the key type's own equality
            k = t.u.key()
            v = t.v()
            t.emit("copy A B", "own")
            t.emit("insert A %s %d" % (t.u.fmt(k), v), "own")
            t.emit("insert B %s %d" % (t.u.fmt(k), v), "own")
            t.emit("eq A B", "own")
            t.emit("entry B %s occ_insert %d" % (t.u.fmt(k), v), "own")
            t.emit("eq A B", "own")
        elif c < 37:
            # one operand is a proper initial segment of the other (in iteration order): never equal
            top = "%0*x/%d" % ((t.w + 3) // 4, (1 << t.w) - 1, t.w)
            if r.chance(50):
                t.emit("copy A B", "own")
                t.emit("insert %s %s %d" % (r.pick(["A", "B"]), top, t.v()), "own")
                t.emit("eq A B", "own")
                t.emit("remove %s %s" % (r.pick(["A", "B"]), top), "own")
                t.emit("eq A B", "own")
            else:
                ks = [t.u.key() for _ in range(r.below(6))]
                items = " ".join("%s=0" % t.u.fmt(k, host=False) for k in ks)
                t.emit(" ".join(("collect S " + items).split()), "own")
                t.emit(" ".join(("collect B " + items).split()), "own")
                t.emit("seteq S B", "own")
                t.emit("insert %s %s 0" % (r.pick(["S", "B"]), top), "own")
                t.emit("seteq S B", "own")
                t.emit("clear %s" % r.pick(["S", "B"]), "own")
                t.emit("seteq S B", "own")
        elif c < 40:
            t.emit("collect_self A", "own")
        elif c < 50:
            t.emit("clear B", "own")
            t.emit("eq A B", "own")
        elif c < 60:
            t.emit("eq A A", "own")
        elif c < 70:
            if r.chance(35):
                for _ in range(r.below(5)):
                    t.emit("insert S %s 0" % t.u.p(), "own")
                t.emit("serde S", "own")
                t.emit("collect_self S", "own")
            else:
                t.emit("serde A", "own")
        else:
            t.bg("A", role="own")
            if r.chance(50):
                t.bg("B", role="own")
            t.emit("eq A B", "own")


def gen_C20(t, n):
    r = t.rng
    gens = [ops_C02, ops_C03, ops_C09, ops_C10, ops_C11, ops_C12, ops_C13]
    for _ in range(n):
        reg = r.weighted([("A", 6), ("B", 2), ("S", 2)])
        c = r.below(100)
        if c < 45:
            t.bg(reg, role="own")
        elif c < 55:
            k = 1 + r.below(max(1, len(t.present[reg]) + 2))
            t.emit("retain %s %s %d" % (reg, t.pred(), k), "own")
            for k2 in ("iter", "len", "shape", "snap"):
                t.emit("%s %s" % (k2, reg), "own")
        elif c < 62 and reg != "S":
            if r.chance(40):
                t.emit("entry %s %s %s" % (reg, t.existing(reg), r.pick(["and_modify_panic or_insert %d" % t.v(), "and_modify_panic key", "and_modify_panic or_default"])), "own")
            else:
                t.emit("entry %s %s %s" % (reg, t.u.p(), r.pick(["or_insert_with_panic", "vac_insert_with_panic", "and_modify 1 or_insert_with_panic"])), "own")
            for k2 in ("iter", "len", "shape", "snap"):
                t.emit("%s %s" % (k2, reg), "own")
        elif c < 70:
            t.emit(setop_line(t, ["union", "intersection", "difference", "covering_difference"]), "own")
        else:
            before = len(t.lines)
            r.pick(gens)(t, reg)
            t.lines[before:] = [(l, "own") for l, _ in t.lines[before:]]
        if r.chance(20):
            t.emit("len %s" % reg, "own")
            t.emit("snap %s" % reg, "own")


GENERATORS = {
    "C01": gen_C01,
    "C02": gen_obs(ops_C02),
    "C03": gen_obs(ops_C03, probe_kinds=("skel", "gkvs")),
    "C04": gen_obs(ops_C04),
    "C05": gen_setops(["union"]),
    "C06": gen_setops(["intersection"]),
    "C07": gen_setops(["difference", "covering_difference"]),
    "C08": gen_setops(["union", "difference"]),
    "C09": gen_obs(ops_C09),
    "C10": gen_obs(ops_C10),
    "C11": gen_obs(ops_C11, probe_kinds=("skel", "iter")),
    "C12": gen_obs(ops_C12, probe_kinds=("skel", "iter")),
    "C13": gen_C13,
    "C14": gen_C14,
    "C15": gen_C15,
    "C16": gen_C16,
    "C17": gen_C17,
    "C18": gen_C18,
    "C19": gen_C19,
    "C20": gen_C20,
}



# ------------------------------------------------------------------------------------------------
# bounded-exhaustive family: width 8, all 7 prefixes of length <= 2
# ------------------------------------------------------------------------------------------------
# Every one of the 2^7 key subsets is built (ascending or descending insertion order), then every
# sequence of `depth` mutators over the alphabet below is applied, then the property's observers
# are run for every key (and a few longer queries); `clear` resets the register between sequences
# (role "reset": model and implementation are both empty again, so a trace that lost
# correspondence is re-synchronised there).

SMALL_KEYS = [(0, 0), (0, 1), (1, 1), (0, 2), (1, 2), (2, 2), (3, 2)]
SMALL_QUERIES = SMALL_KEYS + [(0, 3), (5, 3), (7, 3), (0x2b, 6), (0xff, 8)]
EXH_PROPS = ("C01", "C02", "C03", "C04", "C09", "C10", "C11", "C12", "C15", "C16", "C18", "C05", "C06", "C07", "C08")


def _sfmt(key, host):
    net, ln = key
    r = (net << (8 - ln)) if ln > 0 else 0
    if ln < 8:
        r |= host & ((1 << (8 - ln)) - 1)
    return "%02x/%d" % (r, ln)


def _exh_alphabet(prop):
    ops = []
    for k in SMALL_KEYS:
        ops.append(("insert", k))
        ops.append(("remove", k))
        ops.append(("rkt", k))
    if prop not in ("C05", "C06", "C07", "C08"):
        for k in SMALL_KEYS:
            ops.append(("rc", k))
            ops.append(("vset", k))
            ops.append(("vremove", k))
    return ops


def _exh_line(op, k, reg, host, val):
    q = _sfmt(k, host)
    if op == "insert":
        return "insert %s %s %d" % (reg, q, val)
    if op == "remove":
        return "remove %s %s" % (reg, q)
    if op == "rkt":
        return "remove_keep_tree %s %s" % (reg, q)
    if op == "rc":
        return "remove_children %s %s" % (reg, q)
    if op == "vset":
        return "viewmut %s at:%s : set %d" % (reg, q, val)
    if op == "vremove":
        return "viewmut %s at:%s : remove" % (reg, q)
    raise ValueError(op)


def _exh_observe(prop, out, reg, host, canonical):
    def q(k):
        return _sfmt(k, host)
    own = "own"
    if prop == "C01":
        out.append(("gkvs %s %s" % (reg, " ".join(q(k) for k in SMALL_QUERIES)), own))
        out.append(("iter %s" % reg, own))
    elif prop == "C02":
        for k in SMALL_QUERIES:
            out.append(("get_lpm %s %s" % (reg, q(k)), own))
        out.append(("get_lpm_prefix %s %s" % (reg, q(SMALL_QUERIES[host % len(SMALL_QUERIES)])), own))
    elif prop == "C03":
        for o in (("iter", "into_iter", "keys", "iter_fused", "iter_clone", "ref_iter") if reg == "S" else
                  ("iter", "into_iter", "keys", "values", "iter_fused", "iter_clone", "into_keys")):
            out.append(("%s %s%s" % (o, reg, " 1" if o == "iter_clone" else ""), own))
    elif prop == "C04":
        out.append(("len %s" % reg, own))
    elif prop == "C09":
        for k in SMALL_QUERIES:
            out.append(("%s %s %s" % ("cover_keys" if reg == "S" else "cover", reg, q(k)), own))
            out.append(("%s %s %s" % ("get_spm_prefix" if reg == "S" else "get_spm", reg, q(k)), own))
    elif prop == "C10":
        for k in SMALL_QUERIES[:9]:
            out.append(("children %s %s" % (reg, q(k)), own))
    elif prop == "C11":
        for k in SMALL_KEYS:
            out.append(("view %s at:%s : walk" % (reg, q(k)), own))
            out.append(("view %s at:%s : pv" % (reg, q(k)), own))
            out.append(("viewmut %s at:%s : has" % (reg, q(k)), own))
            out.append(("viewmut %s at:%s : aspv" % (reg, q(k)), own))
        out.append(("view %s left right : iter" % reg, own))
        out.append(("view %s right left : iter" % reg, own))
    elif prop == "C12":
        for i, k in enumerate(SMALL_KEYS):
            k2 = SMALL_QUERIES[(i * 5 + host) % len(SMALL_QUERIES)]
            k3 = SMALL_QUERIES[(i * 3 + host + 1) % len(SMALL_QUERIES)]
            out.append(("view %s at:%s find:%s : iter" % (reg, q(k), q(k2)), own))
            out.append(("view %s at:%s exact:%s : pv" % (reg, q(k), q(k3)), own))
            out.append(("viewmut %s at:%s lpm:%s : pv" % (reg, q(k), q(k2)), own))
            out.append(("view %s at:%s lpm:%s : prefix" % (reg, q(k), q(k3)), own))
    elif prop == "C15":
        out.append(("shape %s" % reg, own))
        if canonical:
            out.append(("shape_fresh %s" % reg, own))
    elif prop == "C16":
        out.append(("snap %s" % reg, own))
    elif prop == "C18":
        out.append(("iter %s" % reg, own))
        for k in SMALL_KEYS:
            out.append(("get_key_value %s %s" % (reg, _sfmt(k, host ^ 0x55)), own))


def exhaustive_traces(prop, depth, nshards):
    """list of traces (list of (line, role)) for ptype u8"""
    setop = prop in ("C05", "C06", "C07", "C08")
    alph = _exh_alphabet(prop)
    canon_ops = ("insert", "remove")
    shards = [[] for _ in range(nshards)]
    seqs = [[]]
    for _ in range(depth):
        seqs = seqs + [sq + [o] for sq in seqs if len(sq) == max(len(x) for x in seqs) for o in alph]
    # seqs: all sequences of length 0..depth
    n = 0
    val = 1
    kinds = {"C05": ["union"], "C06": ["intersection"], "C07": ["difference", "covering_difference"],
             "C08": ["union", "difference"]}.get(prop, [])
    cases = [(sub, None) for sub in range(1 << len(SMALL_KEYS))] + ([] if setop else [(0, "S")])   # the empty set too
    for sub, forced in cases:
        keys = [k for i, k in enumerate(SMALL_KEYS) if sub >> i & 1]
        # a quarter of the subsets live in the set register (the PrefixSet wrappers and its AsView / AsViewMut impls)
        reg = forced or ("S" if (not setop and sub % 4 == 3) else "A")
        for sq in seqs:
            n += 1
            out = shards[n % nshards]
            host = (n * 37 + sub) & 0xff
            order = keys if n % 2 == 0 else list(reversed(keys))
            out.append(("clear %s" % reg, "reset"))
            for k in order:
                val += 1
                out.append((_exh_line("insert", k, reg, host if n % 3 else 0, 0 if reg == "S" else val), "bg"))
            canonical = all(o in canon_ops for o, _ in sq)
            for o, k in sq:
                val += 1
                out.append((_exh_line(o, k, reg, (host * 7) & 0xff, 0 if reg == "S" else val), "own" if prop in ("C01", "C04", "C15", "C16", "C18") else "bg"))
            if not setop:
                _exh_observe(prop, out, reg, host, canonical)
            else:
                # second operand: another subset derived from the counter, with one leftover node now and then
                sub2 = (sub * 73 + n * 29) & 0x7f
                keys2 = [k for i, k in enumerate(SMALL_KEYS) if sub2 >> i & 1]
                out.append(("clear B", "reset"))
                for k in keys2:
                    val += 1
                    out.append((_exh_line("insert", k, "B", (host ^ 0xa5), val), "bg"))
                if n % 4 == 0 and keys2:
                    out.append((_exh_line("rkt", keys2[n % len(keys2)], "B", 0, 0), "bg"))
                va = ["", "at:" + _sfmt(SMALL_KEYS[n % 7], 0), "left", "right", "at:" + _sfmt(SMALL_QUERIES[n % 10], host)][n % 5]
                vb = ["", "", "at:" + _sfmt(SMALL_KEYS[(n // 5) % 7], 0), "right", "left"][(n // 3) % 5]
                for kind in kinds:
                    out.append((" ".join(("setop %s A %s : B %s" % (kind, va, vb)).split()), "own"))
                    if n % 3 == 0:
                        out.append((" ".join(("setop %s_mut:1 A %s : B %s" % (kind, va, vb)).split()), "own"))
    return [sh for sh in shards if sh]


def make_trace(prop, seed, index, w, masked, nsteps, canonical=False, small=False, large=False):
    rng = Rng((seed * 0x100000001B3 + index * 0x9E3779B1 + sum(ord(c) for c in prop) * 7919) & MASK64)
    for _ in range(3):
        rng.next()
    t = Trace(rng, w, masked, prop, canonical=canonical,
              maxlen=(3 if small else None), usize=(5 if small else (260 if large else None)))
    if large and prop != "C17":
        # a populated trie of a few hundred nodes in every register before the property's own script starts:
        # arena well beyond 256 slots, long free lists after the removals, deep paths
        for reg in ("A", "B", "S"):
            keys = [t.u.key() for _ in range(90 + rng.below(160))]
            t.emit("collect %s %s" % (reg, " ".join("%s=%d" % (t.u.fmt(k), 0 if reg == "S" else t.v()) for k in keys)), "bg")
            t.present[reg] = set(keys)
            for _ in range(25):
                t.emit("remove %s %s" % (reg, t.existing(reg)), "bg")
            for _ in range(25):
                k = t.u.key()
                t.emit("insert %s %s %d" % (reg, t.u.fmt(k), 0 if reg == "S" else t.v()), "bg")
                t.present[reg].add(k)
    GENERATORS[prop](t, nsteps)
    return t
