"""C14 (b): capability corpus.

Client programs of the handle API are compiled (borrow-checked, `--emit=metadata`) against the
`prefix_trie` rlib the harness build has just produced from /repo's working tree:

  * every *ill-moded* program (two live mutable handles on overlapping entries, a read-only view
    coexisting with a mutable one, use of a handle after it was consumed, a non-thread-safe value
    crossing a thread boundary) must be REJECTED by rustc — an accepted one is a violation and the
    program is the replay;
  * every *well-moded* program must be ACCEPTED (so "reject everything" does not pass, and the
    ill-moded programs fail for the intended reason only).

The programs are generated from templates x handle kinds x value types; each ill-moded program
differs from a well-moded sibling by exactly the offending use.
"""
import glob, os, subprocess, hashlib
from concurrent.futures import ThreadPoolExecutor

# borrow / move / trait-bound errors: the intended reasons for rejecting an ill-moded program
ALLOWED_CODES = {"E0277", "E0382", "E0499", "E0500", "E0502", "E0503", "E0505", "E0506", "E0597", "E0599", "E0716", "E0521", "E0373", "E0596"}

PRELUDE = """#![allow(unused, dead_code)]
use prefix_trie::*;
use prefix_trie::map::*;
use std::cell::Cell;
use std::rc::Rc;
use std::sync::{Mutex, MutexGuard};
type P = (u32, u8);
fn assert_send<T: Send>() {}
fn assert_sync<T: Sync>() {}
fn use_it<T>(_t: T) {}
"""

# (name, body, must_compile)
def programs():
    ps = []

    def add(name, body, ok):
        ps.append((name, PRELUDE + "pub fn f(map: &mut PrefixMap<P, i32>, other: &mut PrefixMap<P, i32>) {\n" + body + "\n}\n", ok))

    # --- one iterator / sequential handles: fine -------------------------------------------------
    add("ok_iter_mut_seq", "for (_, v) in map.iter_mut() { *v += 1; } for (_, v) in map.iter_mut() { *v += 1; }", True)
    add("ok_collect_iter_mut", "let xs: Vec<(&P, &mut i32)> = map.iter_mut().collect(); for (_, v) in xs { *v += 1; }", True)
    add("ok_view_then_mutate", "{ let v = (&*map).view(); use_it(v.iter().count()); } map.insert((0, 0), 1);", True)
    add("ok_split", "let v = map.view_mut(); let (l, r) = v.split(); if let (Some(mut l), Some(mut r)) = (l, r) { for (_, x) in l.iter_mut() { *x += 1; } for (_, x) in r.iter_mut() { *x += 1; } }", True)
    add("ok_split_threads", "let v = map.view_mut(); let (l, r) = v.split(); std::thread::scope(|s| { if let Some(mut l) = l { s.spawn(move || for (_, x) in l.iter_mut() { *x += 1; }); } if let Some(mut r) = r { s.spawn(move || for (_, x) in r.iter_mut() { *x += 1; }); } });", True)
    add("ok_left_err_back", "let v = map.view_mut(); match v.left() { Ok(mut l) => { l.iter_mut().count(); } Err(mut same) => { same.iter_mut().count(); } }", True)
    add("ok_union_mut_two_maps", "let mut a = map.view_mut(); for (_, l, r) in a.union_mut(&mut *other) { if let Some(l) = l { *l += 1; } if let Some(r) = r { *r += 1; } }", True)
    add("ok_union_mut_split", "let v = map.view_mut(); if let (Some(mut l), Some(r)) = v.split() { for (_, a, b) in l.union_mut(r) { use_it((a, b)); } }", True)
    add("ok_difference_mut_ro_other", "let mut a = map.view_mut(); for it in a.difference_mut(&*other) { *it.value += 1; }", True)
    add("ok_entry_then_get", "*map.entry((1, 8)).or_insert(1) += 1; use_it(map.get(&(1, 8)));", True)
    add("ok_two_ro_views", "let a = (&*map).view(); let b = (&*map).view(); use_it(a.iter().count() + b.iter().count());", True)
    add("ok_view_of_viewmut", "let vm = map.view_mut(); { let v = (&vm).view(); use_it(v.iter().count()); } let mut vm = vm; vm.iter_mut().count();", True)

    # --- aliasing: must be rejected --------------------------------------------------------------
    add("bad_two_iter_mut", "let a = map.iter_mut(); let b = map.iter_mut(); use_it(a); use_it(b);", False)
    add("bad_iter_mut_and_iter", "let a = map.iter_mut(); let b = map.iter(); use_it(a); use_it(b);", False)
    add("bad_get_mut_then_insert", "let r = map.get_mut(&(0, 0)).unwrap(); map.insert((1, 8), 1); *r += 1;", False)
    add("bad_get_mut_twice", "let r1 = map.get_mut(&(0, 0)).unwrap(); let r2 = map.get_mut(&(0, 0)).unwrap(); *r1 += 1; *r2 += 1;", False)
    add("bad_viewmut_and_view", "let vm = map.view_mut(); let v = (&*map).view(); use_it(v.iter().count()); use_it(vm);", False)
    add("bad_two_viewmut", "let a = map.view_mut(); let b = map.view_mut(); use_it(a); use_it(b);", False)
    add("bad_use_after_split", "let mut v = map.view_mut(); let (l, r) = v.split(); v.iter_mut().count(); use_it((l, r));", False)
    add("bad_use_after_left", "let mut v = map.view_mut(); let l = v.left(); v.iter_mut().count(); use_it(l);", False)
    add("bad_left_and_right_of_moved", "let v = map.view_mut(); let l = v.left(); let r = v.right(); use_it((l, r));", False)
    add("bad_clone_viewmut", "let v = map.view_mut(); let w = v.clone(); use_it((v, w));", False)
    add("bad_two_iter_mut_of_view", "let mut v = map.view_mut(); let a = v.iter_mut(); let b = v.iter_mut(); use_it(a); use_it(b);", False)
    add("bad_view_of_viewmut_then_mut", "let mut vm = map.view_mut(); let v = (&vm).view(); vm.iter_mut().count(); use_it(v.iter().count());", False)
    add("bad_union_mut_same_map", "let mut a = map.view_mut(); let it = a.union_mut(&mut *map); use_it(it);", False)
    add("bad_union_mut_self", "let mut a = map.view_mut(); let b = map.view_mut(); let it = a.union_mut(b); use_it(it);", False)
    add("bad_intersection_mut_same_view", "let mut a = map.view_mut(); let it = a.intersection_mut(&mut *map); use_it(it);", False)
    add("bad_difference_mut_ro_same_map", "let mut a = map.view_mut(); let it = a.difference_mut(&*map); use_it(it);", False)
    add("bad_entry_alive_get", "let e = map.entry((1, 8)); let g = map.get(&(1, 8)); use_it(e); use_it(g);", False)
    add("bad_occupied_remove_then_get", "if let Entry::Occupied(o) = map.entry((1, 8)) { let v = o.remove(); use_it(v); use_it(o.get()); }", False)
    add("bad_iter_mut_then_len", "let it = map.iter_mut(); let n = map.len(); use_it((it, n));", False)
    add("bad_children_mut_twice", "let a = map.children_mut(&(0, 0)); let b = map.children_mut(&(0, 0)); use_it((a, b));", False)
    add("bad_value_mut_twice", "let mut v = map.view_mut(); let a = v.value_mut(); let b = v.value_mut(); use_it((a, b));", False)
    add("bad_into_iter_then_use", "let v = map.view_mut(); let it = v.into_iter(); let mut v2 = v; v2.iter_mut().count(); use_it(it);", False)
    add("bad_split_threads_plus_main", "let v = map.view_mut(); let (l, r) = v.split(); std::thread::scope(|s| { if let Some(mut l) = l { s.spawn(move || l.iter_mut().count()); } map.insert((0, 0), 1); use_it(r); });", False)

    # --- Send / Sync matrix ----------------------------------------------------------------------
    def sendsync(name, ty, trait, ok):
        ps.append((name, PRELUDE + "pub fn f() { assert_%s::<%s>(); }\n" % (trait, ty), ok))

    handles = {
        "map": "PrefixMap<P, %s>", "set": None, "view": "TrieView<'static, P, %s>", "viewmut": "TrieViewMut<'static, P, %s>",
        "iter": "Iter<'static, P, %s>", "itermut": "IterMut<'static, P, %s>", "intoiter": "IntoIter<P, %s>",
        "valuesmut": "ValuesMut<'static, P, %s>",
    }
    # value type -> (Send, Sync)
    vals = {"i32": (True, True), "Cell<i32>": (True, False), "Rc<i32>": (False, False),
            "MutexGuard<'static, i32>": (False, True)}
    for hn, ht in handles.items():
        if ht is None:
            continue
        for vn, (vsend, vsync) in vals.items():
            ty = ht % vn
            tag = hn + "_" + "".join(c for c in vn if c.isalnum())
            shared = hn in ("view", "iter")       # hands out &T only
            owning = hn in ("map", "intoiter")     # owns the values
            if owning:
                send_ok, sync_ok = vsend, vsync
            elif shared:
                # &T across threads needs T: Sync (for both Send and Sync of the handle); the crate
                # additionally (conservatively) requires T: Send for Sync of the shared table
                send_ok, sync_ok = vsync and vsend, vsync and vsend
            else:
                # hands out &mut T: sending the handle can move a T to another thread
                send_ok, sync_ok = vsend and vsync, vsend and vsync
            # only the *negative* obligations are safety-relevant; positive ones are checked where
            # the crate promises them (plain thread-safe values)
            if not send_ok:
                sendsync("bad_send_" + tag, ty, "send", False)
            if not sync_ok:
                sendsync("bad_sync_" + tag, ty, "sync", False)
            if vn == "i32":
                sendsync("ok_send_" + tag, ty, "send", True)
                sendsync("ok_sync_" + tag, ty, "sync", True)
    ps.append(("bad_thread_rc_map", PRELUDE + "pub fn f(m: PrefixMap<P, Rc<i32>>) { std::thread::spawn(move || use_it(m)); }\n", False))
    ps.append(("bad_thread_viewmut_guard", PRELUDE + "pub fn f(m: &'static mut PrefixMap<P, MutexGuard<'static, i32>>) { let v = m.view_mut(); std::thread::spawn(move || { let mut v = v; use_it(v.remove()); }); }\n", False))
    ps.append(("ok_thread_map", PRELUDE + "pub fn f(m: PrefixMap<P, i32>) { std::thread::spawn(move || use_it(m)); }\n", True))
    return ps


def run(root, cargo_target, env, tier, seed):
    deps = os.path.join(cargo_target, "debug", "deps")
    rlibs = sorted(glob.glob(os.path.join(deps, "libprefix_trie-*.rlib")), key=os.path.getmtime)
    out_dir = os.path.join(root, ".build", "cap")
    os.makedirs(out_dir, exist_ok=True)
    summary = {"programs": 0, "must_reject": 0, "must_accept": 0, "rejected": 0, "accepted": 0, "samples": []}
    violations = []
    if not rlibs:
        p = os.path.join(out_dir, "no-rlib.txt")
        open(p, "w").write("capability corpus: no libprefix_trie rlib found under %s\n" % deps)
        return {"violations": [p + " no-failing-input-found"], "summary": summary}
    rlib = rlibs[-1]
    progs = programs()

    def compile_one(p):
        name, src, ok = p
        path = os.path.join(out_dir, name + ".rs")
        open(path, "w").write(src)
        r = subprocess.run(["rustc", "--edition", "2021", "--crate-type", "lib", "--emit=metadata",
                            "-L", "dependency=" + deps, "--extern", "prefix_trie=" + rlib,
                            "-o", os.path.join(out_dir, name + ".rmeta"), path],
                           env=env, stdout=subprocess.PIPE, stderr=subprocess.STDOUT, text=True)
        return name, ok, r.returncode == 0, r.stdout, path

    with ThreadPoolExecutor(max_workers=16) as ex:
        results = list(ex.map(compile_one, progs))
    for name, ok, compiled, out, path in results:
        summary["programs"] += 1
        summary["must_accept" if ok else "must_reject"] += 1
        summary["accepted" if compiled else "rejected"] += 1
        if ok and not compiled:
            rp = os.path.join(out_dir, name + ".violation.txt")
            open(rp, "w").write("well-moded program rejected by rustc (the corpus or the API changed):\n%s\n\n%s\n" % (path, out[-3000:]))
            violations.append(rp + " no-failing-input-found")
        if (not ok) and not compiled:
            import re
            codes = set(re.findall(r"error\[(E\d+)\]", out))
            if not codes or not codes <= ALLOWED_CODES:
                rp = os.path.join(out_dir, name + ".violation.txt")
                open(rp, "w").write("ill-moded program rejected for an unrelated reason %s (corpus out of date w.r.t. the API?):\n%s\n\n%s\n" % (sorted(codes), path, out[-3000:]))
                violations.append(rp + " no-failing-input-found")
        if (not ok) and compiled:
            rp = os.path.join(out_dir, name + ".violation.txt")
            open(rp, "w").write("ill-moded program ACCEPTED by rustc — aliasing / thread-safety hole:\n%s\n\n%s\n" % (path, open(path).read()))
            violations.append(rp)
    summary["samples"] = [r[0] for r in results[:6]]
    return {"violations": violations, "summary": summary}
