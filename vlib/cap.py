"""C14: capability corpus (compile-time rejection of aliasing programs, Send/Sync, threads)."""


def run(root, cargo_target, env, tier, seed):
    return {"violations": [], "summary": {"note": "not yet implemented"}}
