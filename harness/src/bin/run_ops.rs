//! Executes an `.ops` file (line protocol, see /verif/DESIGN.md) on the real `prefix-trie` crate and
//! prints one canonical line per operation, in the same format as the Lean driver's `M` lines.

use num_traits::ToPrimitive;
use prefix_trie::map::Entry;
use prefix_trie::*;
use std::cell::RefCell;
use std::collections::HashSet;
use std::io::{BufRead, Write};
use std::panic::{catch_unwind, AssertUnwindSafe};

const INJECTED: &str = "verif-injected-panic";
const DRAIN_LIMIT: usize = 100_000;

// ---------------------------------------------------------------------------------------------
// prefix types
// ---------------------------------------------------------------------------------------------

trait HP: Prefix + Clone + PartialEq + std::fmt::Debug + Send + Sync {
    const W: u32;
    fn mk(repr: u128, len: u8) -> Self;
    fn raw(&self) -> u128 {
        self.repr().to_u128().unwrap()
    }
    fn netraw(&self) -> u128 {
        self.mask().to_u128().unwrap()
    }
    /// serialize + deserialize (serde_json) and compare with the original
    fn serde_map(_m: &PrefixMap<Self, i64>) -> String {
        "bad-op".into()
    }
    fn serde_set(_s: &PrefixSet<Self>) -> String {
        "bad-op".into()
    }
}

fn serde_rt<T: serde::Serialize + serde::de::DeserializeOwned + PartialEq>(x: &T) -> String {
    let s = match serde_json::to_string(x) {
        Ok(s) => s,
        Err(e) => return format!("ser-error:{}", e),
    };
    match serde_json::from_str::<T>(&s) {
        Ok(y) => fb(y == *x),
        Err(e) => format!("de-error:{}", e),
    }
}

macro_rules! hp_tuple {
    ($t:ty, $w:expr) => {
        impl HP for ($t, u8) {
            const W: u32 = $w;
            fn mk(repr: u128, len: u8) -> Self {
                (repr as $t, len)
            }
            fn serde_set(s: &PrefixSet<Self>) -> String {
                serde_rt(s)
            }
        }
    };
}
hp_tuple!(u8, 8);
hp_tuple!(u16, 16);
hp_tuple!(u32, 32);
hp_tuple!(u64, 64);
hp_tuple!(u128, 128);
hp_tuple!(usize, usize::BITS);

macro_rules! hp_from {
    ($t:ty, $w:expr, $r:ty) => {
        impl HP for $t {
            const W: u32 = $w;
            fn mk(repr: u128, len: u8) -> Self {
                <$t as Prefix>::from_repr_len(repr as $r, len)
            }
        }
    };
}
macro_rules! hp_ipnet {
    ($t:ty, $w:expr, $r:ty) => {
        impl HP for $t {
            const W: u32 = $w;
            fn mk(repr: u128, len: u8) -> Self {
                <$t as Prefix>::from_repr_len(repr as $r, len)
            }
            fn serde_map(m: &PrefixMap<Self, i64>) -> String {
                serde_rt(m)
            }
            fn serde_set(s: &PrefixSet<Self>) -> String {
                serde_rt(s)
            }
        }
    };
}
hp_ipnet!(ipnet::Ipv4Net, 32, u32);
hp_ipnet!(ipnet::Ipv6Net, 128, u128);
hp_from!(ipnetwork::Ipv4Network, 32, u32);
hp_from!(ipnetwork::Ipv6Network, 128, u128);
hp_from!(cidr::Ipv4Cidr, 32, u32);
hp_from!(cidr::Ipv6Cidr, 128, u128);
hp_from!(cidr::Ipv4Inet, 32, u32);
hp_from!(cidr::Ipv6Inet, 128, u128);

// ---------------------------------------------------------------------------------------------
// values
// ---------------------------------------------------------------------------------------------

trait HV: Clone + PartialEq + std::fmt::Debug + Send + Sync + 'static {
    fn show(&self) -> String;
    fn bump(&mut self, d: i64);
    fn put(&mut self, v: i64);
    fn of(v: i64) -> Self;
}
impl HV for i64 {
    fn show(&self) -> String {
        self.to_string()
    }
    fn bump(&mut self, d: i64) {
        *self += d
    }
    fn put(&mut self, v: i64) {
        *self = v
    }
    fn of(v: i64) -> Self {
        v
    }
}
impl HV for () {
    fn show(&self) -> String {
        "0".into()
    }
    fn bump(&mut self, _d: i64) {}
    fn put(&mut self, _v: i64) {}
    fn of(_v: i64) -> Self {}
}

// ---------------------------------------------------------------------------------------------
// formatting / parsing
// ---------------------------------------------------------------------------------------------

fn hexw<P: HP>(x: u128) -> String {
    let digits = ((P::W + 3) / 4) as usize;
    format!("{:0width$x}", x, width = digits)
}
fn fp<P: HP>(p: &P) -> String {
    format!("{}/{}", hexw::<P>(p.raw()), p.prefix_len())
}
fn fnet<P: HP>(p: &P) -> String {
    format!("{}/{}", hexw::<P>(p.netraw()), p.prefix_len())
}
fn fpv<P: HP, T: HV>(p: &P, v: &T) -> String {
    format!("{}={}", fp(p), v.show())
}
fn fopt<T>(x: Option<T>, f: impl Fn(T) -> String) -> String {
    match x {
        None => "none".into(),
        Some(x) => format!("some:{}", f(x)),
    }
}
fn flist(xs: Vec<String>) -> String {
    format!("[{}]", xs.join(" "))
}
fn flpm<P: HP, T: HV>(x: Option<(&P, &T)>) -> String {
    match x {
        None => "none".into(),
        Some((p, v)) => fpv(p, v),
    }
}
fn fb(b: bool) -> String {
    if b { "true".into() } else { "false".into() }
}

fn parse_p<P: HP>(s: &str) -> Option<P> {
    let (h, l) = s.split_once('/')?;
    let r = u128::from_str_radix(h, 16).ok()?;
    let len: u8 = l.parse().ok()?;
    if len as u32 > P::W {
        return None;
    }
    Some(P::mk(r, len))
}
fn parse_i(s: &str) -> Option<i64> {
    s.parse().ok()
}

thread_local! {
    /// set when an iterator yielded an item after it had returned `None`
    static UNFUSED: std::cell::Cell<bool> = const { std::cell::Cell::new(false) };
}

fn drain<I: Iterator>(mut it: I) -> (Vec<I::Item>, bool) {
    let mut v = Vec::new();
    while let Some(x) = it.next() {
        if v.len() >= DRAIN_LIMIT {
            return (v, true);
        }
        v.push(x);
    }
    // an exhausted iterator stays exhausted: finitely many items however often it is polled
    for _ in 0..2 {
        if it.next().is_some() {
            UNFUSED.with(|c| c.set(true));
        }
    }
    (v, false)
}
/// the provided methods of `Iterator` (which a type may override) agree with draining by `next()`
fn iter_methods_ok<I: Iterator, F: Fn() -> I>(mk: F, fmt: impl Fn(&I::Item) -> String) -> bool {
    let (xs, d) = drain(mk());
    if d {
        return true;
    }
    let n = xs.len();
    let items: Vec<String> = xs.iter().map(&fmt).collect();
    let last_ok = mk().last().map(|x| fmt(&x)) == items.last().cloned();
    let count_ok = mk().count() == n;
    let nth_ok = if n > 0 { mk().nth(n / 2).map(|x| fmt(&x)) == Some(items[n / 2].clone()) } else { mk().nth(0).is_none() };
    let (lo, hi) = mk().size_hint();
    let hint_ok = lo <= n && hi.map(|h| n <= h).unwrap_or(true);
    let fold_ok = mk().fold(0usize, |a, _| a + 1) == n;
    let skip_ok = mk().skip(1).count() == n.saturating_sub(1);
    let min_ok = n == 0 || mk().map(|x| fmt(&x)).max().is_some();
    last_ok && count_ok && nth_ok && hint_ok && fold_ok && skip_ok && min_ok
}
fn im(ok: bool) -> &'static str {
    if ok { "" } else { ";ITERMETHOD" }
}

fn list_or_diverge(xs: Vec<String>, div: bool) -> String {
    if div { "DIVERGE".into() } else { flist(xs) }
}

fn distinct_addrs<T>(xs: &[*const T]) -> bool {
    if std::mem::size_of::<T>() == 0 {
        return true;
    }
    let s: HashSet<usize> = xs.iter().map(|p| *p as usize).collect();
    s.len() == xs.len()
}

// ---------------------------------------------------------------------------------------------
// state
// ---------------------------------------------------------------------------------------------

struct St<P: HP> {
    a: PrefixMap<P, i64>,
    b: PrefixMap<P, i64>,
    s: PrefixSet<P>,
}

enum Pred {
    True,
    False,
    Mod(u64, u64),
    LenLe(u8),
    LenOdd,
}
fn parse_pred(t: &[&str]) -> Option<Pred> {
    match t {
        ["true"] => Some(Pred::True),
        ["false"] => Some(Pred::False),
        ["mod", k, r] => Some(Pred::Mod(k.parse().ok()?, r.parse().ok()?)),
        ["lenle", n] => Some(Pred::LenLe(n.parse().ok()?)),
        ["lenodd"] => Some(Pred::LenOdd),
        _ => None,
    }
}
impl Pred {
    fn eval(&self, len: u8, v: i64) -> bool {
        match self {
            Pred::True => true,
            Pred::False => false,
            // Int.toNat of a negative value is 0 in the model
            Pred::Mod(k, r) => (if v < 0 { 0 } else { v as u64 }) % k == *r,
            Pred::LenLe(n) => len <= *n,
            Pred::LenOdd => len % 2 == 1,
        }
    }
}

// ---------------------------------------------------------------------------------------------
// shape / snapshot
// ---------------------------------------------------------------------------------------------

fn shape<P: HP, T: HV>(v: Option<TrieView<'_, P, T>>, fuel: u32) -> String {
    match v {
        None => ".".into(),
        Some(v) => {
            if fuel == 0 {
                return "DEEP".into();
            }
            format!(
                "({}{} {} {})",
                fnet(v.prefix()),
                if v.value().is_some() { "*" } else { "-" },
                shape(v.left(), fuel - 1),
                shape(v.right(), fuel - 1)
            )
        }
    }
}

fn walk<P: HP, T: HV>(v: Option<TrieView<'_, P, T>>, fuel: u32) -> String {
    match v {
        None => ".".into(),
        Some(v) => {
            if fuel == 0 {
                return "…".into();
            }
            format!(
                "({}{} {} {})",
                fnet(v.prefix()),
                match v.value() {
                    Some(x) => format!("={}", x.show()),
                    None => "-".into(),
                },
                walk(v.left(), fuel - 1),
                walk(v.right(), fuel - 1)
            )
        }
    }
}

/// the arena skeleton read through the hook (no view, no iterator): `(len* L R)`, `.` for no child,
/// `!` for a link that leaves the arena or reaches a slot twice
fn skel(s: prefix_trie::map::VerifSnapshot) -> String {
    fn go(s: &prefix_trie::map::VerifSnapshot, i: usize, seen: &mut Vec<bool>, out: &mut String) {
        if i >= s.slots.len() || seen[i] {
            out.push('!');
            return;
        }
        seen[i] = true;
        let (l, r, v, len) = s.slots[i];
        out.push_str(&format!("({}{} ", len, if v { "*" } else { "-" }));
        match l {
            Some(l) => go(s, l, seen, out),
            None => out.push('.'),
        }
        out.push(' ');
        match r {
            Some(r) => go(s, r, seen, out),
            None => out.push('.'),
        }
        out.push(')');
    }
    let mut seen = vec![false; s.slots.len()];
    let mut out = String::new();
    go(&s, 0, &mut seen, &mut out);
    out
}

fn snap(s: prefix_trie::map::VerifSnapshot) -> String {
    let n = s.arena_len;
    let mut seen = vec![false; n];
    let mut stack = vec![0usize];
    let mut reach = 0usize;
    let mut valued = 0usize;
    let mut ok = n == s.slots.len() && n > 0;
    while let Some(i) = stack.pop() {
        if i >= n || seen[i] {
            ok = false; // out of range, or reachable twice: not a tree
            continue;
        }
        seen[i] = true;
        reach += 1;
        if s.slots[i].2 {
            valued += 1;
        }
        if let Some(r) = s.slots[i].1 {
            stack.push(r)
        }
        if let Some(l) = s.slots[i].0 {
            stack.push(l)
        }
    }
    for &f in &s.free {
        if f >= n || seen[f] {
            ok = false; // free slot reachable, or listed twice
        } else {
            seen[f] = true;
        }
    }
    if seen.iter().any(|x| !x) {
        ok = false; // neither in the tree nor free
    }
    format!(
        "arena={};free={};count={};valued={};reach={};partition={}",
        n,
        s.free.len(),
        s.count,
        valued,
        reach,
        if ok { "ok" } else { "BROKEN" }
    )
}

// ---------------------------------------------------------------------------------------------
// views
// ---------------------------------------------------------------------------------------------

#[derive(Clone)]
enum VStep<P> {
    Find(P),
    At(P),
    Exact(P),
    Lpm(P),
    Left,
    Right,
}
fn parse_steps<P: HP>(t: &[&str]) -> Option<Vec<VStep<P>>> {
    t.iter()
        .map(|s| {
            Some(match s.split_once(':') {
                None if *s == "left" => VStep::Left,
                None if *s == "right" => VStep::Right,
                Some(("at", p)) => VStep::At(parse_p(p)?),
                Some(("find", p)) => VStep::Find(parse_p(p)?),
                Some(("exact", p)) => VStep::Exact(parse_p(p)?),
                Some(("lpm", p)) => VStep::Lpm(parse_p(p)?),
                _ => return None,
            })
        })
        .collect()
}

fn nav<'a, P: HP, T: HV>(v: TrieView<'a, P, T>, steps: &[VStep<P>]) -> Result<TrieView<'a, P, T>, String> {
    nav_from(v, steps, 0)
}

/// `steps[..done]` have been taken already (by the container's own `view_at`)
fn nav_from<'a, P: HP, T: HV>(mut v: TrieView<'a, P, T>, steps: &[VStep<P>], done: usize) -> Result<TrieView<'a, P, T>, String> {
    for (i, s) in steps.iter().enumerate().skip(done) {
        let next = match s {
            VStep::At(q) => v.clone().view_at(q.clone()),
            VStep::Find(q) => v.find(q.clone()),
            VStep::Exact(q) => v.find_exact(q),
            VStep::Lpm(q) => v.find_lpm(q),
            VStep::Left => v.left(),
            VStep::Right => v.right(),
        };
        match next {
            Some(n) => v = n,
            None => return Err(format!("fail@{};back={}", i, fnet(v.prefix()))),
        }
    }
    Ok(v)
}

fn nav_mut<'a, P: HP, T: HV>(v: TrieViewMut<'a, P, T>, steps: &[VStep<P>]) -> Result<TrieViewMut<'a, P, T>, String> {
    nav_mut_from(v, steps, 0)
}

fn nav_mut_from<'a, P: HP, T: HV>(mut v: TrieViewMut<'a, P, T>, steps: &[VStep<P>], done: usize) -> Result<TrieViewMut<'a, P, T>, String> {
    for (i, s) in steps.iter().enumerate().skip(done) {
        let cur = fnet(v.prefix());
        let next = match s {
            VStep::At(q) => match v.view_mut_at(q.clone()) {
                Some(n) => Ok(n),
                // `view_mut_at` drops the view on failure: report the prefix it had
                None => return Err(format!("fail@{};back={}", i, cur)),
            },
            VStep::Find(q) => v.find(q.clone()),
            VStep::Exact(q) => v.find_exact(q),
            VStep::Lpm(q) => v.find_lpm(q),
            VStep::Left => v.left(),
            VStep::Right => v.right(),
        };
        match next {
            Ok(n) => v = n,
            Err(old) => return Err(format!("fail@{};back={}", i, fnet(old.prefix()))),
        }
    }
    Ok(v)
}

fn view_action<P: HP, T: HV>(v: TrieView<'_, P, T>, action: &[&str]) -> String {
    match action {
        ["prefix"] => format!("ok;prefix={};net={}", fp(v.prefix()), fnet(v.prefix())),
        ["value"] => format!("ok;{}", fopt(v.value(), |x| x.show())),
        ["pv"] => format!("ok;{}", fopt(v.prefix_value(), |(p, x)| fpv(p, x))),
        ["iter"] => {
            let (xs, d) = drain(v.iter());
            let ok = iter_methods_ok(|| v.iter(), |(p, x)| fpv(*p, *x));
            format!("ok;{}{}", list_or_diverge(xs.into_iter().map(|(p, x)| fpv(p, x)).collect(), d), im(ok))
        }
        ["keys"] => {
            let (xs, d) = drain(v.keys());
            format!("ok;{}", list_or_diverge(xs.into_iter().map(|p| fp(p)).collect(), d))
        }
        ["values"] => {
            let (xs, d) = drain(v.values());
            format!("ok;{}", list_or_diverge(xs.into_iter().map(|x| x.show()).collect(), d))
        }
        ["walk"] => format!("ok;{}", walk(Some(v), P::W + 2)),
        // `IntoIterator for TrieView`
        ["intoiter"] => {
            let (xs, d) = drain(v.into_iter());
            format!("ok;{}", list_or_diverge(xs.into_iter().map(|(p, x)| fpv(p, x)).collect(), d))
        }
        ["has"] => format!("ok;{},{}", fb(v.left().is_some()), fb(v.right().is_some())),
        // the view re-borrowed through `AsView`
        ["aspv"] => {
            let b = v.clone().view();
            let (xs, d) = drain(b.keys());
            format!(
                "ok;net={};{};{}",
                fnet(b.prefix()),
                fopt(b.prefix_value(), |(p, x)| fpv(p, x)),
                list_or_diverge(xs.into_iter().map(|p| fp(p)).collect(), d)
            )
        }
        _ => "bad-op".into(),
    }
}

fn viewmut_action<P: HP, T: HV>(mut v: TrieViewMut<'_, P, T>, action: &[&str]) -> String {
    match action {
        ["prefix"] => format!("ok;prefix={};net={}", fp(v.prefix()), fnet(v.prefix())),
        ["value"] => format!("ok;{}", fopt(v.value(), |x| x.show())),
        ["pv"] => format!("ok;{}", fopt(v.prefix_value(), |(p, x)| fpv(p, x))),
        ["has"] => format!("ok;{},{}", fb(v.has_left()), fb(v.has_right())),
        ["iter"] => {
            let (xs, d) = drain((&v).view().iter());
            format!("ok;{}", list_or_diverge(xs.into_iter().map(|(p, x)| fpv(p, x)).collect(), d))
        }
        ["walk"] => format!("ok;{}", walk(Some((&v).view()), P::W + 2)),
        // the immutable view lent out by a mutable one (`impl AsView for &TrieViewMut`)
        ["aspv"] => {
            let b = (&v).view();
            let (xs, d) = drain(b.keys());
            format!(
                "ok;net={};{};{}",
                fnet(b.prefix()),
                fopt(b.prefix_value(), |(p, x)| fpv(p, x)),
                list_or_diverge(xs.into_iter().map(|p| fp(p)).collect(), d)
            )
        }
        ["iter_mut", d] => {
            let d = parse_i(d).unwrap();
            let (xs, dv) = drain(v.iter_mut());
            let out: Vec<String> = xs.iter().map(|(p, x)| fpv(*p, &**x)).collect();
            let addrs: Vec<*const T> = xs.iter().map(|(_, x)| &**x as *const T).collect();
            for (_, x) in xs {
                x.bump(d)
            }
            if !distinct_addrs(&addrs) {
                return "ALIAS".into();
            }
            format!("ok;{}", list_or_diverge(out, dv))
        }
        ["values_mut", d] => {
            let d = parse_i(d).unwrap();
            // values_mut yields no prefixes: pair them with a read-only listing taken before
            let keys: Vec<String> = (&v).view().keys().map(|p| fp(p)).collect();
            let (xs, dv) = drain(v.values_mut());
            let out: Vec<String> = xs.iter().zip(keys.iter()).map(|(x, k)| format!("{}={}", k, x.show())).collect();
            let n = xs.len();
            for x in xs {
                x.bump(d)
            }
            if n != keys.len() {
                return format!("ok;COUNT-MISMATCH {} {}", n, keys.len());
            }
            format!("ok;{}", list_or_diverge(out, dv))
        }
        ["into_iter", d] => {
            let d = parse_i(d).unwrap();
            let (xs, dv) = drain(v.into_iter());
            let out: Vec<String> = xs.iter().map(|(p, x)| fpv(*p, &**x)).collect();
            for (_, x) in xs {
                x.bump(d)
            }
            format!("ok;{}", list_or_diverge(out, dv))
        }
        ["value_mut", x] => {
            let x = parse_i(x).unwrap();
            let r = match v.value_mut() {
                Some(r) => {
                    let old = r.show();
                    r.put(x);
                    format!("some:{}", old)
                }
                None => "none".into(),
            };
            format!("ok;{}", r)
        }
        ["pv_mut", x] => {
            let x = parse_i(x).unwrap();
            let r = match v.prefix_value_mut() {
                Some((_, r)) => {
                    let old = r.show();
                    r.put(x);
                    format!("some:{}", old)
                }
                None => "none".into(),
            };
            format!("ok;{}", r)
        }
        ["remove"] => format!("ok;{}", fopt(v.remove(), |x| x.show())),
        ["set", x] => {
            let x = parse_i(x).unwrap();
            match v.set(T::of(x)) {
                Ok(old) => format!("ok;{}", fopt(old, |x| x.show())),
                Err(_) => "ok;err".into(),
            }
        }
        _ => "bad-op".into(),
    }
}

// ---------------------------------------------------------------------------------------------
// set operations
// ---------------------------------------------------------------------------------------------

fn setop_ro<P: HP, TA: HV, TB: HV>(kind: &str, va: TrieView<'_, P, TA>, vb: TrieView<'_, P, TB>) -> String {
    match kind {
        "union" => {
            let (xs, d) = drain(va.union(vb));
            list_or_diverge(
                xs.into_iter()
                    .map(|it| {
                        // the accessor methods of `UnionItem` must agree with the variant's fields
                        let acc = |ok: bool| if ok { "" } else { "!ACCESSOR" };
                        match it {
                            trieview::UnionItem::Left { prefix, left, right } => {
                                let ok = std::ptr::eq(it.prefix(), prefix)
                                    && it.both().is_none()
                                    && it.left().map(|(p, v)| fpv(p, v)) == Some(fpv(prefix, left))
                                    && it.right().map(|(p, v)| fpv(p, v)) == right.map(|(p, v)| fpv(p, v));
                                format!("L:{}>{}{}", fpv(prefix, left), flpm(right), acc(ok))
                            }
                            trieview::UnionItem::Right { prefix, left, right } => {
                                let ok = std::ptr::eq(it.prefix(), prefix)
                                    && it.both().is_none()
                                    && it.right().map(|(p, v)| fpv(p, v)) == Some(fpv(prefix, right))
                                    && it.left().map(|(p, v)| fpv(p, v)) == left.map(|(p, v)| fpv(p, v));
                                format!("R:{}<{}{}", fpv(prefix, right), flpm(left), acc(ok))
                            }
                            trieview::UnionItem::Both { prefix, left, right } => {
                                let ok = std::ptr::eq(it.prefix(), prefix)
                                    && it.both().map(|(p, l, r)| (fp(p), l.show(), r.show()))
                                        == Some((fp(prefix), left.show(), right.show()))
                                    && it.left().map(|(p, v)| fpv(p, v)) == Some(fpv(prefix, left))
                                    && it.right().map(|(p, v)| fpv(p, v)) == Some(fpv(prefix, right));
                                format!("B:{}={},{}{}", fp(prefix), left.show(), right.show(), acc(ok))
                            }
                        }
                    })
                    .collect(),
                d,
            )
        }
        "intersection" => {
            let (xs, d) = drain(va.intersection(vb));
            list_or_diverge(
                xs.into_iter().map(|(p, l, r)| format!("{}={},{}", fp(p), l.show(), r.show())).collect(),
                d,
            )
        }
        "difference" => {
            let (xs, d) = drain(va.difference(vb));
            list_or_diverge(
                xs.into_iter().map(|it| format!("{}>{}", fpv(it.prefix, it.value), flpm(it.right))).collect(),
                d,
            )
        }
        "covering_difference" => {
            let (xs, d) = drain(va.covering_difference(vb));
            list_or_diverge(xs.into_iter().map(|(p, v)| fpv(p, v)).collect(), d)
        }
        _ => "bad-op".into(),
    }
}

fn setop_mut<P: HP, TA: HV, TB: HV>(kind: &str, d: i64, mut va: TrieViewMut<'_, P, TA>, vb: TrieViewMut<'_, P, TB>) -> String {
    match kind {
        "union_mut" => {
            let (xs, dv) = drain(va.union_mut(vb));
            let out: Vec<String> = xs
                .iter()
                .map(|(p, l, r)| {
                    format!(
                        "{}={},{}",
                        fp(*p),
                        l.as_ref().map(|x| x.show()).unwrap_or("-".into()),
                        r.as_ref().map(|x| x.show()).unwrap_or("-".into())
                    )
                })
                .collect();
            let al: Vec<*const TA> = xs.iter().filter_map(|(_, l, _)| l.as_ref().map(|x| &**x as *const TA)).collect();
            let ar: Vec<*const TB> = xs.iter().filter_map(|(_, _, r)| r.as_ref().map(|x| &**x as *const TB)).collect();
            for (_, l, r) in xs {
                if let Some(l) = l {
                    l.bump(d)
                }
                if let Some(r) = r {
                    r.bump(d)
                }
            }
            if !distinct_addrs(&al) || !distinct_addrs(&ar) {
                return "ALIAS".into();
            }
            list_or_diverge(out, dv)
        }
        "intersection_mut" => {
            let (xs, dv) = drain(va.intersection_mut(vb));
            let out: Vec<String> = xs.iter().map(|(p, l, r)| format!("{}={},{}", fp(*p), l.show(), r.show())).collect();
            let al: Vec<*const TA> = xs.iter().map(|(_, l, _)| &**l as *const TA).collect();
            let ar: Vec<*const TB> = xs.iter().map(|(_, _, r)| &**r as *const TB).collect();
            for (_, l, r) in xs {
                l.bump(d);
                r.bump(d);
            }
            if !distinct_addrs(&al) || !distinct_addrs(&ar) {
                return "ALIAS".into();
            }
            list_or_diverge(out, dv)
        }
        "difference_mut" => {
            let (xs, dv) = drain(va.difference_mut(&vb));
            let out: Vec<String> = xs.iter().map(|it| format!("{}>{}", fpv(it.prefix, &*it.value), flpm(it.right))).collect();
            let al: Vec<*const TA> = xs.iter().map(|it| &*it.value as *const TA).collect();
            for it in xs {
                it.value.bump(d)
            }
            if !distinct_addrs(&al) {
                return "ALIAS".into();
            }
            list_or_diverge(out, dv)
        }
        "covering_difference_mut" => {
            let (xs, dv) = drain(va.covering_difference_mut(&vb));
            let out: Vec<String> = xs.iter().map(|(p, v)| fpv(*p, &**v)).collect();
            let al: Vec<*const TA> = xs.iter().map(|(_, v)| &**v as *const TA).collect();
            for (_, v) in xs {
                v.bump(d)
            }
            if !distinct_addrs(&al) {
                return "ALIAS".into();
            }
            list_or_diverge(out, dv)
        }
        _ => "bad-op".into(),
    }
}

fn split_kind(tok: &str) -> (&str, i64) {
    match tok.split_once(':') {
        Some((k, d)) => (k, d.parse().unwrap_or(0)),
        None => (tok, 0),
    }
}

fn split_colon<'a>(t: &'a [&'a str]) -> (&'a [&'a str], &'a [&'a str]) {
    match t.iter().position(|x| *x == ":") {
        Some(i) => (&t[..i], &t[i + 1..]),
        None => (t, &[]),
    }
}

macro_rules! with_view {
    ($st:expr, $r:expr, |$v:ident| $body:expr) => {
        match $r {
            "A" => {
                let $v = (&$st.a).view();
                $body
            }
            "B" => {
                let $v = (&$st.b).view();
                $body
            }
            "S" => {
                let $v = (&$st.s).view();
                $body
            }
            _ => "bad-op".to_string(),
        }
    };
}

fn setop<P: HP>(st: &mut St<P>, kind_tok: &str, toks: &[&str]) -> String {
    let (kind, d) = split_kind(kind_tok);
    let (left, right) = split_colon(toks);
    let (Some(ra), Some(rb)) = (left.first().copied(), right.first().copied()) else {
        return "bad-op".into();
    };
    let (Some(sa), Some(sb)) = (parse_steps::<P>(&left[1..]), parse_steps::<P>(&right[1..])) else {
        return "bad-op".into();
    };
    if !kind.ends_with("_mut") {
        return with_view!(st, ra, |va| with_view!(st, rb, |vb| {
            match (nav(va, &sa), nav(vb, &sb)) {
                (Ok(va), Ok(vb)) => format!("ok;{}", setop_ro(kind, va, vb)),
                (Err(e), _) => format!("A:{}", e),
                (_, Err(e)) => format!("B:{}", e),
            }
        }));
    }
    // mutable variants need two different maps
    macro_rules! go {
        ($ma:expr, $mb:expr) => {{
            let va = $ma.view_mut();
            let vb = $mb.view_mut();
            match (nav_mut(va, &sa), nav_mut(vb, &sb)) {
                (Ok(va), Ok(vb)) => format!("ok;{}", setop_mut(kind, d, va, vb)),
                (Err(e), _) => format!("A:{}", e),
                (_, Err(e)) => format!("B:{}", e),
            }
        }};
    }
    match (ra, rb) {
        ("A", "B") => go!(&mut st.a, &mut st.b),
        ("B", "A") => go!(&mut st.b, &mut st.a),
        ("A", "S") => go!(&mut st.a, &mut st.s),
        ("S", "A") => go!(&mut st.s, &mut st.a),
        ("B", "S") => go!(&mut st.b, &mut st.s),
        ("S", "B") => go!(&mut st.s, &mut st.b),
        _ => "bad-op".into(),
    }
}

fn setop_split<P: HP>(st: &mut St<P>, kind_tok: &str, toks: &[&str]) -> String {
    let (kind, d) = split_kind(kind_tok);
    let Some(r) = toks.first().copied() else { return "bad-op".into() };
    let Some(steps) = parse_steps::<P>(&toks[1..]) else { return "bad-op".into() };
    macro_rules! go {
        ($m:expr) => {{
            match nav_mut($m.view_mut(), &steps) {
                Err(e) => e,
                Ok(v) => match v.split() {
                    (Some(l), Some(r)) => {
                        if kind.ends_with("_mut") {
                            format!("ok;{}", setop_mut(kind, d, l, r))
                        } else {
                            format!("ok;{}", setop_ro(kind, (&l).view(), (&r).view()))
                        }
                    }
                    _ => "nosplit".into(),
                },
            }
        }};
    }
    match r {
        "A" => go!(&mut st.a),
        "B" => go!(&mut st.b),
        "S" => go!(&mut st.s),
        _ => "bad-op".into(),
    }
}

// ---------------------------------------------------------------------------------------------
// entry API
// ---------------------------------------------------------------------------------------------

fn entry_op<P: HP>(e: Entry<'_, P, i64>, t: &[&str]) -> String {
    match t {
        ["get"] => fopt(e.get(), |x| x.show()),
        ["key"] => fp(e.key()),
        ["get_mut", v] => {
            let v = parse_i(v).unwrap();
            let mut e = e;
            match e.get_mut() {
                Some(x) => {
                    let old = *x;
                    *x = v;
                    format!("some:{}", old)
                }
                None => "none".into(),
            }
        }
        ["insert", v] => fopt(e.insert(parse_i(v).unwrap()), |x| x.show()),
        ["or_insert", v] => e.or_insert(parse_i(v).unwrap()).show(),
        ["or_insert_with", v] => {
            let v = parse_i(v).unwrap();
            e.or_insert_with(|| v).show()
        }
        ["or_default"] => e.or_default().show(),
        ["or_insert_with_panic"] => e.or_insert_with(|| panic!("{}", INJECTED)).show(),
        // the closure panics when it is called, i.e. when the entry is occupied
        ["and_modify_panic", rest @ ..] => entry_op(e.and_modify(|_| panic!("{}", INJECTED)), rest),
        ["and_modify", d, rest @ ..] => {
            let d = parse_i(d).unwrap();
            entry_op(e.and_modify(|x| *x += d), rest)
        }
        ["occ_key"] => match e {
            Entry::Occupied(o) => fp(o.key()),
            Entry::Vacant(_) => "vacant".into(),
        },
        ["occ_get"] => match e {
            Entry::Occupied(o) => o.get().show(),
            Entry::Vacant(_) => "vacant".into(),
        },
        ["occ_get_mut", v] => match e {
            Entry::Occupied(mut o) => {
                let x = o.get_mut();
                let old = *x;
                *x = parse_i(v).unwrap();
                old.show()
            }
            Entry::Vacant(_) => "vacant".into(),
        },
        ["occ_insert", v] => match e {
            Entry::Occupied(o) => o.insert(parse_i(v).unwrap()).show(),
            Entry::Vacant(_) => "vacant".into(),
        },
        ["occ_remove"] => match e {
            Entry::Occupied(o) => o.remove().show(),
            Entry::Vacant(_) => "vacant".into(),
        },
        ["vac_key"] => match e {
            Entry::Vacant(v) => fp(v.key()),
            Entry::Occupied(_) => "occupied".into(),
        },
        ["vac_insert", x] => match e {
            Entry::Vacant(v) => v.insert(parse_i(x).unwrap()).show(),
            Entry::Occupied(_) => "occupied".into(),
        },
        ["vac_insert_with", x] => match e {
            Entry::Vacant(v) => {
                let x = parse_i(x).unwrap();
                v.insert_with(|| x).show()
            }
            Entry::Occupied(_) => "occupied".into(),
        },
        ["vac_default"] => match e {
            Entry::Vacant(v) => v.default().show(),
            Entry::Occupied(_) => "occupied".into(),
        },
        ["vac_insert_with_panic"] => match e {
            Entry::Vacant(v) => v.insert_with(|| panic!("{}", INJECTED)).show(),
            Entry::Occupied(_) => "occupied".into(),
        },
        _ => "bad-op".into(),
    }
}

// ---------------------------------------------------------------------------------------------
// map operations
// ---------------------------------------------------------------------------------------------

fn map_op<P: HP>(m: &mut PrefixMap<P, i64>, op: &str, a: &[&str]) -> String {
    macro_rules! p {
        ($s:expr) => {
            match parse_p::<P>($s) {
                Some(p) => p,
                None => return "bad-op".into(),
            }
        };
    }
    macro_rules! i {
        ($s:expr) => {
            match parse_i($s) {
                Some(p) => p,
                None => return "bad-op".into(),
            }
        };
    }
    match (op, a) {
        ("insert", [q, v]) => fopt(m.insert(p!(q), i!(v)), |x| x.show()),
        ("get", [q]) => fopt(m.get(&p!(q)), |x| x.show()),
        ("get_mut", [q, v]) => {
            let v = i!(v);
            match m.get_mut(&p!(q)) {
                Some(x) => {
                    let old = *x;
                    *x = v;
                    format!("some:{}", old)
                }
                None => "none".into(),
            }
        }
        ("get_key_value", [q]) => fopt(m.get_key_value(&p!(q)), |(p, v)| fpv(p, v)),
        // state probe that does not go through any iterator: exact-match lookups of a list of keys
        ("gkvs", qs) => {
            let mut out = Vec::new();
            for q in qs.iter() {
                out.push(fopt(m.get_key_value(&p!(q)), |(p, v)| fpv(p, v)));
            }
            out.join(" ")
        }
        ("contains_key", [q]) => fb(m.contains_key(&p!(q))),
        ("get_lpm", [q]) => fopt(m.get_lpm(&p!(q)), |(p, v)| fpv(p, v)),
        ("get_lpm_prefix", [q]) => fopt(m.get_lpm_prefix(&p!(q)), |p| fp(p)),
        ("get_lpm_mut", [q, v]) => {
            let v = i!(v);
            match m.get_lpm_mut(&p!(q)) {
                Some((p, x)) => {
                    let s = format!("some:{}", fpv(p, &*x));
                    *x = v;
                    s
                }
                None => "none".into(),
            }
        }
        ("get_spm", [q]) => fopt(m.get_spm(&p!(q)), |(p, v)| fpv(p, v)),
        ("get_spm_prefix", [q]) => fopt(m.get_spm_prefix(&p!(q)), |p| fp(p)),
        ("cover", [q]) => {
            let q = p!(q);
            let (xs, d) = drain(m.cover(&q));
            list_or_diverge(xs.into_iter().map(|(p, v)| fpv(p, v)).collect(), d)
        }
        ("cover_keys", [q]) => {
            let q = p!(q);
            let (xs, d) = drain(m.cover_keys(&q));
            list_or_diverge(xs.into_iter().map(|p| fp(p)).collect(), d)
        }
        ("cover_values", [q]) => {
            let q = p!(q);
            let (xs, d) = drain(m.cover_values(&q));
            list_or_diverge(xs.into_iter().map(|v| v.show()).collect(), d)
        }
        ("remove", [q]) => fopt(m.remove(&p!(q)), |x| x.show()),
        ("remove_keep_tree", [q]) => fopt(m.remove_keep_tree(&p!(q)), |x| x.show()),
        ("remove_children", [q]) => {
            m.remove_children(&p!(q));
            "ok".into()
        }
        ("clear", []) => {
            m.clear();
            "ok".into()
        }
        ("retain", toks) if !toks.is_empty() => {
            let stop: Option<usize> = toks[toks.len() - 1].parse().ok();
            let Some(pred) = parse_pred(&toks[..toks.len() - 1]) else { return "bad-op".into() };
            let calls: RefCell<Vec<(P, i64)>> = RefCell::new(Vec::new());
            let rejected: RefCell<Vec<String>> = RefCell::new(Vec::new());
            let before: Vec<String> = m.iter().map(|(p, x)| fpv(p, x)).collect();
            let r = catch_unwind(AssertUnwindSafe(|| {
                m.retain(|p, v| {
                    if Some(calls.borrow().len() + 1) == stop {
                        panic!("{}", INJECTED);
                    }
                    calls.borrow_mut().push((p.clone(), *v));
                    let keep = pred.eval(p.prefix_len(), *v);
                    if !keep {
                        rejected.borrow_mut().push(fpv(p, v));
                    }
                    keep
                })
            }));
            let calls = calls.into_inner();
            // the property in the implementation's own terms: afterwards the map holds exactly the entries it held
            // before minus those for which the predicate has returned false (whatever the order of the calls,
            // also when the predicate panicked), and every call was on a stored entry, each at most once
            let rejected = rejected.into_inner();
            let expected: Vec<String> = before.iter().filter(|e| !rejected.contains(e)).cloned().collect();
            let after: Vec<String> = m.iter().map(|(p, x)| fpv(p, x)).collect();
            let mut seen = HashSet::new();
            let calls_ok = calls.iter().all(|(p, x)| before.contains(&fpv(p, x)) && seen.insert(fpv(p, x)));
            let consistent = if expected == after && calls_ok { "consistent=ok" } else { "consistent=BROKEN" };
            let mut sorted = calls.clone();
            sorted.sort_by(|x, y| (x.0.netraw(), x.0.prefix_len()).cmp(&(y.0.netraw(), y.0.prefix_len())));
            let f = |v: &Vec<(P, i64)>| flist(v.iter().map(|(p, x)| fpv(p, x)).collect());
            match r {
                Ok(()) => format!("calls={};sorted={};done;{}", f(&calls), f(&sorted), consistent),
                Err(e) => {
                    if e.downcast_ref::<String>().map(|s| s == INJECTED).unwrap_or(false) {
                        format!("calls={};sorted={};panic;{}", f(&calls), f(&sorted), consistent)
                    } else {
                        std::panic::resume_unwind(e)
                    }
                }
            }
        }
        ("collect", items) => {
            let mut xs = Vec::new();
            for it in items {
                let Some((p, v)) = it.split_once('=') else { return "bad-op".into() };
                xs.push((p!(p), i!(v)));
            }
            *m = PrefixMap::from_iter(xs);
            "ok".into()
        }
        ("collect_self", []) => {
            let m2: PrefixMap<P, i64> = m.iter().map(|(p, v)| (p.clone(), *v)).collect();
            fb(m2 == *m)
        }
        ("entry", [q, rest @ ..]) => {
            let q = p!(q);
            let r = catch_unwind(AssertUnwindSafe(|| entry_op(m.entry(q), rest)));
            match r {
                Ok(s) => s,
                Err(e) => {
                    if e.downcast_ref::<String>().map(|s| s == INJECTED).unwrap_or(false) {
                        "panic".into()
                    } else {
                        std::panic::resume_unwind(e)
                    }
                }
            }
        }
        ("iter", []) => {
            let (xs, d) = drain(m.iter());
            let ok = iter_methods_ok(|| m.iter(), |(p, v)| fpv(*p, *v))
                && iter_methods_ok(|| m.keys(), |p| fp(*p))
                && iter_methods_ok(|| m.values(), |v| v.show());
            format!("{}{}", list_or_diverge(xs.into_iter().map(|(p, v)| fpv(p, v)).collect(), d), im(ok))
        }
        ("ref_iter", []) => {
            let mut out = Vec::new();
            for (p, v) in &*m {
                out.push(fpv(p, v));
                if out.len() > DRAIN_LIMIT {
                    return "DIVERGE".into();
                }
            }
            flist(out)
        }
        ("into_iter", []) => {
            let (xs, d) = drain(m.clone().into_iter());
            list_or_diverge(xs.into_iter().map(|(p, v)| fpv(&p, &v)).collect(), d)
        }
        ("keys", []) => {
            let (xs, d) = drain(m.keys());
            list_or_diverge(xs.into_iter().map(|p| fp(p)).collect(), d)
        }
        ("into_keys", []) => {
            let (xs, d) = drain(m.clone().into_keys());
            list_or_diverge(xs.into_iter().map(|p| fp(&p)).collect(), d)
        }
        ("values", []) => {
            let (xs, d) = drain(m.values());
            list_or_diverge(xs.into_iter().map(|v| v.show()).collect(), d)
        }
        ("into_values", []) => {
            let (xs, d) = drain(m.clone().into_values());
            list_or_diverge(xs.into_iter().map(|v| v.show()).collect(), d)
        }
        ("iter_mut", [d]) => {
            let d = i!(d);
            let (xs, dv) = drain(m.iter_mut());
            let out: Vec<String> = xs.iter().map(|(p, x)| fpv(*p, &**x)).collect();
            let addrs: Vec<*const i64> = xs.iter().map(|(_, x)| &**x as *const i64).collect();
            for (_, x) in xs {
                *x += d;
            }
            if !distinct_addrs(&addrs) {
                return "ALIAS".into();
            }
            list_or_diverge(out, dv)
        }
        ("values_mut", [d]) => {
            let d = i!(d);
            let keys: Vec<String> = m.keys().map(|p| fp(p)).collect();
            let (xs, dv) = drain(m.values_mut());
            if xs.len() != keys.len() {
                return format!("COUNT-MISMATCH {} {}", xs.len(), keys.len());
            }
            let out: Vec<String> = xs.iter().zip(keys.iter()).map(|(x, k)| format!("{}={}", k, x.show())).collect();
            for x in xs {
                *x += d;
            }
            list_or_diverge(out, dv)
        }
        ("iter_clone", [k]) => {
            let k: usize = match k.parse() {
                Ok(k) => k,
                Err(_) => return "bad-op".into(),
            };
            let mut it = m.iter();
            let mut first = Vec::new();
            for _ in 0..k {
                match it.next() {
                    Some((p, v)) => first.push(fpv(p, v)),
                    None => break,
                }
            }
            let cl = it.clone();
            let (rest, d1) = drain(it);
            let (clone, d2) = drain(cl);
            format!(
                "first={};rest={};clone={}",
                flist(first),
                list_or_diverge(rest.into_iter().map(|(p, v)| fpv(p, v)).collect(), d1),
                list_or_diverge(clone.into_iter().map(|(p, v)| fpv(p, v)).collect(), d2)
            )
        }
        ("iter_fused", []) => {
            let mut it = m.iter();
            let mut out = Vec::new();
            while let Some((p, v)) = it.next() {
                out.push(fpv(p, v));
                if out.len() > DRAIN_LIMIT {
                    return "DIVERGE".into();
                }
            }
            let tail: Vec<String> = (0..3).map(|_| fopt(it.next(), |(p, v)| fpv(p, v))).collect();
            format!("{};tail={}", flist(out), tail.join(","))
        }
        ("len", []) => format!("{};{};n={}", m.len(), fb(m.is_empty()), m.iter().take(DRAIN_LIMIT).count()),
        ("children", [q]) => {
            let (xs, d) = drain(m.children(&p!(q)));
            list_or_diverge(xs.into_iter().map(|(p, v)| fpv(p, v)).collect(), d)
        }
        ("into_children", [q]) => {
            let (xs, d) = drain(m.clone().into_children(&p!(q)));
            list_or_diverge(xs.into_iter().map(|(p, v)| fpv(&p, &v)).collect(), d)
        }
        ("children_mut", [q, d]) => {
            let d = i!(d);
            let (xs, dv) = drain(m.children_mut(&p!(q)));
            let out: Vec<String> = xs.iter().map(|(p, x)| fpv(*p, &**x)).collect();
            for (_, x) in xs {
                *x += d;
            }
            list_or_diverge(out, dv)
        }
        ("shape", []) => shape(Some((&*m).view()), P::W + 3),
        ("shape_fresh", []) => {
            let fwd: PrefixMap<P, i64> = m.iter().map(|(p, v)| (p.clone(), *v)).collect();
            let mut items: Vec<(P, i64)> = m.iter().map(|(p, v)| (p.clone(), *v)).collect();
            items.reverse();
            let bwd: PrefixMap<P, i64> = items.into_iter().collect();
            let s0 = shape(Some((&*m).view()), P::W + 3);
            if shape(Some((&fwd).view()), P::W + 3) == s0 && shape(Some((&bwd).view()), P::W + 3) == s0 {
                "same".into()
            } else {
                "differ".into()
            }
        }
        ("serde", []) => P::serde_map(m),
        ("snap", []) => snap(m.verif_snapshot()),
        ("skel", []) => skel(m.verif_snapshot()),
        _ => "bad-op".into(),
    }
}

fn set_op<P: HP>(s: &mut PrefixSet<P>, op: &str, a: &[&str]) -> String {
    macro_rules! p {
        ($s:expr) => {
            match parse_p::<P>($s) {
                Some(p) => p,
                None => return "bad-op".into(),
            }
        };
    }
    let unit = |b: bool| if b { "some:0".to_string() } else { "none".to_string() };
    match (op, a) {
        // `insert` returns true when newly inserted: previous value `none`
        ("insert", [q, _]) => unit(!s.insert(p!(q))),
        ("contains_key", [q]) => fb(s.contains(&p!(q))),
        ("get", [q]) => unit(s.contains(&p!(q))),
        ("get_key_value", [q]) => fopt(s.get(&p!(q)), |p| fpv(p, &())),
        ("gkvs", qs) => {
            let mut out = Vec::new();
            for q in qs.iter() {
                out.push(fopt(s.get(&p!(q)), |p| fpv(p, &())));
            }
            out.join(" ")
        }
        ("get_lpm", [q]) => fopt(s.get_lpm(&p!(q)), |p| fpv(p, &())),
        ("get_lpm_prefix", [q]) => fopt(s.get_lpm(&p!(q)), |p| fp(p)),
        ("get_spm_prefix", [q]) => fopt(s.get_spm(&p!(q)), |p| fp(p)),
        ("cover_keys", [q]) => {
            let q = p!(q);
            let (xs, d) = drain(s.cover(&q));
            list_or_diverge(xs.into_iter().map(|p| fp(p)).collect(), d)
        }
        ("remove", [q]) => unit(s.remove(&p!(q))),
        ("remove_keep_tree", [q]) => unit(s.remove_keep_tree(&p!(q))),
        ("remove_children", [q]) => {
            s.remove_children(&p!(q));
            "ok".into()
        }
        ("clear", []) => {
            s.clear();
            "ok".into()
        }
        ("retain", toks) if !toks.is_empty() => {
            let stop: Option<usize> = toks[toks.len() - 1].parse().ok();
            let Some(pred) = parse_pred(&toks[..toks.len() - 1]) else { return "bad-op".into() };
            let calls: RefCell<Vec<P>> = RefCell::new(Vec::new());
            let rejected: RefCell<Vec<String>> = RefCell::new(Vec::new());
            let before: Vec<String> = s.iter().map(|p| fp(p)).collect();
            let r = catch_unwind(AssertUnwindSafe(|| {
                s.retain(|p| {
                    if Some(calls.borrow().len() + 1) == stop {
                        panic!("{}", INJECTED);
                    }
                    calls.borrow_mut().push(p.clone());
                    let keep = pred.eval(p.prefix_len(), 0);
                    if !keep {
                        rejected.borrow_mut().push(fp(p));
                    }
                    keep
                })
            }));
            let calls = calls.into_inner();
            let rejected = rejected.into_inner();
            let expected: Vec<String> = before.iter().filter(|e| !rejected.contains(e)).cloned().collect();
            let after: Vec<String> = s.iter().map(|p| fp(p)).collect();
            let mut seen = HashSet::new();
            let calls_ok = calls.iter().all(|p| before.contains(&fp(p)) && seen.insert(fp(p)));
            let consistent = if expected == after && calls_ok { "consistent=ok" } else { "consistent=BROKEN" };
            let mut sorted = calls.clone();
            sorted.sort_by(|x, y| (x.netraw(), x.prefix_len()).cmp(&(y.netraw(), y.prefix_len())));
            let f = |v: &Vec<P>| flist(v.iter().map(|p| fpv(p, &())).collect());
            match r {
                Ok(()) => format!("calls={};sorted={};done;{}", f(&calls), f(&sorted), consistent),
                Err(e) => {
                    if e.downcast_ref::<String>().map(|s| s == INJECTED).unwrap_or(false) {
                        format!("calls={};sorted={};panic;{}", f(&calls), f(&sorted), consistent)
                    } else {
                        std::panic::resume_unwind(e)
                    }
                }
            }
        }
        ("collect", items) => {
            let mut xs = Vec::new();
            for it in items {
                let Some((p, _)) = it.split_once('=') else { return "bad-op".into() };
                xs.push(p!(p));
            }
            *s = PrefixSet::from_iter(xs);
            "ok".into()
        }
        ("collect_self", []) => {
            let s2: PrefixSet<P> = s.iter().cloned().collect();
            fb(s2 == *s)
        }
        ("iter", []) => {
            let (xs, d) = drain(s.iter());
            let ok = iter_methods_ok(|| s.iter(), |p| fp(*p));
            format!("{}{}", list_or_diverge(xs.into_iter().map(|p| fpv(p, &())).collect(), d), im(ok))
        }
        ("ref_iter", []) => {
            let (xs, d) = drain((&*s).into_iter());
            list_or_diverge(xs.into_iter().map(|p| fpv(p, &())).collect(), d)
        }
        ("into_iter", []) => {
            let (xs, d) = drain(s.clone().into_iter());
            list_or_diverge(xs.into_iter().map(|p| fpv(&p, &())).collect(), d)
        }
        ("keys", []) => {
            let (xs, d) = drain(s.iter());
            list_or_diverge(xs.into_iter().map(|p| fp(p)).collect(), d)
        }
        ("iter_clone", [k]) => {
            let k: usize = match k.parse() {
                Ok(k) => k,
                Err(_) => return "bad-op".into(),
            };
            let mut it = s.iter();
            let mut first = Vec::new();
            for _ in 0..k {
                match it.next() {
                    Some(p) => first.push(fpv(p, &())),
                    None => break,
                }
            }
            let cl = it.clone();
            let (rest, d1) = drain(it);
            let (clone, d2) = drain(cl);
            format!(
                "first={};rest={};clone={}",
                flist(first),
                list_or_diverge(rest.into_iter().map(|p| fpv(p, &())).collect(), d1),
                list_or_diverge(clone.into_iter().map(|p| fpv(p, &())).collect(), d2)
            )
        }
        ("iter_fused", []) => {
            let mut it = s.iter();
            let mut out = Vec::new();
            while let Some(p) = it.next() {
                out.push(fpv(p, &()));
                if out.len() > DRAIN_LIMIT {
                    return "DIVERGE".into();
                }
            }
            let tail: Vec<String> = (0..3).map(|_| fopt(it.next(), |p| fpv(p, &()))).collect();
            format!("{};tail={}", flist(out), tail.join(","))
        }
        ("len", []) => format!("{};{};n={}", s.len(), fb(s.is_empty()), s.iter().take(DRAIN_LIMIT).count()),
        ("children", [q]) => {
            let (xs, d) = drain(s.children(&p!(q)));
            list_or_diverge(xs.into_iter().map(|p| fpv(p, &())).collect(), d)
        }
        ("shape", []) => shape(Some((&*s).view()), P::W + 3),
        ("shape_fresh", []) => {
            let fwd: PrefixSet<P> = s.iter().cloned().collect();
            let mut items: Vec<P> = s.iter().cloned().collect();
            items.reverse();
            let bwd: PrefixSet<P> = items.into_iter().collect();
            let s0 = shape(Some((&*s).view()), P::W + 3);
            if shape(Some((&fwd).view()), P::W + 3) == s0 && shape(Some((&bwd).view()), P::W + 3) == s0 {
                "same".into()
            } else {
                "differ".into()
            }
        }
        ("serde", []) => P::serde_set(s),
        ("snap", []) => snap(s.verif_snapshot()),
        ("skel", []) => skel(s.verif_snapshot()),
        _ => "bad-op".into(),
    }
}

fn pfx_op<P: HP>(t: &[&str]) -> String {
    macro_rules! p {
        ($s:expr) => {
            match parse_p::<P>($s) {
                Some(p) => p,
                None => return "bad-op".into(),
            }
        };
    }
    match t {
        ["contains", a, b] => fb(p!(a).contains(&p!(b))),
        ["eq", a, b] => fb(Prefix::eq(&p!(a), &p!(b))),
        ["lcp", a, b] => {
            let (a, b) = (p!(a), p!(b));
            format!("{};sym={}", fp(&a.longest_common_prefix(&b)), fp(&b.longest_common_prefix(&a)))
        }
        // contains / eq / longest_common_prefix in both directions, one line
        ["pair", a, b] => {
            let (a, b) = (p!(a), p!(b));
            format!(
                "{},{};{};{};{}",
                fb(a.contains(&b)),
                fb(b.contains(&a)),
                fb(Prefix::eq(&a, &b)),
                fp(&a.longest_common_prefix(&b)),
                fp(&b.longest_common_prefix(&a))
            )
        }
        // is_bit_set for every index 0..=255
        ["bits", a] => {
            let a = p!(a);
            (0..=255u8).map(|i| if a.is_bit_set(i) { '1' } else { '0' }).collect::<String>()
        }
        ["bit", a, i] => {
            let i: u8 = match i.parse() {
                Ok(i) => i,
                Err(_) => return "bad-op".into(),
            };
            fb(p!(a).is_bit_set(i))
        }
        ["mask", a] => hexw::<P>(p!(a).netraw()),
        ["from", a] => {
            let a = p!(a);
            format!("{};net={}", fp(&a), fnet(&a))
        }
        ["zero"] => fp(&P::zero()),
        ["tor", a, b] => {
            let (a, b) = (p!(a), p!(b));
            fb(b.is_bit_set(a.prefix_len()))
        }
        _ => "bad-op".into(),
    }
}

fn step<P: HP>(st: &mut St<P>, line: &str) -> String {
    let toks: Vec<&str> = line.split_whitespace().collect();
    match toks.as_slice() {
        [] => String::new(),
        ["pfx", rest @ ..] => pfx_op::<P>(rest),
        ["view", r, rest @ ..] => {
            let (steps, action) = split_colon(rest);
            let Some(steps) = parse_steps::<P>(steps) else { return "bad-op".into() };
            // a leading `at:q` goes through the container's own `AsView::view_at` (maps and sets implement the trait
            // separately); everything else starts from `view()`
            macro_rules! go {
                ($m:expr) => {{
                    let start = match steps.first() {
                        Some(VStep::At(q)) => match $m.view_at(q.clone()) {
                            Some(v) => Ok((v, 1)),
                            None => Err(format!("fail@0;back={}", fnet($m.view().prefix()))),
                        },
                        _ => Ok(($m.view(), 0)),
                    };
                    match start.and_then(|(v, done)| nav_from(v, &steps, done)) {
                        Ok(v) => view_action(v, action),
                        Err(e) => e,
                    }
                }};
            }
            match *r {
                "A" => go!(&st.a),
                "B" => go!(&st.b),
                "S" => go!(&st.s),
                _ => "bad-op".into(),
            }
        }
        ["viewmut", r, rest @ ..] => {
            let (steps, action) = split_colon(rest);
            let Some(steps) = parse_steps::<P>(steps) else { return "bad-op".into() };
            macro_rules! go {
                ($m:expr) => {{
                    let root = fnet((&*$m).view().prefix());
                    let start = match steps.first() {
                        Some(VStep::At(q)) => match $m.view_mut_at(q.clone()) {
                            Some(v) => Ok((v, 1)),
                            None => Err(format!("fail@0;back={}", root)),
                        },
                        _ => Ok(($m.view_mut(), 0)),
                    };
                    match start.and_then(|(v, done)| nav_mut_from(v, &steps, done)) {
                        Ok(v) => viewmut_action(v, action),
                        Err(e) => e,
                    }
                }};
            }
            match *r {
                "A" => go!(&mut st.a),
                "B" => go!(&mut st.b),
                "S" => go!(&mut st.s),
                _ => "bad-op".into(),
            }
        }
        ["par_bump", r, d, rest @ ..] => {
            // two threads mutate the two sides of a split view concurrently
            let Some(steps) = parse_steps::<P>(rest) else { return "bad-op".into() };
            let Some(d) = parse_i(d) else { return "bad-op".into() };
            macro_rules! go {
                ($m:expr) => {
                    match nav_mut($m.view_mut(), &steps) {
                        Err(e) => e,
                        Ok(v) => {
                            let (l, r) = v.split();
                            std::thread::scope(|s| {
                                if let Some(mut l) = l {
                                    s.spawn(move || {
                                        for (_, x) in l.iter_mut() {
                                            std::thread::yield_now();
                                            x.bump(d)
                                        }
                                    });
                                }
                                if let Some(mut r) = r {
                                    s.spawn(move || {
                                        for (_, x) in r.iter_mut() {
                                            std::thread::yield_now();
                                            x.bump(d)
                                        }
                                    });
                                }
                            });
                            "ok".into()
                        }
                    }
                };
            }
            match *r {
                "A" => go!(&mut st.a),
                "B" => go!(&mut st.b),
                "S" => go!(&mut st.s),
                _ => "bad-op".into(),
            }
        }
        // both sides of a split mutable view search for the same prefix while both are alive: the results must
        // never lend the same entry twice
        ["split_probe", r, kind, q, rest @ ..] => {
            let Some(steps) = parse_steps::<P>(rest) else { return "bad-op".into() };
            let Some(q) = parse_p::<P>(q) else { return "bad-op".into() };
            fn probe<P: HP, T: HV>(v: Option<TrieViewMut<'_, P, T>>, kind: &str, q: &P) -> (String, Option<*const T>) {
                match v {
                    None => ("-".into(), None),
                    Some(v) => {
                        let res = match kind {
                            "exact" => v.find_exact(q),
                            "find" => v.find(q.clone()),
                            _ => v.find_lpm(q),
                        };
                        match res {
                            Ok(mut w) => {
                                let s = format!("ok:{}", fnet(w.prefix()));
                                let p = w.value_mut().map(|x| x as *const T);
                                (s, p)
                            }
                            Err(_) => ("err".into(), None),
                        }
                    }
                }
            }
            macro_rules! go {
                ($m:expr, $t:ty) => {
                    match nav_mut($m.view_mut(), &steps) {
                        Err(e) => e,
                        Ok(v) => {
                            let (l, r) = v.split();
                            let (ls, lp) = probe(l, kind, &q);
                            let (rs, rp) = probe(r, kind, &q);
                            let alias = std::mem::size_of::<$t>() != 0 && lp.is_some() && lp == rp;
                            format!("L={};R={}{}", ls, rs, if alias { ";ALIAS" } else { "" })
                        }
                    }
                };
            }
            match *r {
                "A" => go!(&mut st.a, i64),
                "B" => go!(&mut st.b, i64),
                "S" => go!(&mut st.s, ()),
                _ => "bad-op".into(),
            }
        }
        ["par_mixed", r, d, rest @ ..] => {
            // one thread reads the left side through a read-only re-borrow while another writes the right side
            let Some(steps) = parse_steps::<P>(rest) else { return "bad-op".into() };
            let Some(d) = parse_i(d) else { return "bad-op".into() };
            macro_rules! go {
                ($m:expr) => {
                    match nav_mut($m.view_mut(), &steps) {
                        Err(e) => e,
                        Ok(v) => {
                            let (l, r) = v.split();
                            let mut seen = 0usize;
                            std::thread::scope(|s| {
                                let h = l.as_ref().map(|l| {
                                    s.spawn(move || {
                                        let mut n = 0usize;
                                        for _ in 0..3 {
                                            n = l.view().iter().count();
                                            std::thread::yield_now();
                                        }
                                        n
                                    })
                                });
                                if let Some(mut r) = r {
                                    s.spawn(move || {
                                        for (_, x) in r.iter_mut() {
                                            std::thread::yield_now();
                                            x.bump(d)
                                        }
                                    });
                                }
                                if let Some(h) = h {
                                    seen = h.join().unwrap_or(usize::MAX);
                                }
                            });
                            format!("ok;left={}", seen)
                        }
                    }
                };
            }
            match *r {
                "A" => go!(&mut st.a),
                "B" => go!(&mut st.b),
                "S" => go!(&mut st.s),
                _ => "bad-op".into(),
            }
        }
        ["par_churn", r, n, rest @ ..] => {
            // two threads insert / remove the value at the root of their side of a split view, `n` times each
            // (the entry counter is shared between the sides); every side ends as it started
            let Some(steps) = parse_steps::<P>(rest) else { return "bad-op".into() };
            let Ok(rounds) = n.parse::<u32>() else { return "bad-op".into() };
            fn work<P: HP, T: HV>(mut v: TrieViewMut<'_, P, T>, rounds: u32) {
                let orig = v.value().cloned();
                for i in 0..rounds {
                    if v.set(T::of(i as i64)).is_err() {
                        break;
                    }
                    v.remove();
                }
                if let Some(o) = orig {
                    let _ = v.set(o);
                }
            }
            macro_rules! go {
                ($m:expr) => {{
                    let res = match nav_mut($m.view_mut(), &steps) {
                        Err(e) => Err(e),
                        Ok(v) => {
                            let (l, r) = v.split();
                            std::thread::scope(|s| {
                                if let Some(l) = l {
                                    s.spawn(move || work(l, rounds));
                                }
                                if let Some(r) = r {
                                    s.spawn(move || work(r, rounds));
                                }
                            });
                            Ok(())
                        }
                    };
                    match res {
                        Err(e) => e,
                        Ok(()) => format!("ok;len={};n={}", $m.len(), $m.iter().count()),
                    }
                }};
            }
            match *r {
                "A" => go!(&mut st.a),
                "B" => go!(&mut st.b),
                "S" => go!(&mut st.s),
                _ => "bad-op".into(),
            }
        }
        ["setop", kind, rest @ ..] => setop(st, kind, rest),
        ["setop_split", kind, rest @ ..] => setop_split(st, kind, rest),
        ["eq", ra, rb] => {
            macro_rules! m {
                ($r:expr) => {
                    match $r {
                        "A" => &st.a,
                        "B" => &st.b,
                        _ => return "bad-op".into(),
                    }
                };
            }
            if *ra == "S" && *rb == "S" {
                #[allow(clippy::eq_op)]
                return format!("{},{}", fb(st.s == st.s), fb(!(st.s != st.s)));
            }
            let (a, b) = (m!(*ra), m!(*rb));
            format!("{},{}", fb(a == b), fb(b == a))
        }
        // `Default` of maps, sets and their iterators: empty containers, iterators that yield nothing
        ["defaults"] => {
            let m: PrefixMap<P, i64> = Default::default();
            let s: PrefixSet<P> = Default::default();
            let it: prefix_trie::map::Iter<'_, P, i64> = Default::default();
            let mut itm: prefix_trie::map::IterMut<'_, P, i64> = Default::default();
            format!(
                "map={},{},{};set={},{},{};iters={},{},0,0,0",
                m.len(),
                fb(m.is_empty()),
                m.iter().count(),
                s.len(),
                fb(s.is_empty()),
                s.iter().count(),
                it.count(),
                fb(itm.next().is_none())
            )
        }
        // equality of sets: `S` against the set of `A`'s / `B`'s keys, both ways round
        ["seteq", "S", rb] => {
            let other: PrefixSet<P> = match *rb {
                "A" => st.a.keys().cloned().collect(),
                "B" => st.b.keys().cloned().collect(),
                _ => return "bad-op".into(),
            };
            format!("{},{}", fb(st.s == other), fb(other == st.s))
        }
        // `Clone::clone_from`
        ["copy_from", ra, rb] => {
            match (*ra, *rb) {
                ("A", "B") => {
                    let (a, b) = (&st.a, &mut st.b);
                    b.clone_from(a)
                }
                ("B", "A") => {
                    let (a, b) = (&mut st.a, &st.b);
                    a.clone_from(b)
                }
                _ => return "bad-op".into(),
            }
            "ok".into()
        }
        ["copy", ra, rb] => {
            let src = match *ra {
                "A" => st.a.clone(),
                "B" => st.b.clone(),
                _ => return "bad-op".into(),
            };
            match *rb {
                "A" => st.a = src,
                "B" => st.b = src,
                _ => return "bad-op".into(),
            }
            "ok".into()
        }
        [op, r, args @ ..] => match *r {
            "A" => map_op(&mut st.a, op, args),
            "B" => map_op(&mut st.b, op, args),
            "S" => set_op(&mut st.s, op, args),
            _ => "bad-op".into(),
        },
        _ => "bad-op".into(),
    }
}

/// number of arena slots reachable from slot 0 (each counted once)
fn reach(s: &prefix_trie::map::VerifSnapshot) -> usize {
    let n = s.slots.len();
    let mut seen = vec![false; n];
    let mut stack = vec![0usize];
    let mut c = 0;
    while let Some(i) = stack.pop() {
        if i >= n || seen[i] {
            continue;
        }
        seen[i] = true;
        c += 1;
        if let Some(r) = s.slots[i].1 {
            stack.push(r)
        }
        if let Some(l) = s.slots[i].0 {
            stack.push(l)
        }
    }
    c
}

fn run<P: HP>(input: impl BufRead, out: &mut impl Write) {
    let mut st: St<P> = St { a: PrefixMap::new(), b: PrefixMap::new(), s: PrefixSet::new() };
    // per register: the largest number of nodes the map has needed after any operation so far (C16: the arena
    // never holds more slots than that)
    let mut peaks = [1usize; 3];
    for line in input.lines() {
        let line = line.unwrap();
        let t = line.trim();
        if t.is_empty() || t.starts_with('#') {
            continue;
        }
        let r = catch_unwind(AssertUnwindSafe(|| step(&mut st, t)));
        let toks: Vec<&str> = t.split(' ').collect();
        let ridx = |r: &str| match r {
            "A" => Some(0),
            "B" => Some(1),
            "S" => Some(2),
            _ => None,
        };
        if toks[0] == "copy" && toks.len() == 3 {
            if let (Some(x), Some(y)) = (ridx(toks[1]), ridx(toks[2])) {
                peaks[y] = peaks[x];
            }
        }
        let snaps = catch_unwind(AssertUnwindSafe(|| [st.a.verif_snapshot(), st.b.verif_snapshot(), st.s.verif_snapshot()]));
        let mut bound = String::new();
        if let Ok(sn) = snaps {
            for i in 0..3 {
                peaks[i] = peaks[i].max(reach(&sn[i]));
            }
            if toks[0] == "snap" && toks.len() == 2 {
                if let Some(i) = ridx(toks[1]) {
                    bound = if sn[i].arena_len > peaks[i] { ";bound=EXCEEDED".into() } else { ";bound=ok".into() };
                }
            }
        }
        match r {
            Ok(mut s) => {
                if s.starts_with("arena=") {
                    s.push_str(&bound);
                }
                if UNFUSED.with(|c| c.replace(false)) {
                    s.push_str(";UNFUSED");
                }
                writeln!(out, "{}", s).unwrap();
                out.flush().unwrap();
            }
            Err(e) => {
                let msg = e
                    .downcast_ref::<String>()
                    .cloned()
                    .or_else(|| e.downcast_ref::<&str>().map(|s| s.to_string()))
                    .unwrap_or_default();
                writeln!(out, "PANIC:{}", msg.replace('\n', " ")).unwrap()
            }
        }
    }
}

fn main() {
    std::panic::set_hook(Box::new(|_| {}));
    let args: Vec<String> = std::env::args().collect();
    let ptype = args.get(1).map(|s| s.as_str()).unwrap_or("u8");
    let stdin = std::io::stdin();
    let mut input = stdin.lock();
    let mut hdr = String::new();
    input.read_line(&mut hdr).unwrap();
    let stdout = std::io::stdout();
    let mut out = std::io::BufWriter::new(stdout.lock());
    match ptype {
        "u8" => run::<(u8, u8)>(input, &mut out),
        "u16" => run::<(u16, u8)>(input, &mut out),
        "u32" => run::<(u32, u8)>(input, &mut out),
        "u64" => run::<(u64, u8)>(input, &mut out),
        "u128" => run::<(u128, u8)>(input, &mut out),
        "usize" => run::<(usize, u8)>(input, &mut out),
        "ipv4net" => run::<ipnet::Ipv4Net>(input, &mut out),
        "ipv6net" => run::<ipnet::Ipv6Net>(input, &mut out),
        "ipv4network" => run::<ipnetwork::Ipv4Network>(input, &mut out),
        "ipv6network" => run::<ipnetwork::Ipv6Network>(input, &mut out),
        "ipv4cidr" => run::<cidr::Ipv4Cidr>(input, &mut out),
        "ipv6cidr" => run::<cidr::Ipv6Cidr>(input, &mut out),
        "ipv4inet" => run::<cidr::Ipv4Inet>(input, &mut out),
        "ipv6inet" => run::<cidr::Ipv6Inet>(input, &mut out),
        _ => {
            eprintln!("unknown ptype {}", ptype);
            std::process::exit(2)
        }
    }
}
