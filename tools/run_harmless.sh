#!/bin/bash
# apply each refactoring to /repo, run all 20 quick checks, revert
for d in /verif/harmless/*/; do
  id=$(basename $d)
  git -C /repo status --porcelain | grep -q . && { echo "/repo not clean"; exit 1; }
  git -C /repo apply $d/patch.diff || { echo "$id PATCH DOES NOT APPLY"; continue; }
  res=""
  for i in 01 02 03 04 05 06 07 08 09 10 11 12 13 14 15 16 17 18 19 20; do
    out=$(cd /verif && ./check C$i 2>&1 | grep -E "VIOLATION|internal error" | head -1)
    [ -n "$out" ] && res="$res | C$i: $out"
  done
  git -C /repo checkout -- .
  echo "$id: ${res:-no alarm on any of the 20 checks}"
done
