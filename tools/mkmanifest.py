#!/usr/bin/env python3
"""regenerates /verif/MANIFEST.json from the set of properties that have proof obligations (PT/Audit/<id>.lean)"""
import json, os
ROOT = os.path.dirname(os.path.dirname(os.path.abspath(__file__)))
props = [json.loads(l) for l in open(os.path.join(ROOT, "properties.jsonl"))]
notes = json.load(open(os.path.join(ROOT, "tools", "levels.json")))
checks, na = [], []
for d in props:
    pid = d["id"]
    n = notes.get(pid, {})
    if os.path.exists(os.path.join(ROOT, "lean", "PT", "Audit", pid + ".lean")) and not n.get("unclaimed"):
        checks.append({
            "property_id": pid,
            "quick_cmd": "./check %s --tier quick" % pid,
            "thorough_cmd": "./check %s --tier thorough" % pid,
            "evidence_file": "/verif/evidence/%s.json" % pid,
            "replay_cmd_template": "./check %s --replay {path}" % pid,
            "engine": "lean4-proof+correspondence",
            "level_claimed": {"category": "proof", "text": n.get("text", ""), "design_ref": "DESIGN.md section 6, " + pid},
            "level_note": n.get("note", ""),
            "technique": n.get("technique", "Lean 4 theorems about a hand-written executable model; model tied to /repo by differential correspondence runs"),
        })
    else:
        na.append({"property_id": pid, "reason": n.get("na_reason", "no proof obligation is discharged for this property yet; its correspondence check exists (./check %s) but the property is not claimed until a theorem backs it" % pid)})
m = {
    "version": 1,
    "setup_cmd": "./check --setup",
    "hooks": {
        "guard": "verif-hooks",
        "enable": "cargo feature: the harness crate depends on prefix-trie with features = [\"verif-hooks\", ...] (path dependency on /repo)",
        "baseline_off_cmd": "cd /repo && cargo test --workspace --no-fail-fast --offline",
        "source_commits": json.load(open(os.path.join(ROOT, "tools", "hook_commits.json"))),
        "add_only": True,
    },
    "engines": [{
        "name": "lean4-proof+correspondence",
        "path": "/verif/check",
        "serves_properties": [c["property_id"] for c in checks],
        "kind_free_text": "Lean 4 (core only) model + theorems in /verif/lean; compiled driver ptdriver; Rust harness /verif/harness (path dep on /repo, feature verif-hooks); python classifier /verif/check",
    }],
    "checks": checks,
    "not_applicable": na,
    "notes": "All checks: exit 0 = held; exit 1 + VIOLATION line = violation; exit 2 = internal error of the machinery (no verdict). VERIF_SEED / VERIF_TIER honoured.",
}
json.dump(m, open(os.path.join(ROOT, "MANIFEST.json"), "w"), indent=1)
print("claimed:", [c["property_id"] for c in checks])
