#!/usr/bin/env python3
"""tools/run_seeds.py [id...]: apply each seeded change (seeded/<id>/patch.diff) to /repo, run the quick check of the
property it breaks, record the outcome in seeded/<id>/meta.json (`detection`), and revert /repo.
The seeded changes are never committed to /repo."""
import json, os, subprocess, sys, glob
ROOT = os.path.dirname(os.path.dirname(os.path.abspath(__file__)))
ids = sys.argv[1:] or sorted(os.path.basename(d.rstrip("/")) for d in glob.glob(os.path.join(ROOT, "seeded", "*/")))
for sid in ids:
    d = os.path.join(ROOT, "seeded", sid)
    meta = json.load(open(os.path.join(d, "meta.json")))
    prop = meta["breaks_property"]
    assert subprocess.run(["git", "-C", "/repo", "status", "--porcelain"], capture_output=True, text=True).stdout.strip() == "", "/repo not clean"
    r = subprocess.run(["git", "-C", "/repo", "apply", os.path.join(d, "patch.diff")])
    if r.returncode != 0:
        print(sid, "PATCH DOES NOT APPLY"); continue
    try:
        out = subprocess.run(["./check", prop], cwd=ROOT, capture_output=True, text=True, timeout=3600).stdout
    finally:
        subprocess.run(["git", "-C", "/repo", "checkout", "--", "."])
    lines = [l for l in out.splitlines() if l.startswith("VIOLATION") or "internal error" in l]
    meta["detection"] = {"check": "./check %s (quick)" % prop, "detected": any(l.startswith("VIOLATION") for l in lines),
                         "output": lines[:3]}
    json.dump(meta, open(os.path.join(d, "meta.json"), "w"), indent=1)
    print(sid, prop, "DETECTED" if meta["detection"]["detected"] else "MISSED", lines[:1])
