#!/usr/bin/env python3
"""tools/coverage.py [outdir]: line/region coverage of /repo/src under the quick-tier traces of all 20 properties.

Not part of any check: a development aid that tells which parts of the crate the correspondence runs never execute
(so a change there could only be noticed by the proofs' pins, not by the traces).  Builds the harness with
`-C instrument-coverage` (nightly toolchain, its llvm-profdata / llvm-cov) into a scratch target directory outside
/verif and /repo, replays the same traces `./check` generates for the quick tier, and prints the uncovered lines."""
import glob, json, os, subprocess, sys, tempfile
ROOT = os.path.dirname(os.path.dirname(os.path.abspath(__file__)))
sys.path.insert(0, ROOT)
from vlib import gen  # noqa: E402

OUT = sys.argv[1] if len(sys.argv) > 1 else tempfile.mkdtemp(prefix="ptcov-")
TARGET = os.path.join(OUT, "target")
PROF = os.path.join(OUT, "prof")
os.makedirs(PROF, exist_ok=True)
TOOLS = os.path.expanduser("~/.rustup/toolchains/nightly-x86_64-unknown-linux-gnu/lib/rustlib/x86_64-unknown-linux-gnu/bin")
env = dict(os.environ, CARGO_NET_OFFLINE="true", CARGO_TARGET_DIR=TARGET, RUSTFLAGS="-C instrument-coverage",
           LLVM_PROFILE_FILE=os.path.join(OUT, "build-%p.profraw"))  # build scripts are instrumented too: keep their output out of /repo
subprocess.run(["cargo", "+nightly", "build", "--offline"], cwd=os.path.join(ROOT, "harness"), env=env, check=True)
BIN = os.path.join(TARGET, "debug", "run_ops")

PTYPES = {"u8": (8, False), "u16": (16, False), "u32": (32, False), "u64": (64, False), "u128": (128, False), "usize": (64, False),
          "ipv4net": (32, False), "ipv6net": (128, False), "ipv4network": (32, False), "ipv6network": (128, False),
          "ipv4cidr": (32, True), "ipv6cidr": (128, True), "ipv4inet": (32, False), "ipv6inet": (128, False)}
n = 0
for prop in ["C%02d" % i for i in range(1, 21)]:
    jobs = []
    for fn in sorted(glob.glob(os.path.join(ROOT, "corpus", prop, "*.ops"))):
        lines = [l.rstrip("\n") for l in open(fn)]
        pt = [l.split()[1] for l in lines if l.startswith("#ptype")]
        body = [l for l in lines if l and not l.startswith("#")]
        jobs.append((pt[0] if pt else "u8", "\n".join(body) + "\n"))
    types = list(PTYPES) if prop in ("C17", "C18", "C20") else ["u8", "u32", "ipv4net", "ipv4cidr", "u128", "ipv6net"]
    for idx in range(60):
        pt = types[idx % len(types)]
        w, masked = PTYPES[pt]
        t = gen.make_trace(prop, 1, idx, w, masked, 40, canonical=(idx % 3 == 0), small=(pt == "u8" and idx % 2 == 0))
        jobs.append((pt, gen.header(w, masked) + "\n" + "\n".join(l for l, _ in t.lines) + "\n"))
    if prop in gen.EXH_PROPS:
        for tl in gen.exhaustive_traces(prop, 1, 4)[:2]:
            jobs.append(("u8", gen.header(8, False) + "\n" + "\n".join(l for l, _ in tl) + "\n"))
    if prop == "C17":
        for tl in gen.c17_exhaustive(False, 8)[:2]:
            jobs.append(("u8", gen.header(8, False) + "\n" + "\n".join(l for l, _ in tl) + "\n"))
    for pt, text in jobs:
        n += 1
        e2 = dict(os.environ, LLVM_PROFILE_FILE=os.path.join(PROF, "p%05d.profraw" % n))
        try:
            subprocess.run([BIN, pt], input=text, env=e2, stdout=subprocess.DEVNULL, stderr=subprocess.DEVNULL, text=True, timeout=120)
        except subprocess.TimeoutExpired:
            pass
print("traces run:", n)
merged = os.path.join(OUT, "merged.profdata")
subprocess.run([os.path.join(TOOLS, "llvm-profdata"), "merge", "-sparse", "-o", merged] + glob.glob(os.path.join(PROF, "*.profraw")), check=True)
srcs = sorted(glob.glob("/repo/src/**/*.rs", recursive=True))
srcs = [s for s in srcs if "/fuzzing" not in s and not s.endswith("/test.rs")]
rep = subprocess.run([os.path.join(TOOLS, "llvm-cov"), "report", BIN, "-instr-profile=" + merged] + srcs, capture_output=True, text=True).stdout
print(rep)
show = subprocess.run([os.path.join(TOOLS, "llvm-cov"), "show", BIN, "-instr-profile=" + merged, "-show-line-counts-or-regions"] + srcs,
                      capture_output=True, text=True).stdout
open(os.path.join(OUT, "show.txt"), "w").write(show)
# uncovered executable lines
cur = None
for line in show.split("\n"):
    if line.startswith("/repo/src/") and line.rstrip().endswith(":"):
        cur = line.rstrip()[:-1]
        continue
    parts = line.split("|")
    if len(parts) >= 3 and parts[1].strip() == "0":
        print("%s:%s: %s" % (cur, parts[0].strip(), parts[2][:110]))
print("details:", os.path.join(OUT, "show.txt"))
