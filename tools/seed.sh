#!/bin/bash
# usage: tools/seed.sh <worktree-dir> <seed-id> <property> [more properties to check...]
# Confirms a seeded change (patch.diff + demo.rs in <worktree-dir>-out): existing suite passes with it, demo fails
# with it and passes without; stores it under /verif/seeded/<seed-id>; then applies it to /repo, runs the quick
# check(s), and reverts /repo.
set -u
WT=$1; ID=$2; shift 2; PROPS="$@"
OUT=${WT}-out
export CARGO_NET_OFFLINE=true
cd $WT || exit 2
git checkout -q -- . ; git clean -fdq -e target
git apply $OUT/patch.diff || { echo "PATCH DOES NOT APPLY"; exit 2; }
T1=$(cargo test --offline 2>&1 | grep -E "^test result" | tr '\n' ' ')
echo "suite with patch: $T1"
mkdir -p tests && cp $OUT/demo.rs tests/demo.rs
D1=$(cargo test --offline --test demo 2>&1 | grep -E "^test result" | tr '\n' ' ')
echo "demo with patch: $D1"
git apply -R $OUT/patch.diff
D0=$(cargo test --offline --test demo 2>&1 | grep -E "^test result" | tr '\n' ' ')
echo "demo without patch: $D0"
rm -f tests/demo.rs; rmdir tests 2>/dev/null
mkdir -p /verif/seeded/$ID && cp $OUT/patch.diff $OUT/demo.rs /verif/seeded/$ID/
cp $OUT/meta.json /verif/seeded/$ID/agent_meta.json 2>/dev/null
# run our checks against it
git -C /repo apply $OUT/patch.diff || { echo "PATCH DOES NOT APPLY TO /repo"; exit 2; }
RES=""
for P in $PROPS; do
  R=$(cd /verif && ./check $P 2>&1 | grep -E "VIOLATION|internal error" | head -2 | tr '\n' ' ')
  echo "check $P: ${R:-no alarm}"
  RES="$RES $P: ${R:-no alarm};"
done
git -C /repo checkout -- .
python3 - "$ID" "$T1" "$D1" "$D0" "$RES" "$PROPS" <<'PY'
import json,sys,os
id,t1,d1,d0,res,props=sys.argv[1:7]
p='/verif/seeded/%s/'%id
am={}
try: am=json.load(open(p+'agent_meta.json'))
except Exception: pass
meta={"id":id,"breaks_property":am.get("property",props.split()[0]),"summary":am.get("summary",""),"needs":am.get("needs",""),
 "confirmed":{"existing_suite_with_patch":t1,"demo_with_patch":d1,"demo_without_patch":d0},
 "checks_run":res.strip()}
json.dump(meta,open(p+'meta.json','w'),indent=1)
PY
echo "stored /verif/seeded/$ID"
