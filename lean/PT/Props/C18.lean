import PT.Props.C05
import PT.Props.C06
import PT.Props.C07
import PT.Lemmas.Reach
import PT.Props.C02
import PT.Props.C09
import PT.Props.C10
/-!
# C18 — Keys are identified by network part; stored representation is last inserted

The abstract map of C01 stores, under each key `net p`, the pair (stored representation, value), so
"which representation is stored" is part of the C01 refinement.  Collected here: what follows for
representations, including which stored representation the items of the set operations report.
-/
namespace PT.C18
open Tree Pfx
variable {w : Nat} {V : Type}

/-- two representations of one key are never both stored -/
theorem one_repr_per_key {m : PMap w V} (h : m.TreeWF) {p1 p2 : Pfx w} {x1 x2 : V}
    (h1 : (p1, x1) ∈ m.entries) (h2 : (p2, x2) ∈ m.entries) (hk : p1.net = p2.net) : p1 = p2 ∧ x1 = x2 := by
  have := WF.key_inj h.wf h1 h2 hk
  simp only [Prod.mk.injEq] at this; exact this

/-- representations that differ only in host bits are interchangeable as lookup keys … -/
theorem get_host_bits_irrelevant (m : PMap w V) {q q' : Pfx w} (hq : q.net = q'.net) :
    m.get q = m.get q' ∧ m.getKeyValue q = m.getKeyValue q' ∧ m.containsKey q = m.containsKey q' := by
  unfold PMap.get PMap.getKeyValue PMap.containsKey Tree.get Tree.getKeyValue Tree.containsKey Tree.get
  rw [findNode_congr hq]; exact ⟨rfl, rfl, rfl⟩

/-- … for `cover` and shortest-prefix match … -/
theorem cover_host_bits_irrelevant {m : PMap w V} (h : m.TreeWF) {q q' : Pfx w} (hq : q.net = q'.net) :
    m.cover q = m.cover q' ∧ m.getSpm q = m.getSpm q' := by
  have hc : m.cover q = m.cover q' := by
    rw [C09.cover_eq h, C09.cover_eq h]
    apply List.filter_congr
    intro e _
    rw [Bool.eq_iff_iff, contains_iff, contains_iff, hq]
  exact ⟨hc, by rw [C09.getSpm_eq_cover_head, C09.getSpm_eq_cover_head, hc]⟩

/-- … and as selector of `children` -/
theorem children_host_bits_irrelevant {m : PMap w V} (h : m.TreeWF) {q q' : Pfx w} (hq : q.net = q'.net) :
    m.childrenIter q = m.childrenIter q' := by
  rw [C10.children_eq h, C10.children_eq h]
  apply List.filter_congr
  intro e _
  rw [Bool.eq_iff_iff, contains_iff, contains_iff, hq]

/-- … and as selector of `remove_children` -/
theorem removeChildren_host_bits_irrelevant {m : PMap w V} (h : m.Inv) {q q' : Pfx w} (hq : q.net = q'.net) :
    (m.removeChildren q).entries = (m.removeChildren q').entries := by
  rw [C10.removeChildren_eq_spec h, C10.removeChildren_eq_spec h]
  unfold Spec.removeChildren
  apply List.filter_congr
  intro e _
  simp only [Bool.not_eq_eq_eq_not, Bool.not_not]
  unfold Spec.covers Spec.key
  rw [hq]

/-- … for longest-prefix match and cover … -/
theorem lpm_host_bits_irrelevant {m : PMap w V} (h : m.TreeWF) {q q' : Pfx w} (hq : q.net = q'.net) :
    m.getLpm q = m.getLpm q' := by
  rw [PT.C02.getLpm_eq h, PT.C02.getLpm_eq h]
  unfold covering
  have : (fun e : Pfx w × V => e.1.contains q) = (fun e => e.1.contains q') := by
    funext e; rw [Bool.eq_iff_iff, contains_iff, contains_iff, hq]
  rw [this]

/-- … and as removal keys: the entries after `remove q` depend on `net q` only -/
theorem remove_host_bits_irrelevant {m : PMap w V} (h : m.TreeWF) {q q' : Pfx w} (hq : q.net = q'.net) (e : Pfx w × V) :
    e ∈ (m.remove q).1.entries ↔ e ∈ (m.remove q').1.entries := by
  have h1 : e ∈ (m.remove q).1.entries ↔ e ∈ m.entries ∧ e.1.net ≠ q.net := remove_mem h.wf q false e
  have h2 : e ∈ (m.remove q').1.entries ↔ e ∈ m.entries ∧ e.1.net ≠ q'.net := remove_mem h.wf q' false e
  rw [h1, h2, hq]

/-- the representation returned by a lookup is the stored one, never the query's -/
theorem lookup_returns_stored {m : PMap w V} (h : m.TreeWF) (q p : Pfx w) (x : V)
    (hg : m.getKeyValue q = some (p, x)) : (p, x) ∈ m.entries ∧ p.net = q.net :=
  (getKeyValue_iff h.wf q p x).1 hg

theorem lpm_returns_stored {m : PMap w V} (h : m.TreeWF) (q : Pfx w) (e : Pfx w × V) (hg : m.getLpm q = some e) :
    e ∈ m.entries := (PT.C02.getLpm_mem h q e hg).1

/-- `insert` (= `Entry::insert`, `OccupiedEntry::insert`, vacant insertions) stores the
representation passed to it, replacing whichever was stored under that key … -/
theorem insert_stores_passed_repr {m : PMap w V} (h : m.TreeWF) (q : Pfx w) (x : V) :
    (q, x) ∈ (m.insert q x).1.entries ∧
    ∀ p y, (p, y) ∈ (m.insert q x).1.entries → p.net = q.net → p = q ∧ y = x := by
  have hm := fun e => insert_mem h.wf q x (PMap.nextSlot m.free m.alloc) (PMap.secondSlot m.free m.alloc)
    (h.rootCovers q) h.root_ne_nil e
  refine ⟨(hm (q, x)).2 (.inl rfl), fun p y hp hk => ?_⟩
  rcases (hm (p, y)).1 hp with h1 | h1
  · simpa using h1
  · exact absurd hk h1.2

/-- … and leaves the representation of every other entry alone -/
theorem insert_keeps_other_reprs {m : PMap w V} (h : m.TreeWF) (q : Pfx w) (x : V) (e : Pfx w × V)
    (hne : e.1.net ≠ q.net) : e ∈ (m.insert q x).1.entries ↔ e ∈ m.entries := by
  have hm : e ∈ (m.insert q x).1.entries ↔ e = (q, x) ∨ (e ∈ m.entries ∧ e.1.net ≠ q.net) :=
    insert_mem h.wf q x (PMap.nextSlot m.free m.alloc) (PMap.secondSlot m.free m.alloc)
      (h.rootCovers q) h.root_ne_nil e
  rw [hm]
  constructor
  · rintro (h1 | h1)
    · exact absurd (by rw [h1]) hne
    · exact h1.1
  · intro h1; exact .inr ⟨h1, hne⟩

/-- `or_insert*` on an occupied entry changes nothing (the stored representation stays) -/
theorem orInsert_occupied_keeps (m : PMap w V) (q : Pfx w) (x v : V) (hv : m.get q = some v) :
    (m.orInsert q x).1 = m := by
  unfold PMap.orInsert; unfold PMap.get at hv; simp [hv]

/-- value-only accesses (`get_mut`, `and_modify`, `OccupiedEntry::get_mut`) never change a
representation: the list of stored prefixes is the same -/
theorem modify_keeps_reprs {m : PMap w V} (h : m.TreeWF) (q : Pfx w) (f : V → V) (p : Pfx w) :
    (∃ y, (p, y) ∈ (m.modify q f).entries) ↔ (∃ y, (p, y) ∈ m.entries) := by
  constructor
  · rintro ⟨y, hy⟩
    rcases (modifyValue_mem h.wf q f (p, y)).1 hy with h1 | ⟨x, h1, _, _⟩
    · exact ⟨y, h1.1⟩
    · exact ⟨x, h1⟩
  · rintro ⟨y, hy⟩
    by_cases hk : p.net = q.net
    · exact ⟨f y, (modifyValue_mem h.wf q f (p, f y)).2 (.inr ⟨y, hy, hk, rfl⟩)⟩
    · exact ⟨y, (modifyValue_mem h.wf q f (p, y)).2 (.inl ⟨hy, hk⟩)⟩

/-- `TrieViewMut::set` on a node keeps that node's existing prefix (the documented exception) -/
theorem view_set_keeps_node_prefix (t : Tree w V) (x : V) : (t.withValue (some x)).pfx? = t.pfx? := by
  cases t <;> rfl


/-- the only entries carrying a prefix the user did not pass: `set(x)` through a mutable view on a
node stores `(that node's existing prefix, x)` — for a value-less branching node the masked longest
common prefix computed at its creation — and leaves every other entry's representation alone -/
theorem view_set_repr {m : PMap w V} (h : m.TreeWF) {v : View w} (hg : View.Good m.root v) (x : V)
    {np : Pfx w} (hv : v.virt = none) (hp : (v.node m.root).pfx? = some np) (e : Pfx w × V) :
    e ∈ (m.viewSet v x).1.entries ↔ (e ∈ m.entries ∧ e.1.net ≠ np.net) ∨ e = (np, x) := by
  have := PMap.viewSet_mem h hg x e
  rw [hv, hp] at this
  exact this


/-! ### set-operation items report stored representations (never the query's, never a masked one) -/

open SetOps in
/-- union: a one-sided item reports the representation stored on its side, a `Both` item the one stored
in the left operand -/
theorem union_reports_stored {L R : Type} (a : Tree w L) (b : Tree w R) (hwa : HasWF a) (hwb : HasWF b) :
    ∀ u ∈ (union a b).filterMap UItem.view,
      (match u with
       | .left p l _ => (l.1, p, l.2) ∈ a.slotEntries
       | .right p _ r => (r.1, p, r.2) ∈ b.slotEntries
       | .both p l r => (l.1, p, l.2) ∈ a.slotEntries ∧ ∃ pr, (r.1, pr, r.2) ∈ b.slotEntries ∧ pr.net = p.net) :=
  PT.C05.union_item_repr a b hwa hwb

open SetOps in
/-- intersection: the representation stored in the left operand -/
theorem intersection_reports_stored {L R : Type} (a : Tree w L) (b : Tree w R) (hwa : HasWF a) (hwb : HasWF b)
    (it : IItem w L R) (h : it ∈ intersection a b) : (it.l.1, it.p, it.l.2) ∈ a.slotEntries :=
  (PT.C06.intersection_sound a b hwa hwb it h).1

open SetOps in
/-- difference and covering difference: the representation stored in the left operand -/
theorem difference_reports_stored {L R : Type} (a : Tree w L) (b : Tree w R) (hwa : HasWF a) (hwb : HasWF b) :
    ((difference a b).map (fun it => (it.v.1, it.p, it.v.2))).Sublist a.slotEntries ∧
    ((coveringDifference a b).map (fun it => (it.v.1, it.p, it.v.2))).Sublist a.slotEntries :=
  ⟨PT.C07.difference_order a b hwa hwb, PT.C07.coveringDifference_order a b hwa hwb⟩

end PT.C18
