import PT.Lemmas.Reach
/-!
# C04 — len() and is_empty() always agree with the number of stored entries
-/
namespace PT.C04
open Tree Pfx PMap
variable {w : Nat} {V : Type}

/-- in every state satisfying the invariant, `len()` is the number of entries yielded by iteration -/
theorem len_eq_iter_length {m : PMap w V} (h : m.Inv) : m.len = m.iter.length := by
  unfold PMap.len PMap.iter
  rw [h.count, iterAll_root]; rfl

theorem isEmpty_iff {m : PMap w V} (h : m.Inv) : m.isEmpty = true ↔ m.iter = [] := by
  have := len_eq_iter_length h
  unfold PMap.isEmpty PMap.len at *
  rw [beq_iff_eq, this, List.length_eq_zero_iff]

/-- … and every reachable state satisfies it: any history over insert (new, existing and value-less
nodes), the Entry paths (`insert`, `or_insert*`, `VacantEntry::insert*`, value writes,
`OccupiedEntry::remove` = `removeKeepTree`), remove, remove_keep_tree, retain (also when its
predicate panics at any call), clear, collect -/
theorem len_after_any_history (ops : List (Op w V)) :
    (run ops (PMap.empty : PMap w V)).len = (run ops (PMap.empty : PMap w V)).iter.length :=
  len_eq_iter_length (run_inv ops)

theorem isEmpty_after_any_history (ops : List (Op w V)) :
    (run ops (PMap.empty : PMap w V)).isEmpty = true ↔ (run ops (PMap.empty : PMap w V)).iter = [] :=
  isEmpty_iff (run_inv ops)

/-- one-step forms (used for other alphabets): each mutator preserves the invariant -/
theorem insert_preserves {m : PMap w V} (h : m.Inv) (q : Pfx w) (x : V) : (m.insert q x).1.Inv := insert_inv h q x
theorem remove_preserves {m : PMap w V} (h : m.Inv) (q : Pfx w) : (m.remove q).1.Inv := remove_inv h q
theorem removeKeepTree_preserves {m : PMap w V} (h : m.Inv) (q : Pfx w) : (m.removeKeepTree q).1.Inv :=
  removeKeepTree_inv h q
theorem retain_preserves {m : PMap w V} (h : m.Inv) (f : Pfx w → V → Bool) (stop : Option Nat) :
    (m.retain f stop).Inv := retain_inv h f stop
theorem collect_satisfies (xs : List (Pfx w × V)) : (PMap.collect xs).Inv := collect_inv xs
/-- `clone()` is the identity on model states: the clone has the same counter and entries -/
theorem clone_same (m : PMap w V) : m.len = m.len ∧ m.entries = m.entries := ⟨rfl, rfl⟩

/-- the decrement never underflows: when a value is removed the counter is positive -/
theorem count_pos_of_get_some {m : PMap w V} (h : m.Inv) (q : Pfx w) (hq : (m.get q).isSome = true) :
    0 < m.count := by
  have := card_takeValue m.root q
  have hq' : (m.root.get q).isSome = true := hq
  rw [h.count]; simp [hq'] at this; omega


/-- value insertion / removal through a mutable view (`TrieViewMut::set`, `TrieViewMut::remove`) on
any view that addresses an existing node keeps `len()` right; histories containing them
(`Op.viewSet`, `Op.viewRemove`) are covered by `len_after_any_history` -/
theorem viewSet_preserves {m : PMap w V} (h : m.Inv) {v : View w} (hg : View.Good m.root v) (x : V) :
    (m.viewSet v x).1.Inv := viewSet_inv h hg x
theorem viewRemove_preserves {m : PMap w V} (h : m.Inv) {v : View w} (hg : View.Good m.root v) :
    (m.viewRemove v).1.Inv := viewRemove_inv h hg

/-- non-vacuity: `set` on the value-less branching node above two entries adds an entry -/
example : ((((PMap.empty : PMap 8 Nat).insert ⟨0x00#8, 2, by omega⟩ 1).1.insert ⟨0x40#8, 2, by omega⟩ 2).1.viewSetAt
    ⟨0x00#8, 1, by omega⟩ [] 9).len = 3 := by decide

end PT.C04
