import PT.Lemmas.Canon
import PT.Lemmas.Reach
import PT.SetOps
/-!
# C15 — Trie stays well-formed; insert/remove shape depends only on the key set

Proved here: (i) well-formedness in every reachable state and the depth bound; (ii) for histories
over the canonical sub-alphabet every value-less non-root node has two children and the shape is a
function of the key set (= the shape of a fresh build in any insertion order; `remove` reverts
`insert`); (iii) shape invariance of `remove_keep_tree` and of value-only operations.
(`retain` is a fold of `remove` in the model; that the real `_retain` recursion is that fold is
compared by correspondence — `shape`, `shape_fresh` lines — not proved.)
-/
namespace PT.C15
open Tree Pfx PMap
variable {w : Nat} {V : Type}

/-- in every reachable state the root is the zero-length prefix (slot 0) and every child's prefix
is strictly longer than, covered by, and on the side selected by the next bit of its parent's -/
theorem wellformed_after_any_history (ops : List (Op w V)) : (run ops (PMap.empty : PMap w V)).TreeWF :=
  (run_inv ops).tree

/-- unfolding of `Tree.WF` at a node, in the property's words -/
theorem wf_child {k : List Bool} {s : Nat} {p : Pfx w} {v : Option V} {l r : Tree w V}
    (h : Tree.WF k (.node s p v l r)) (b : Bool) (cs : Nat) (cp : Pfx w) (cv : Option V) (cl cr : Tree w V)
    (hc : child l r b = .node cs cp cv cl cr) :
    p.len < cp.len ∧ p.contains cp = true ∧ toRight p cp = b := by
  have hw : Tree.WF (p.net ++ [b]) (.node cs cp cv cl cr) := hc ▸ WF.of_child h b
  have hpre : p.net ++ [b] <+: cp.net := hw.1
  refine ⟨?_, (contains_iff p cp).2 ((List.prefix_append _ _).trans hpre), toRight_of_prefix hpre⟩
  have := hpre.length_le
  simp [net_length] at this; omega

/-- number of nodes on the longest root-to-leaf path -/
def depth : Tree w V → Nat
  | .nil => 0
  | .node _ _ _ l r => 1 + max (depth l) (depth r)

theorem depth_le {k : List Bool} {t : Tree w V} (h : Tree.WF k t) : depth t ≤ w + 1 - k.length := by
  induction t generalizing k with
  | nil => simp [depth]
  | node s p v l r ihl ihr =>
    have hk := h.1.length_le
    have hp := p.hlen
    have h1 := ihl h.2.1
    have h2 := ihr h.2.2
    simp [net_length] at hk h1 h2
    simp only [depth]; omega

/-- so every path is at most width+1 nodes long -/
theorem depth_bound {m : PMap w V} (h : m.TreeWF) : depth m.root ≤ w + 1 := by
  have := depth_le h.wf; simpa using this

/-- the shape with the values forgotten -/
def skel : Tree w V → Tree w Unit
  | .nil => .nil
  | .node s p _ l r => .node s p none (skel l) (skel r)

/-- `remove_keep_tree` (and `OccupiedEntry::remove`) never changes the shape -/
theorem removeKeepTree_shape (m : PMap w V) (q : Pfx w) : skel (m.removeKeepTree q).1.root = skel m.root := by
  show skel (m.root.takeValue q) = skel m.root
  induction m.root with
  | nil => rfl
  | node s p v l r ihl ihr =>
    unfold takeValue
    split <;> simp [skel, ihl, ihr]

/-- value-only operations (`get_mut`, `and_modify`, `OccupiedEntry::get_mut`) never change the shape
nor any stored prefix -/
theorem modify_shape (m : PMap w V) (q : Pfx w) (f : V → V) : skel (m.modify q f).root = skel m.root := by
  show skel (m.root.modifyValue q f) = skel m.root
  induction m.root with
  | nil => rfl
  | node s p v l r ihl ihr =>
    unfold modifyValue
    split <;> simp [skel, ihl, ihr]

/-- writes through the `&mut` of a mutable traversal (by slot) never change the shape -/
theorem modifySlot_shape (t : Tree w V) (s : Nat) (f : V → V) : skel (t.modifySlot s f) = skel t := by
  induction t with
  | nil => rfl
  | node s' p v l r ihl ihr =>
    unfold modifySlot
    split <;> simp [skel, ihl, ihr]


/-! ### canonical shape (clauses ii and iii) -/

/-- every value-less non-root node has two children, after any history over the canonical
sub-alphabet (`Op.Canonical`: `insert`, the Entry API, `collect`, value writes, `remove`, `retain`
— also one cut short by a panicking predicate — and `clear`; not `remove_keep_tree`,
`remove_children`) -/
theorem canonical_after_history (ops : List (Op w V)) (hops : ∀ op ∈ ops, op.Canonical) :
    Tree.Canon true (run ops (PMap.empty : PMap w V)).root := run_canonical ops hops

/-- unfolding of `Canon` at a non-root node, in the property's words -/
theorem canon_node {s : Nat} {p : Pfx w} {v : Option V} {l r : Tree w V}
    (h : Tree.Canon false (.node s p v l r)) :
    (v = none → l ≠ .nil ∧ r ≠ .nil) ∧ Tree.Canon false l ∧ Tree.Canon false r := by
  refine ⟨fun hv => ?_, h.2.1, h.2.2⟩
  rcases h.1 with h1 | h1 | h1
  · cases h1
  · rw [hv] at h1; cases h1
  · constructor
    · intro e; rw [e] at h1; simp [Tree.isNil] at h1
    · intro e; rw [e] at h1; simp [Tree.isNil] at h1

/-- **the shape depends only on the key set**: two histories over the canonical sub-alphabet (over
any value types, in any order, with any intermediate states) that end with the same keys end with
the same observable shape (`Tree.shape`: key in network form and value presence of every node, and
the left/right structure) -/
theorem shape_depends_only_on_keys {V' : Type} (ops1 : List (Op w V)) (ops2 : List (Op w V'))
    (h1 : ∀ op ∈ ops1, op.Canonical) (h2 : ∀ op ∈ ops2, op.Canonical)
    (hk : (run ops1 PMap.empty).entries.map (·.1.net) = (run ops2 PMap.empty).entries.map (·.1.net)) :
    Tree.shape (run ops1 (PMap.empty : PMap w V)).root = Tree.shape (run ops2 (PMap.empty : PMap w V')).root :=
  shape_eq_of_keys (run_inv ops1).tree (run_inv ops2).tree (run_canonical ops1 h1) (run_canonical ops2 h2) hk

/-- … in particular it is the shape of a map freshly built (`collect` = repeated `insert`) from the
surviving entries, inserted in *any* order (`xs`: any list with exactly the surviving entries as
members, repetitions allowed) -/
theorem shape_eq_fresh_build (ops : List (Op w V)) (hops : ∀ op ∈ ops, op.Canonical)
    (xs : List (Pfx w × V)) (hx : ∀ e, e ∈ xs ↔ e ∈ (run ops (PMap.empty : PMap w V)).entries) :
    Tree.shape (run ops (PMap.empty : PMap w V)).root = Tree.shape (PMap.collect xs).root := by
  refine shape_eq_of_keys (run_inv ops).tree (collect_inv xs).tree (run_canonical ops hops)
    (collect_canonical xs) ?_
  rw [collect_entries_of_mem (run_inv ops).tree xs hx]

/-- `remove` exactly reverts `insert`: inserting an absent key and removing it again restores the shape -/
theorem remove_reverts_insert {m : PMap w V} (h : m.TreeWF) (c : m.Canonical) (q : Pfx w) (x : V)
    (habs : ∀ e ∈ m.entries, e.1.net ≠ q.net) :
    Tree.shape ((m.insert q x).1.remove q).1.root = Tree.shape m.root ∧
    ((m.insert q x).1.remove q).1.entries = m.entries := by
  have hi := insert_treeWF h q x
  have hr := remove_treeWF hi q
  have he : ((m.insert q x).1.remove q).1.entries = m.entries := by
    apply Spec.eq_of_sorted (entries_sorted' hr) (entries_sorted' h)
    · intro e
      have h1 : e ∈ ((m.insert q x).1.remove q).1.entries ↔ e ∈ (m.insert q x).1.entries ∧ e.1.net ≠ q.net :=
        remove_mem hi.wf q false e
      have h2 : e ∈ (m.insert q x).1.entries ↔ e = (q, x) ∨ (e ∈ m.entries ∧ e.1.net ≠ q.net) :=
        insert_mem h.wf q x _ _ (h.rootCovers q) h.root_ne_nil e
      rw [h1, h2]
      constructor
      · rintro ⟨h3 | h3, h4⟩
        · subst h3; exact absurd rfl h4
        · exact h3.1
      · intro h3; exact ⟨.inr ⟨h3, habs e h3⟩, habs e h3⟩
  exact ⟨shape_eq_of_keys hr h (remove_canonical (insert_canonical c q x) q) c (by rw [he]), he⟩

/-- non-vacuity: a canonical history that builds a branching node and dissolves it again -/
example : ∀ op ∈ ([.insert ⟨0x00#8, 2, by omega⟩ 1, .insert ⟨0x40#8, 2, by omega⟩ 2, .remove ⟨0x40#8, 2, by omega⟩,
    .retain (fun _ v => v != 1) (some 1)] : List (Op 8 Nat)), op.Canonical := by
  intro op h
  simp only [List.mem_cons, List.mem_nil_iff, or_false] at h
  rcases h with h | h | h | h <;> subst h <;> trivial


/-- `TrieViewMut::set` / `TrieViewMut::remove` (value insertion / removal through a mutable view)
never change the shape: no node is created, unlinked or re-labelled -/
theorem setAt_shape (t : Tree w V) (path : List Bool) (nv : Option V) : skel (t.setAt path nv) = skel t := by
  induction path generalizing t with
  | nil => rw [setAt_nil]; cases t <;> rfl
  | cons c cs ih =>
    cases t with
    | nil => rw [setAt_nil_tree]
    | node s p v l r =>
      rw [setAt_cons]; unfold setChild
      cases c <;> simp [skel, ih, child]

theorem viewSet_shape (m : PMap w V) (v : View w) (x : V) : skel (m.viewSet v x).1.root = skel m.root := by
  rw [viewSet_root]; cases v.virt
  · exact setAt_shape _ _ _
  · rfl

theorem viewRemove_shape (m : PMap w V) (v : View w) : skel (m.viewRemove v).1.root = skel m.root := by
  rw [viewRemove_root]; cases v.virt
  · exact setAt_shape _ _ _
  · rfl

end PT.C15
