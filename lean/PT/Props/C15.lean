import PT.Lemmas.Reach
import PT.SetOps
/-!
# C15 — Trie stays well-formed; insert/remove shape depends only on the key set

Proved here: (i) well-formedness in every reachable state and the depth bound; (iv) shape invariance
of `remove_keep_tree` and of value-only operations.  The canonical-shape clauses (a trie modified
only by insert / remove / retain / clear has the shape of a fresh build; value-less non-root nodes
have two children) are checked by correspondence (`shape`, `shape_fresh`) and by the shape oracle,
not yet by a theorem.
-/
namespace PT.C15
open Tree Pfx PMap
variable {w : Nat} {V : Type}

/-- in every reachable state the root is the zero-length prefix (slot 0) and every child's prefix
is strictly longer than, covered by, and on the side selected by the next bit of its parent's -/
theorem wellformed_after_any_history (ops : List (Op w V)) : (run ops (PMap.empty : PMap w V)).TreeWF :=
  (run_inv ops).tree

/-- unfolding of `Tree.WF` at a node, in the property's words -/
theorem wf_child {k : List Bool} {s : Nat} {p : Pfx w} {v : Option V} {l r : Tree w V}
    (h : Tree.WF k (.node s p v l r)) (b : Bool) (cs : Nat) (cp : Pfx w) (cv : Option V) (cl cr : Tree w V)
    (hc : child l r b = .node cs cp cv cl cr) :
    p.len < cp.len ∧ p.contains cp = true ∧ toRight p cp = b := by
  have hw : Tree.WF (p.net ++ [b]) (.node cs cp cv cl cr) := hc ▸ WF.of_child h b
  have hpre : p.net ++ [b] <+: cp.net := hw.1
  refine ⟨?_, (contains_iff p cp).2 ((List.prefix_append _ _).trans hpre), toRight_of_prefix hpre⟩
  have := hpre.length_le
  simp [net_length] at this; omega

/-- number of nodes on the longest root-to-leaf path -/
def depth : Tree w V → Nat
  | .nil => 0
  | .node _ _ _ l r => 1 + max (depth l) (depth r)

theorem depth_le {k : List Bool} {t : Tree w V} (h : Tree.WF k t) : depth t ≤ w + 1 - k.length := by
  induction t generalizing k with
  | nil => simp [depth]
  | node s p v l r ihl ihr =>
    have hk := h.1.length_le
    have hp := p.hlen
    have h1 := ihl h.2.1
    have h2 := ihr h.2.2
    simp [net_length] at hk h1 h2
    simp only [depth]; omega

/-- so every path is at most width+1 nodes long -/
theorem depth_bound {m : PMap w V} (h : m.TreeWF) : depth m.root ≤ w + 1 := by
  have := depth_le h.wf; simpa using this

/-- the shape with the values forgotten -/
def skel : Tree w V → Tree w Unit
  | .nil => .nil
  | .node s p _ l r => .node s p none (skel l) (skel r)

/-- `remove_keep_tree` (and `OccupiedEntry::remove`) never changes the shape -/
theorem removeKeepTree_shape (m : PMap w V) (q : Pfx w) : skel (m.removeKeepTree q).1.root = skel m.root := by
  show skel (m.root.takeValue q) = skel m.root
  induction m.root with
  | nil => rfl
  | node s p v l r ihl ihr =>
    unfold takeValue
    split <;> simp [skel, ihl, ihr]

/-- value-only operations (`get_mut`, `and_modify`, `OccupiedEntry::get_mut`) never change the shape
nor any stored prefix -/
theorem modify_shape (m : PMap w V) (q : Pfx w) (f : V → V) : skel (m.modify q f).root = skel m.root := by
  show skel (m.root.modifyValue q f) = skel m.root
  induction m.root with
  | nil => rfl
  | node s p v l r ihl ihr =>
    unfold modifyValue
    split <;> simp [skel, ihl, ihr]

/-- writes through the `&mut` of a mutable traversal (by slot) never change the shape -/
theorem modifySlot_shape (t : Tree w V) (s : Nat) (f : V → V) : skel (t.modifySlot s f) = skel t := by
  induction t with
  | nil => rfl
  | node s' p v l r ihl ihr =>
    unfold modifySlot
    split <;> simp [skel, ihl, ihr]

end PT.C15
