import PT.Lemmas.Reach
/-!
# C20 — No panic, overflow or divergence on valid input; user panics keep the map valid

What is a theorem here.  *Termination*: every model function is accepted by Lean's termination
checker (structural recursion, or the stack measure of `iterNext`), so every operation and every
iterator drain takes finitely many steps on every finite tree.  *No counter underflow*: whenever an
operation decrements `count`, the invariant makes it positive.  *Valid prefixes never overflow a
shift* (C17: `maskFromLenRaw`).  *User panics*: a `retain` whose predicate panics at its k-th call
leaves a state satisfying the full invariant, holding exactly the old entries minus those already
rejected; a panicking `or_insert_with` / `insert_with` closure leaves the map untouched (the
closure runs before the map is modified — model: no state change).
The absence of Rust panics (`unwrap`, index, `unreachable!`) as such is established by
correspondence: every harness call runs under `catch_unwind`, in debug and release builds.
-/
namespace PT.C20
open Tree Pfx PMap
variable {w : Nat} {V : Type}

/-- every `next()` call strictly shrinks the stack measure: iterators yield finitely many items -/
theorem iter_terminates (st : List (Tree w V)) (it : Nat × Pfx w × V) (st' : List (Tree w V))
    (h : iterNext st = some (it, st')) : stackSize st' < stackSize st := iterNext_decreases st it st' h

/-- the number of items of a drain is bounded by the number of nodes under the start node -/
theorem iter_length_le (t : Tree w V) : (iterAll [t]).length ≤ t.size := by
  rw [iterAll_root]
  induction t with
  | nil => simp [Tree.entries, Tree.size]
  | node s p v l r ihl ihr =>
    rw [entries_node]; cases v <;> simp [own, Tree.size] <;> omega

/-- the counter decrement of `remove`, `remove_keep_tree`, `OccupiedEntry::remove` never underflows -/
theorem no_underflow {m : PMap w V} (h : m.Inv) (q : Pfx w) (hq : (m.get q).isSome = true) : 0 < m.count := by
  have := card_takeValue m.root q
  have hq' : (m.root.get q).isSome = true := hq
  rw [h.count]; simp [hq'] at this; omega

/-- a `retain` interrupted by a panic of its predicate at call `k` leaves a well-formed,
size-consistent map with a consistent slot partition … -/
theorem retain_panic_inv {m : PMap w V} (h : m.Inv) (f : Pfx w → V → Bool) (k : Nat) :
    (m.retain f (some k)).Inv := retain_inv h f (some k)

/-- … that contains exactly the entries it held before minus those the predicate had already
rejected (the first `k-1` calls, made on the entries in post-order) -/
theorem retain_panic_entries {m : PMap w V} (h : m.Inv) (f : Pfx w → V → Bool) (k : Nat) (e : Pfx w × V) :
    e ∈ (m.retain f (some k)).entries ↔
      e ∈ m.entries ∧ ∀ c ∈ m.root.postorder.take (k - 1), f c.1 c.2 = false → e.1.net ≠ c.1.net :=
  retain_mem_aux f _ m h.tree e

/-- the predicate is evaluated exactly once per stored entry: the call sequence is a permutation of
the entry list -/
theorem retain_calls_perm (m : PMap w V) : (m.retainCalls none).Perm m.entries := postorder_perm m.root

/-- every state reachable by any history (including interrupted `retain`s) satisfies the invariant -/
theorem invariant_always (ops : List (Op w V)) : (run ops (PMap.empty : PMap w V)).Inv := run_inv ops


/-- no out-of-bounds index: in every reachable state every node index stored in a child link (the
slots of the tree) and every index waiting in the free list is below the arena length, so
`self.table[idx]` and the slot returned by `free.pop()` in `new_node` are always in range -/
theorem indices_in_bounds (ops : List (Op w V)) :
    (∀ s ∈ (run ops (PMap.empty : PMap w V)).root.slots, s < (run ops (PMap.empty : PMap w V)).alloc) ∧
    (∀ s ∈ (run ops (PMap.empty : PMap w V)).free, s < (run ops (PMap.empty : PMap w V)).alloc) := by
  have h := run_inv (w := w) (V := V) ops
  constructor
  · intro s hs
    refine Nat.lt_of_not_le (fun hge => ?_)
    have h0 := h.slots_ge s hge
    have : 0 < ((run ops (PMap.empty : PMap w V)).root.slots ++ (run ops (PMap.empty : PMap w V)).free).count s :=
      List.count_pos_iff.2 (List.mem_append_left _ hs)
    omega
  · intro s hs
    refine Nat.lt_of_not_le (fun hge => ?_)
    have h0 := h.slots_ge s hge
    have : 0 < ((run ops (PMap.empty : PMap w V)).root.slots ++ (run ops (PMap.empty : PMap w V)).free).count s :=
      List.count_pos_iff.2 (List.mem_append_right _ hs)
    omega

end PT.C20
