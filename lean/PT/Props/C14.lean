import PT.Lemmas.Writes
import PT.Lemmas.Views
import PT.Props.C16
/-!
# C14 — Mutable access is exclusive: live mutable references never alias an entry

Three parts (DESIGN.md §6/C14).  (a) *Distinctness*, theorem: the references handed out by one
mutable traversal, and by traversals of the two sides of a split view, point to pairwise distinct
slots.  (c) *Concurrent = sequential*, theorem: writes through references to distinct slots commute,
so every interleaving of two write sequences on disjoint sub-views yields the state of their
concatenation.  (b) *Compile-time rejection* of aliasing programs and of non-thread-safe values
crossing threads is a statement about rustc, not about the model: it is decided by the capability
corpus (generated client programs compiled against /repo: ill-moded ones must be rejected,
well-moded ones accepted; the Send/Sync matrix), see `vlib/cap.py`.
-/
namespace PT.C14
open Tree Pfx View
variable {w : Nat} {V : Type}

/-- all `&mut` handed out by one mutable iterator point to pairwise distinct nodes -/
theorem iter_mut_distinct {m : PMap w V} (h : m.Inv) : ((iterAllS [m.root]).map (·.1)).Nodup := by
  rw [iterAllS_root]
  have := PT.C16.slots_nodup h
  exact ((List.nodup_append.1 this).1).sublist (slotEntries_slots_sublist m.root)

/-- the same for an iterator over any sub-view (any node of the tree) -/
theorem view_iter_mut_distinct {t : Tree w V} (hnd : t.slots.Nodup) (path : List Bool) :
    ((iterAllS [t.sub path]).map (·.1)).Nodup := by
  rw [iterAllS_root]
  suffices (t.sub path).slots.Nodup from this.sublist (slotEntries_slots_sublist _)
  induction path generalizing t with
  | nil => rwa [Tree.sub_nil]
  | cons b bs ih =>
    cases t with
    | nil => simp [Tree.sub_nil_tree, Tree.slots]
    | node s p v l r =>
      rw [Tree.sub_cons_node]
      simp only [Tree.slots, List.nodup_cons, List.nodup_append] at hnd
      cases b
      · exact ih hnd.2.1
      · exact ih hnd.2.2.1

/-- the two sides of a node (`split()`, `left()`, `right()`) own disjoint sets of slots: no reference
obtained through one side can alias one obtained through the other (nor the node's own value) -/
theorem split_disjoint {s : Nat} {p : Pfx w} {v : Option V} {l r : Tree w V}
    (hnd : (Tree.node s p v l r).slots.Nodup) :
    (∀ a ∈ l.slots, a ∉ r.slots) ∧ s ∉ l.slots ∧ s ∉ r.slots := by
  simp only [Tree.slots, List.nodup_cons, List.mem_append, not_or, List.nodup_append] at hnd
  exact ⟨fun a ha hb => hnd.2.2.2 a ha a hb rfl, hnd.1.1, hnd.1.2⟩

/-- writes through references to distinct entries commute -/
theorem writes_commute (t : Tree w V) (k1 k2 : Nat) (f g : V → V) (h : k1 ≠ k2) :
    (t.modifySlot k1 f).modifySlot k2 g = (t.modifySlot k2 g).modifySlot k1 f := modifySlot_comm t k1 k2 f g h

/-- mutating disjoint sub-views concurrently (any interleaving `ws` of the two threads' write
sequences `w1`, `w2`) produces the same final map as doing so sequentially -/
theorem concurrent_eq_sequential (t : Tree w V) (w1 w2 ws : List (Nat × (V → V)))
    (hi : Interleave w1 w2 ws) (hdis : ∀ x ∈ w1, ∀ y ∈ w2, x.1 ≠ y.1) :
    applyWrites t ws = applyWrites (applyWrites t w1) w2 := by
  rw [interleave_eq_append t w1 w2 ws hi hdis, applyWrites_append]

/-- non-vacuity: an interleaving exists for any two sequences -/
example (a b : Nat × (Nat → Nat)) : Interleave [a] [b] [b, a] := .right (.left .nil)

end PT.C14
