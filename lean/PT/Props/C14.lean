import PT.Lemmas.ViewComm
import PT.Lemmas.MutRefs
import PT.Props.C06
import PT.Props.C07
import PT.Lemmas.Writes
import PT.Lemmas.Views
import PT.Props.C16
/-!
# C14 — Mutable access is exclusive: live mutable references never alias an entry

Three parts (DESIGN.md §6/C14).  (a) *Distinctness*, theorem: the references handed out by one
mutable traversal, and by traversals of the two sides of a split view, point to pairwise distinct
slots.  (c) *Concurrent = sequential*, theorem: writes through references to distinct slots commute,
so every interleaving of two write sequences on disjoint sub-views yields the state of their
concatenation.  (b) *Compile-time rejection* of aliasing programs and of non-thread-safe values
crossing threads is a statement about rustc, not about the model: it is decided by the capability
corpus (generated client programs compiled against /repo: ill-moded ones must be rejected,
well-moded ones accepted; the Send/Sync matrix), see `vlib/cap.py`.
-/
namespace PT.C14
open Tree Pfx View
variable {w : Nat} {V : Type}

/-- all `&mut` handed out by one mutable iterator point to pairwise distinct nodes -/
theorem iter_mut_distinct {m : PMap w V} (h : m.Inv) : ((iterAllS [m.root]).map (·.1)).Nodup := by
  rw [iterAllS_root]
  have := PT.C16.slots_nodup h
  exact ((List.nodup_append.1 this).1).sublist (slotEntries_slots_sublist m.root)

/-- the same for an iterator over any sub-view (any node of the tree) -/
theorem view_iter_mut_distinct {t : Tree w V} (hnd : t.slots.Nodup) (path : List Bool) :
    ((iterAllS [t.sub path]).map (·.1)).Nodup := by
  rw [iterAllS_root]
  suffices (t.sub path).slots.Nodup from this.sublist (slotEntries_slots_sublist _)
  induction path generalizing t with
  | nil => rwa [Tree.sub_nil]
  | cons b bs ih =>
    cases t with
    | nil => simp [Tree.sub_nil_tree, Tree.slots]
    | node s p v l r =>
      rw [Tree.sub_cons_node]
      simp only [Tree.slots, List.nodup_cons, List.nodup_append] at hnd
      cases b
      · exact ih hnd.2.1
      · exact ih hnd.2.2.1

/-- the two sides of a node (`split()`, `left()`, `right()`) own disjoint sets of slots: no reference
obtained through one side can alias one obtained through the other (nor the node's own value) -/
theorem split_disjoint {s : Nat} {p : Pfx w} {v : Option V} {l r : Tree w V}
    (hnd : (Tree.node s p v l r).slots.Nodup) :
    (∀ a ∈ l.slots, a ∉ r.slots) ∧ s ∉ l.slots ∧ s ∉ r.slots := by
  simp only [Tree.slots, List.nodup_cons, List.mem_append, not_or, List.nodup_append] at hnd
  exact ⟨fun a ha hb => hnd.2.2.2 a ha a hb rfl, hnd.1.1, hnd.1.2⟩

/-- writes through references to distinct entries commute -/
theorem writes_commute (t : Tree w V) (k1 k2 : Nat) (f g : V → V) (h : k1 ≠ k2) :
    (t.modifySlot k1 f).modifySlot k2 g = (t.modifySlot k2 g).modifySlot k1 f := modifySlot_comm t k1 k2 f g h

/-- mutating disjoint sub-views concurrently (any interleaving `ws` of the two threads' write
sequences `w1`, `w2`) produces the same final map as doing so sequentially -/
theorem concurrent_eq_sequential (t : Tree w V) (w1 w2 ws : List (Nat × (V → V)))
    (hi : Interleave w1 w2 ws) (hdis : ∀ x ∈ w1, ∀ y ∈ w2, x.1 ≠ y.1) :
    applyWrites t ws = applyWrites (applyWrites t w1) w2 := by
  rw [interleave_eq_append t w1 w2 ws hi hdis, applyWrites_append]

/-- non-vacuity: an interleaving exists for any two sequences -/
example (a b : Nat × (Nat → Nat)) : Interleave [a] [b] [b, a] := .right (.left .nil)


/-! ### references handed out by the `*_mut` set operations

Items carry the slot of every node whose value they lend mutably (`l.1`, `r.1`, `v.1`).  `a`, `b`: the
real nodes of the two operand views; `(a.slots ++ b.slots).Nodup` holds for two disjoint views of one
map (`split`, `left`/`right`: `split_disjoint`) and for views of two different maps. -/

open SetOps in
/-- `union_mut`: every valued node of each operand is lent exactly once — left references are exactly
the left operand's entries, right references the right operand's — and no node is lent twice -/
theorem union_mut_refs {L R : Type} (a : Tree w L) (b : Tree w R) (hwa : HasWF a) (hwb : HasWF b) :
    ((union a b).filterMap UItem.view).filterMap UV.lslot = a.slotEntries.map (·.1) ∧
    ((union a b).filterMap UItem.view).filterMap UV.rslot = b.slotEntries.map (·.1) := by
  rw [union_eq a b hwa hwb]
  exact unionS_lslots _ _ _ _ _ (Nat.le_refl _)

open SetOps in
theorem union_mut_refs_distinct {L R : Type} (a : Tree w L) (b : Tree w R) (hwa : HasWF a) (hwb : HasWF b)
    (hnd : (a.slots ++ b.slots).Nodup) :
    (((union a b).filterMap UItem.view).filterMap UV.lslot ++
      ((union a b).filterMap UItem.view).filterMap UV.rslot).Nodup := by
  obtain ⟨h1, h2⟩ := union_mut_refs a b hwa hwb
  rw [h1, h2]
  exact ((slotEntries_slots_sublist a).append (slotEntries_slots_sublist b)).nodup hnd

open SetOps in
/-- `intersection_mut`: all references of all items, both sides, are pairwise distinct -/
theorem intersection_mut_refs_distinct {L R : Type} (a : Tree w L) (b : Tree w R) (hwa : HasWF a) (hwb : HasWF b)
    (hnd : (a.slots ++ b.slots).Nodup) :
    ((intersection a b).map (fun it => it.l.1) ++ (intersection a b).map (fun it => it.r.1)).Nodup := by
  have hna : a.slots.Nodup := (List.nodup_append.1 hnd).1
  have hnb : b.slots.Nodup := (List.nodup_append.1 hnd).2.1
  have hl : ((intersection a b).map (fun it => it.l.1)).Sublist (a.slotEntries.map (·.1)) := by
    have := (PT.C06.intersection_order a b hwa hwb).map (·.1)
    simpa [List.map_map, Function.comp_def] using this
  have hr : ((intersection a b).map (fun it => it.r.1)).Nodup := by
    rw [PT.C06.intersection_spec a b hwa hwb]
    exact interS_rslots_nodup _ _ (slotEntries_keys_distinct hwa) (slotEntries_slots_nodup hnb)
  refine append_nodup_of_sub (hl.nodup (slotEntries_slots_nodup hna)) hr ?_ ?_ hnd
  · intro x hx
    exact (slotEntries_slots_sublist a).subset (hl.subset hx)
  · intro y hy
    obtain ⟨it, hit, rfl⟩ := List.mem_map.1 hy
    obtain ⟨_, pb, hb, _⟩ := PT.C06.intersection_sound a b hwa hwb it hit
    exact slotEntries_slot_mem b _ hb

open SetOps in
/-- `difference_mut` / `covering_difference_mut`: each selected left entry is lent once -/
theorem difference_mut_refs_distinct {L R : Type} (a : Tree w L) (b : Tree w R) (hwa : HasWF a) (hwb : HasWF b)
    (hna : a.slots.Nodup) :
    ((difference a b).map (fun it => it.v.1)).Nodup ∧ ((coveringDifference a b).map (fun it => it.v.1)).Nodup := by
  constructor
  · have := (PT.C07.difference_order a b hwa hwb).map (·.1)
    simp only [List.map_map, Function.comp_def] at this
    exact this.nodup (slotEntries_slots_nodup hna)
  · have := (PT.C07.coveringDifference_order a b hwa hwb).map (·.1)
    simp only [List.map_map, Function.comp_def] at this
    exact this.nodup (slotEntries_slots_nodup hna)


/-! ### `set` / `remove` through mutable views from two threads -/

/-- `TrieViewMut::set` / `remove` on a view at a real node are writes of that node's value slot -/
theorem view_set_remove_are_writes (m : PMap w V) (v : View w) (x : V) (hv : v.virt = none) :
    (m.viewSet v x).1 = m.writeAt v.path (some x) ∧ (m.viewRemove v).1 = m.writeAt v.path none :=
  ⟨PMap.viewSet_eq_writeAt m v x hv, PMap.viewRemove_eq_writeAt m v hv⟩

/-- mutating disjoint sub-views concurrently by `set` / `remove` (which also move the shared entry
counter): every interleaving `ws` of the two threads' write sequences `w1`, `w2` — addressing different
existing nodes — ends in the same map, **entry counter included**, as `w1` followed by `w2` -/
theorem view_set_remove_concurrent_eq_sequential {m : PMap w V} (h : m.Inv) (w1 w2 ws : List (List Bool × Option V))
    (hi : Tree.Interleave w1 w2 ws)
    (h1 : ∀ x ∈ w1, (m.root.sub x.1).isNil = false) (h2 : ∀ y ∈ w2, (m.root.sub y.1).isNil = false)
    (hdis : ∀ x ∈ w1, ∀ y ∈ w2, x.1 ≠ y.1) :
    PMap.applyViewWrites m ws = PMap.applyViewWrites m (w1 ++ w2) :=
  PMap.view_writes_interleave h w1 w2 ws hi h1 h2 hdis

end PT.C14
