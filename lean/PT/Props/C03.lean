import PT.Lemmas.NumOrder
import PT.Lemmas.Order
import PT.Lemmas.Map
/-!
# C03 — Every iterator yields each entry exactly once in lexicographic prefix order

`iter`, `keys`, `values`, `iter_mut`, `values_mut`, `into_iter`, `into_keys`, `into_values`,
`&map`, the set iterators: one `next()` body (`Tree.iterNext`), started from the stack `[root]`.
-/
namespace PT.C03
open Tree Pfx
variable {w : Nat} {V : Type}

/-- a full traversal yields exactly the stored entries (pre-order of the valued nodes): every
entry, nothing else -/
theorem iter_eq_entries (m : PMap w V) : m.iter = m.entries := iterAll_root m.root

/-- … in strictly ascending lexicographic key order: a prefix precedes everything it covers and the
0-branch precedes the 1-branch … -/
theorem iter_sorted {m : PMap w V} (h : m.TreeWF) :
    m.iter.Pairwise (fun a b => Spec.keyLt a.1.net b.1.net = true) := by
  rw [iter_eq_entries]; exact entries_sorted h.wf

/-- … hence each entry (indeed each key) exactly once -/
theorem iter_keys_nodup {m : PMap w V} (h : m.TreeWF) : (m.iter.map (fun e => e.1.net)).Nodup := by
  rw [iter_eq_entries]
  have hs := entries_sorted h.wf
  rw [List.Nodup, List.pairwise_map]
  exact hs.imp (fun {a b} hab heq => by rw [heq, Spec.keyLt_irrefl] at hab; simp at hab)

/-- independent of insertion order, removals and tree shape: the listing is determined by the set
of stored entries -/
theorem iter_history_independent {m1 m2 : PMap w V} (h1 : m1.TreeWF) (h2 : m2.TreeWF)
    (h : ∀ e, e ∈ m1.entries ↔ e ∈ m2.entries) : m1.iter = m2.iter := by
  rw [iter_eq_entries, iter_eq_entries]; exact entries_eq_of_mem_iff h1.wf h2.wf h

/-- after exhaustion the iterator keeps returning `None` -/
theorem fused : iterNext ([] : List (Tree w V)) = none := iterNext_nil

theorem drained_stays_drained (st : List (Tree w V)) (h : iterNext st = none) : iterAll st = [] := by
  rw [iterAll_eq, (iterNext_spec st).1 h]

/-- a clone taken after `k` items continues exactly like the original: items so far ++ rest = all -/
theorem clone_continues (m : PMap w V) (k : Nat) :
    (iterTake k [m.root]).1 ++ iterAll (iterTake k [m.root]).2 = m.entries := by
  rw [iterTake_append, iterAll_root]; rfl

/-- sub-tree iteration (`children`, view iterators) from any node: that node's entries -/
theorem iter_from_node (t : Tree w V) : iterAll [t] = t.entries := iterAll_root t

/-- `Iter::default()`: the empty stack yields nothing -/
theorem default_iter_empty : iterAll ([] : List (Tree w V)) = [] := by
  rw [iterAll_eq]; rfl


/-- the order in the property's own words: ascending by network address (`mask()` as an unsigned
integer) and, for equal addresses, by prefix length -/
theorem iter_sorted_numeric {m : PMap w V} (h : m.TreeWF) :
    m.iter.Pairwise (fun a b => a.1.mask.toNat < b.1.mask.toNat ∨ (a.1.mask = b.1.mask ∧ a.1.len < b.1.len)) :=
  (iter_sorted h).imp (fun {a b} hab => (Pfx.keyLt_iff_numeric a.1 b.1).1 hab)

/-- the two readings of the order coincide for all prefixes (host bits arbitrary) -/
theorem order_numeric_iff (a b : Pfx w) :
    Spec.keyLt a.net b.net = true ↔ a.mask.toNat < b.mask.toNat ∨ (a.mask = b.mask ∧ a.len < b.len) :=
  Pfx.keyLt_iff_numeric a b

end PT.C03
