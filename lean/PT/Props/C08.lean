import PT.Lemmas.Union
import PT.Lemmas.Writes
import PT.Lemmas.Map
/-!
# C08 — LPM annotations of union/difference items are true LPMs in the other view

The annotation of an item with prefix `p` is `lpmK B p`, where `B` is the (pre-order, hence
length-sorted along any chain of covering prefixes) entry list of the *other* view: the last entry
of `B` that covers `p`.  `lpmK_spec` says this is a stored entry of the other view, covering `p`, of
maximal length, and `None` exactly when the other view stores no covering prefix — i.e. the answer
of a direct longest-prefix query on the other view's entries (cf. C02).
-/
namespace PT.C08
open Tree Pfx SetOps
variable {w : Nat} {L R : Type}

/-- the covering entries of `p` in a well-formed subtree's entry list come in strictly increasing
length (they are `covering` of C02/C09 with slots) -/
theorem coverK_sorted {b : Tree w R} (hwb : HasWF b) (p : Pfx w) :
    (coverK b.slotEntries p).Pairwise (fun x y => x.2.1.len < y.2.1.len) := by
  obtain ⟨k, hk⟩ := hwb
  have h := covering_sorted hk p
  unfold covering at h
  rw [← slotEntries_snd, List.filter_map, List.pairwise_map] at h
  unfold coverK
  exact h

/-- what the annotation is: a stored entry of the other view that covers `p` and is the longest such;
`None` exactly when the other view stores no prefix covering `p` -/
theorem lpmK_spec {b : Tree w R} (hwb : HasWF b) (p : Pfx w) :
    (∀ q y, lpmK b.slotEntries p = some (q, y) →
      (∃ s, (s, q, y) ∈ b.slotEntries) ∧ q.net <+: p.net ∧
      ∀ x ∈ b.slotEntries, x.2.1.net <+: p.net → x.2.1.len ≤ q.len) ∧
    (lpmK b.slotEntries p = none ↔ ∀ x ∈ b.slotEntries, ¬ x.2.1.net <+: p.net) := by
  constructor
  · intro q y h
    unfold lpmK at h
    rw [Option.map_eq_some_iff] at h
    obtain ⟨e, he, heq⟩ := h
    simp only [Prod.mk.injEq] at heq
    obtain ⟨rfl, rfl⟩ := heq
    have hmem := List.mem_of_getLast? he
    have hm := List.mem_filter.1 hmem
    refine ⟨⟨e.1, hm.1⟩, (Pfx.contains_iff _ _).1 hm.2, fun x hx hc => ?_⟩
    obtain ⟨ys, hys⟩ := List.getLast?_eq_some_iff.1 he
    have hs := coverK_sorted hwb p
    have hx' : x ∈ coverK b.slotEntries p := List.mem_filter.2 ⟨hx, (Pfx.contains_iff _ _).2 hc⟩
    rw [hys] at hs hx'
    rw [List.pairwise_append] at hs
    rcases List.mem_append.1 hx' with h' | h'
    · exact Nat.le_of_lt (hs.2.2 x h' e (by simp))
    · simp at h'; subst h'; exact Nat.le_refl _
  · unfold lpmK
    rw [Option.map_eq_none_iff, List.getLast?_eq_none_iff]
    unfold coverK
    rw [List.filter_eq_nil_iff]
    constructor
    · intro h x hx hc; exact h x hx ((Pfx.contains_iff _ _).2 hc)
    · intro h x hx hc; exact h x hx ((Pfx.contains_iff _ _).1 hc)

/-- every `DifferenceItem` / `DifferenceMutItem` carries, in `right`, the longest-prefix match of its
prefix among the entries of the other view -/
theorem difference_annotation (a : Tree w L) (b : Tree w R) (hwa : HasWF a) (hwb : HasWF b)
    (it : DItem w L R) (h : it ∈ difference a b) : it.right = lpmK b.slotEntries it.p := by
  rw [difference_eq a b hwa hwb] at h
  unfold diffS at h
  rw [List.mem_filterMap] at h
  obtain ⟨x, _, hm⟩ := h
  cases hl : lookupK b.slotEntries (keyOf x) with
  | some y => rw [hl] at hm; simp at hm
  | none =>
    rw [hl] at hm
    simp only [Option.some.injEq] at hm
    subst hm
    exact orE_none_right _

/-- a union item present on the left only reports, for the right side, the longest-prefix match of
its prefix among the right view's entries — and symmetrically -/
theorem union_annotation (a : Tree w L) (b : Tree w R) (hwa : HasWF a) (hwb : HasWF b) :
    (union a b).filterMap UItem.view =
      unionS (fun p => lpmK b.slotEntries p) (fun p => lpmK a.slotEntries p) a.slotEntries b.slotEntries := by
  rw [union_eq a b hwa hwb]
  apply unionS_congr _ _ _ (Nat.le_refl _) <;> intro x _ <;> exact orE_none_right _

/-- in particular the reported match always covers the item's prefix -/
theorem annotation_covers {b : Tree w R} (hwb : HasWF b) (p q : Pfx w) (y : R)
    (h : lpmK b.slotEntries p = some (q, y)) : q.contains p = true :=
  (Pfx.contains_iff q p).2 ((lpmK_spec hwb p).1 q y h).2.1

/-! ### agreement with a direct longest-prefix query -/

/-- the annotation function of the specification is the last covering entry of the operand's tree … -/
theorem lpmK_eq_covering (t : Tree w R) (p : Pfx w) : lpmK t.slotEntries p = (covering t p).getLast? := by
  unfold lpmK coverK covering
  rw [← slotEntries_snd t, List.filter_map, List.getLast?_map]
  rfl

/-- … hence, when the other operand is a whole map, exactly what `get_lpm` returns for the item's prefix -/
theorem annotation_eq_getLpm {m : PMap w R} (h : m.TreeWF) (p : Pfx w) :
    lpmK m.root.slotEntries p = m.getLpm p := by
  rw [lpmK_eq_covering]
  unfold PMap.getLpm
  rw [Tree.getLpm_eq h.wf p none (h.rootCovers p)]
  cases (covering m.root p).getLast? <;> rfl

/-- every `difference` item against a whole map carries `get_lpm` of its prefix in that map -/
theorem difference_annotation_eq_getLpm (a : Tree w L) {m : PMap w R} (hwa : HasWF a) (h : m.TreeWF)
    (it : DItem w L R) (hit : it ∈ difference a m.root) : it.right = m.getLpm it.p := by
  rw [difference_annotation a m.root hwa ⟨_, h.wf⟩ it hit, annotation_eq_getLpm h]

/-- the union of two whole maps annotates every one-sided item with `get_lpm` of its prefix in the
other map -/
theorem union_annotation_eq_getLpm {ma : PMap w L} {mb : PMap w R} (ha : ma.TreeWF) (hb : mb.TreeWF) :
    (union ma.root mb.root).filterMap UItem.view =
      unionS (fun p => mb.getLpm p) (fun p => ma.getLpm p) ma.root.slotEntries mb.root.slotEntries := by
  rw [union_annotation ma.root mb.root ⟨_, ha.wf⟩ ⟨_, hb.wf⟩]
  have h1 : (fun p => lpmK mb.root.slotEntries p) = (fun p => mb.getLpm p) := funext (annotation_eq_getLpm hb)
  have h2 : (fun p => lpmK ma.root.slotEntries p) = (fun p => ma.getLpm p) := funext (annotation_eq_getLpm ha)
  rw [h1, h2]

end PT.C08
