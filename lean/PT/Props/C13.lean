import PT.Lemmas.Writes
import PT.Lemmas.Views
import PT.Props.C15
import PT.Props.C16
/-!
# C13 — Mutable traversals mirror read-only ones and writes land exactly there

In the model a mutable traversal *is* the read-only traversal plus the slot of each yielded node
(`Tree.iterAllS` vs `Tree.iterAll`; the set-operation machines carry the slots in their items), so
"same prefixes and values in the same order" holds by construction for the model; that the Rust
twins (`Iter` / `IterMut`, `Union` / `UnionMut`, …), which are separate code, agree is what the
correspondence runs establish.  The theorems below are about where a write lands.
-/
namespace PT.C13
open Tree Pfx
variable {w : Nat} {V : Type}

/-- the items a mutable traversal hands out are those of the read-only traversal, in order -/
theorem iter_mut_mirrors (st : List (Tree w V)) : (iterAllS st).map (·.2) = iterAll st := rfl

/-- `iter_mut` / `values_mut` / `children_mut` / view `iter_mut`: the valued nodes in pre-order -/
theorem iter_mut_items (t : Tree w V) : iterAllS [t] = t.slotEntries := iterAllS_root t

/-- a write through any yielded reference (slot `k`) changes the value of exactly that item; every
other item, all prefixes and the order are untouched … -/
theorem write_lands {m : PMap w V} (h : m.Inv) (k : Nat) (f : V → V) :
    (m.root.modifySlot k f).slotEntries =
      m.root.slotEntries.map (fun it => if it.1 = k then (it.1, it.2.1, f it.2.2) else it) := by
  apply slotEntries_modifySlot
  have := PT.C16.slots_nodup h
  exact (List.nodup_append.1 this).1

/-- … the set of stored prefixes (keys and representations) is unchanged … -/
theorem write_keeps_prefixes {m : PMap w V} (h : m.Inv) (k : Nat) (f : V → V) :
    (m.root.modifySlot k f).entries.map (·.1) = m.root.entries.map (·.1) := by
  rw [← slotEntries_snd, ← slotEntries_snd, write_lands h]
  simp only [List.map_map]
  apply List.map_congr_left
  intro it _
  simp only [Function.comp]
  split <;> rfl

/-- … and so is the tree shape -/
theorem write_keeps_shape (t : Tree w V) (k : Nat) (f : V → V) :
    PT.C15.skel (t.modifySlot k f) = PT.C15.skel t := PT.C15.modifySlot_shape t k f

theorem modifySlot_wf {k : List Bool} {t : Tree w V} (h : Tree.WF k t) (s : Nat) (f : V → V) :
    Tree.WF k (t.modifySlot s f) := by
  induction t generalizing k with
  | nil => exact h
  | node s' p v l r ihl ihr =>
    unfold modifySlot
    split
    · exact ⟨h.1, h.2.1, h.2.2⟩
    · exact ⟨h.1, ihl h.2.1, ihr h.2.2⟩

/-- the invariant survives (shape, counter, slot partition), so every later read through any API —
all of which are functions of the tree — sees the written value and nothing else changed -/
theorem write_preserves_inv {m : PMap w V} (h : m.Inv) (k : Nat) (f : V → V) :
    ({ m with root := m.root.modifySlot k f } : PMap w V).Inv := by
  obtain ⟨p, v, l, r, hr, hp⟩ := h.tree.root
  refine ⟨⟨?_, modifySlot_wf h.tree.wf k f⟩, ?_, fun a ha => ?_, fun a ha => ?_⟩
  · simp only [hr]
    unfold modifySlot
    split
    · exact ⟨p, _, l, r, rfl, hp⟩
    · exact ⟨p, v, _, _, rfl, hp⟩
  · show m.count = (m.root.modifySlot k f).entries.length
    have := congrArg List.length (write_keeps_prefixes h k f)
    simp only [List.length_map] at this
    rw [this]; exact h.count
  · show ((m.root.modifySlot k f).slots ++ m.free).count a = 1
    rw [slots_modifySlot]; exact h.slots_lt a ha
  · show ((m.root.modifySlot k f).slots ++ m.free).count a = 0
    rw [slots_modifySlot]; exact h.slots_ge a ha

/-- `get_mut(q)` / `Entry::get_mut` / `and_modify`: the write changes exactly the entry with key `q` -/
theorem get_mut_write {m : PMap w V} (h : m.TreeWF) (q : Pfx w) (f : V → V) (e : Pfx w × V) :
    e ∈ (m.modify q f).entries ↔
      (e ∈ m.entries ∧ e.1.net ≠ q.net) ∨ (∃ x, (e.1, x) ∈ m.entries ∧ e.1.net = q.net ∧ e.2 = f x) :=
  modifyValue_mem h.wf q f e

end PT.C13
