import PT.Lemmas.Reach
/-!
# C19 — Equality, clone and round-trips depend only on the stored entries
-/
namespace PT.C19
open Tree Pfx PMap
variable {w : Nat} {V : Type} [DecidableEq V]

/-- `==` holds exactly when the two maps store the same sequence of (stored prefix, value) pairs —
stored prefix under the key type's own equality (host bits included) — whatever their shapes -/
theorem beq_iff (a b : PMap w V) : a.beq b = true ↔ a.entries = b.entries := by
  unfold PMap.beq; simp

theorem beq_refl (a : PMap w V) : a.beq a = true := (beq_iff a a).2 rfl
theorem beq_symm (a b : PMap w V) : a.beq b = b.beq a := by
  rw [Bool.eq_iff_iff, beq_iff, beq_iff]; exact eq_comm
theorem beq_trans (a b c : PMap w V) (h1 : a.beq b = true) (h2 : b.beq c = true) : a.beq c = true :=
  (beq_iff a c).2 (((beq_iff a b).1 h1).trans ((beq_iff b c).1 h2))

/-- a map never equals one with additional or fewer entries (in particular the empty map equals
only maps without entries) -/
theorem beq_false_of_length_ne (a b : PMap w V) (h : a.entries.length ≠ b.entries.length) : a.beq b = false := by
  rw [Bool.eq_false_iff]; intro hb; exact h (congrArg List.length ((beq_iff a b).1 hb))

theorem beq_empty_iff (a : PMap w V) : a.beq PMap.empty = true ↔ a.entries = [] := beq_iff a _

/-- equality is decided by the entries and the iteration order is canonical: two well-formed maps
holding the same *set* of entries are equal, regardless of histories and tree shapes -/
theorem beq_of_same_entry_set {a b : PMap w V} (ha : a.TreeWF) (hb : b.TreeWF)
    (h : ∀ e, e ∈ a.entries ↔ e ∈ b.entries) : a.beq b = true :=
  (beq_iff a b).2 (entries_eq_of_mem_iff ha.wf hb.wf h)

/-- `clone()` is the identity on model states, hence equal to the original -/
theorem clone_eq (a : PMap w V) : a.beq a = true := beq_refl a

/-- rebuilding a map from its own entries (`collect`) yields an equal map … -/
theorem collect_self {m : PMap w V} (h : m.TreeWF) : (PMap.collect m.entries).beq m = true := by
  apply beq_of_same_entry_set (collect_inv _).tree h
  intro e
  apply collect_mem
  have hs := entries_sorted h.wf
  rw [List.Nodup, List.pairwise_map]
  exact hs.imp (fun {a b} hab heq => by rw [heq, Spec.keyLt_irrefl] at hab; simp at hab)

/-- … in whatever order the entries are fed back (the serde round trip goes through a `HashMap`,
which only permutes them) -/
theorem collect_perm {m : PMap w V} (h : m.TreeWF) (xs : List (Pfx w × V)) (hp : xs.Perm m.entries) :
    (PMap.collect xs).beq m = true := by
  apply beq_of_same_entry_set (collect_inv _).tree h
  intro e
  have hnd : (m.entries.map (fun e => e.1.net)).Nodup := by
    have hs := entries_sorted h.wf
    rw [List.Nodup, List.pairwise_map]
    exact hs.imp (fun {a b} hab heq => by rw [heq, Spec.keyLt_irrefl] at hab; simp at hab)
  rw [collect_mem xs ((hp.map _).nodup_iff.2 hnd) e]
  exact hp.mem_iff

end PT.C19
