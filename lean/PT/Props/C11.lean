import PT.Lemmas.CanonViews
import PT.Lemmas.Views
import PT.Lemmas.Reach
/-!
# C11 — A view addresses exactly the entries under its prefix; left/right split by bit

`TrieView` and `TrieViewMut` share one model (`View`): `ViewLoc::Node` = `virt = none`,
`ViewLoc::Virtual(p, _)` = `virt = some p`; the real node is addressed by a path.
`View.ents` = the entries the view's iterators yield (`View.iter_eq_ents`).
`View.Good` = the view points at an existing node of a well-formed tree, a virtual prefix lying
strictly above that node; the whole-map view is good and every navigation step preserves it.

The last clause of the property (for tries modified only by insert / remove / retain / clear a
sub-view or side exists exactly when it contains an entry) rests on the canonical-shape invariant
`PMap.Canonical` (established for those histories by `PT.C15.canonical_after_history`).
-/
namespace PT.C11
open Tree Pfx View
variable {w : Nat} {V : Type}

/-- the whole-map view always exists and is good -/
theorem root_view_good {m : PMap w V} (h : m.TreeWF) : Good m.root (View.root : View w) := by
  obtain ⟨p, v, l, r, hr, _⟩ := h.root
  exact View.root_good hr h.wf

theorem root_view_ents (m : PMap w V) : (View.root : View w).ents m.root = m.entries := by
  simp [View.ents, View.node, View.root, Tree.sub_nil, PMap.entries]

/-- the iterators of a view yield exactly its entries, in lexicographic order -/
theorem view_iter (t : Tree w V) (v : View w) : v.iter t = v.ents t := View.iter_eq_ents t v

theorem view_iter_sorted {t : Tree w V} {v : View w} (hg : Good t v) :
    (v.iter t).Pairwise (fun a b => Spec.keyLt a.1.net b.1.net = true) := by
  obtain ⟨kk, s, np, nv, nl, nr, hs, hwf, _⟩ := hg
  rw [view_iter]; unfold View.ents View.node; rw [hs]; exact entries_sorted hwf

/-- `view_at(q)` / `view_mut_at(q)` return `None` only if no stored prefix is covered by `q` -/
theorem view_at_none {m : PMap w V} (h : m.TreeWF) (q : Pfx w)
    (hn : (View.root : View w).find m.root q = none) : ∀ e ∈ m.entries, ¬ q.net <+: e.1.net := by
  have := (View.find_spec (root_view_good h) q).1 hn
  rwa [root_view_ents] at this

/-- when they return a view, its `prefix()` is `q` in network form and its iterators yield exactly
the stored entries covered by `q` -/
theorem view_at_some {m : PMap w V} (h : m.TreeWF) (q : Pfx w) (v : View w)
    (hs : (View.root : View w).find m.root q = some v) :
    Good m.root v ∧ (∃ P, v.pfx m.root = some P ∧ P.net = q.net) ∧
    ∀ e, e ∈ v.iter m.root ↔ e ∈ m.entries ∧ q.net <+: e.1.net := by
  obtain ⟨h1, h2, h3⟩ := (View.find_spec (root_view_good h) q).2 v hs
  refine ⟨h1, h2, fun e => ?_⟩
  rw [view_iter, h3 e, root_view_ents]

/-- `value()` is the value stored exactly at the view's prefix (`None` otherwise) -/
theorem view_value {t : Tree w V} {v : View w} (hg : Good t v) {P : Pfx w} (hP : v.pfx t = some P) (x : V) :
    v.value t = some x ↔ ∃ p, (p, x) ∈ v.ents t ∧ p.net = P.net := View.value_spec hg hP x

/-- for every view, `left()` (`right()`) addresses exactly the entries under the view's prefix whose
next bit is 0 (1); `None` only if there are none; the side views are again good views -/
theorem left_spec {t : Tree w V} {v : View w} (hg : Good t v) {P : Pfx w} (hP : v.pfx t = some P) :
    (v.left t = none → ∀ e ∈ v.ents t, ¬ P.net ++ [false] <+: e.1.net) ∧
    (∀ v', v.left t = some v' → Good t v' ∧ ∀ e, e ∈ v'.ents t ↔ e ∈ v.ents t ∧ P.net ++ [false] <+: e.1.net) := by
  have := View.side_spec hg hP false
  simpa [View.side] using this

theorem right_spec {t : Tree w V} {v : View w} (hg : Good t v) {P : Pfx w} (hP : v.pfx t = some P) :
    (v.right t = none → ∀ e ∈ v.ents t, ¬ P.net ++ [true] <+: e.1.net) ∧
    (∀ v', v.right t = some v' → Good t v' ∧ ∀ e, e ∈ v'.ents t ↔ e ∈ v.ents t ∧ P.net ++ [true] <+: e.1.net) := by
  have := View.side_spec hg hP true
  simpa [View.side] using this

/-- `split()` returns both sides (`split = (left, right)` in the model; `has_left` / `has_right` are
`left().is_some()` / `right().is_some()`), and the view's entries are its own entry plus the two
sides' entries -/
theorem view_decompose {t : Tree w V} {v : View w} (hg : Good t v) :
    v.ents t = (v.prefixValue t).toList ++
      (match v.left t with | some l => l.ents t | none => []) ++
      (match v.right t with | some r => r.ents t | none => []) := by
  have := View.ents_decompose hg
  simp only [View.side, Bool.false_eq_true, ite_false, ite_true] at this
  cases hl : v.left t <;> cases hr : v.right t <;> simp only [hl, hr] at this ⊢ <;> exact this

/-- the two sides are disjoint: no entry is under both -/
theorem sides_disjoint (P : Pfx w) (e : Pfx w × V) :
    ¬ (P.net ++ [false] <+: e.1.net ∧ P.net ++ [true] <+: e.1.net) := by
  rintro ⟨h1, h2⟩
  exact List.not_prefix_of_sides (x := false) (y := true) (by simp) h1 h2 (List.prefix_refl _)


/-! ### canonical tries: a sub-view or side exists exactly when it contains an entry -/

/-- in a canonical trie every view other than the whole-map view holds at least one entry -/
theorem canonical_view_nonempty {m : PMap w V} (h : m.TreeWF) (c : m.Canonical) {v : View w}
    (hg : Good m.root v) (hne : v ≠ View.root) : v.ents m.root ≠ [] := PMap.view_nonempty h c hg hne

/-- `view_at(q)` exists exactly when `q` is the zero-length prefix (the whole-map view always
exists) or some stored prefix is covered by `q` -/
theorem view_at_exists_iff {m : PMap w V} (h : m.TreeWF) (c : m.Canonical) (q : Pfx w) :
    ((View.root : View w).find m.root q).isSome = true ↔ q.net = [] ∨ ∃ e ∈ m.entries, q.net <+: e.1.net := by
  constructor
  · intro hs
    obtain ⟨v, hv⟩ := Option.isSome_iff_exists.1 hs
    obtain ⟨hg, ⟨P, hP, hPq⟩, hm⟩ := view_at_some h q v hv
    by_cases hr : v = View.root
    · left
      obtain ⟨p, x, l, r, hroot, hpn⟩ := h.root
      rw [hr] at hP
      simp only [View.pfx, View.root, View.node, Tree.sub_nil, hroot, Tree.pfx?, Option.some.injEq] at hP
      rw [← hPq, ← hP, hpn]
    · right
      obtain ⟨e, he⟩ := List.exists_mem_of_ne_nil _ (PMap.view_nonempty h c hg hr)
      rw [← view_iter] at he
      exact ⟨e, ((hm e).1 he).1, ((hm e).1 he).2⟩
  · rintro (hq | ⟨e, he, hc⟩)
    · obtain ⟨p, x, l, r, hroot, hpn⟩ := h.root
      have hrq : p.net = q.net := by rw [hpn, hq]
      have hlen : ¬ q.len < p.len := by
        have := congrArg List.length hrq
        rw [Pfx.net_length, Pfx.net_length] at this
        omega
      simp [View.find, View.root, View.node, Tree.sub_nil, hroot, Tree.pfx?, hlen, Tree.findGo,
        dirIns_of_net_eq hrq]
    · cases hf : (View.root : View w).find m.root q with
      | some v => rfl
      | none => exact absurd hc (view_at_none h q hf e he)

/-- `left()` / `right()` (`has_left` / `has_right`, the components of `split()`) exist exactly when
the view holds an entry on that side -/
theorem side_exists_iff {m : PMap w V} (h : m.TreeWF) (c : m.Canonical) {v : View w} (hg : Good m.root v)
    {P : Pfx w} (hP : v.pfx m.root = some P) (b : Bool) :
    (View.side m.root v b).isSome = true ↔ ∃ e ∈ v.ents m.root, P.net ++ [b] <+: e.1.net := by
  have hspec := View.side_spec hg hP b
  constructor
  · intro hs
    obtain ⟨v', hv'⟩ := Option.isSome_iff_exists.1 hs
    obtain ⟨hg', hm⟩ := hspec.2 v' hv'
    obtain ⟨e, he⟩ := List.exists_mem_of_ne_nil _ (PMap.view_nonempty h c hg' (PMap.side_ne_root h hg b hv'))
    exact ⟨e, ((hm e).1 he).1, ((hm e).1 he).2⟩
  · rintro ⟨e, he, hc⟩
    cases hf : View.side m.root v b with
    | some v' => rfl
    | none => exact absurd hc (hspec.1 hf e he)

end PT.C11
