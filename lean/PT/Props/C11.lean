import PT.Lemmas.Views
import PT.Lemmas.Reach
/-!
# C11 — A view addresses exactly the entries under its prefix; left/right split by bit

`TrieView` and `TrieViewMut` share one model (`View`): `ViewLoc::Node` = `virt = none`,
`ViewLoc::Virtual(p, _)` = `virt = some p`; the real node is addressed by a path.
`View.ents` = the entries the view's iterators yield (`View.iter_eq_ents`).
`View.Good` = the view points at an existing node of a well-formed tree, a virtual prefix lying
strictly above that node; the whole-map view is good and every navigation step preserves it.

The last clause of the property (for tries modified only by insert / remove / retain / clear a
sub-view or side exists exactly when it contains an entry) needs the canonical-shape invariant and
is decided by correspondence on canonical-alphabet traces, not by a theorem here.
-/
namespace PT.C11
open Tree Pfx View
variable {w : Nat} {V : Type}

/-- the whole-map view always exists and is good -/
theorem root_view_good {m : PMap w V} (h : m.TreeWF) : Good m.root (View.root : View w) := by
  obtain ⟨p, v, l, r, hr, _⟩ := h.root
  exact View.root_good hr h.wf

theorem root_view_ents (m : PMap w V) : (View.root : View w).ents m.root = m.entries := by
  simp [View.ents, View.node, View.root, Tree.sub_nil, PMap.entries]

/-- the iterators of a view yield exactly its entries, in lexicographic order -/
theorem view_iter (t : Tree w V) (v : View w) : v.iter t = v.ents t := View.iter_eq_ents t v

theorem view_iter_sorted {t : Tree w V} {v : View w} (hg : Good t v) :
    (v.iter t).Pairwise (fun a b => Spec.keyLt a.1.net b.1.net = true) := by
  obtain ⟨kk, s, np, nv, nl, nr, hs, hwf, _⟩ := hg
  rw [view_iter]; unfold View.ents View.node; rw [hs]; exact entries_sorted hwf

/-- `view_at(q)` / `view_mut_at(q)` return `None` only if no stored prefix is covered by `q` -/
theorem view_at_none {m : PMap w V} (h : m.TreeWF) (q : Pfx w)
    (hn : (View.root : View w).find m.root q = none) : ∀ e ∈ m.entries, ¬ q.net <+: e.1.net := by
  have := (View.find_spec (root_view_good h) q).1 hn
  rwa [root_view_ents] at this

/-- when they return a view, its `prefix()` is `q` in network form and its iterators yield exactly
the stored entries covered by `q` -/
theorem view_at_some {m : PMap w V} (h : m.TreeWF) (q : Pfx w) (v : View w)
    (hs : (View.root : View w).find m.root q = some v) :
    Good m.root v ∧ (∃ P, v.pfx m.root = some P ∧ P.net = q.net) ∧
    ∀ e, e ∈ v.iter m.root ↔ e ∈ m.entries ∧ q.net <+: e.1.net := by
  obtain ⟨h1, h2, h3⟩ := (View.find_spec (root_view_good h) q).2 v hs
  refine ⟨h1, h2, fun e => ?_⟩
  rw [view_iter, h3 e, root_view_ents]

/-- `value()` is the value stored exactly at the view's prefix (`None` otherwise) -/
theorem view_value {t : Tree w V} {v : View w} (hg : Good t v) {P : Pfx w} (hP : v.pfx t = some P) (x : V) :
    v.value t = some x ↔ ∃ p, (p, x) ∈ v.ents t ∧ p.net = P.net := View.value_spec hg hP x

/-- for every view, `left()` (`right()`) addresses exactly the entries under the view's prefix whose
next bit is 0 (1); `None` only if there are none; the side views are again good views -/
theorem left_spec {t : Tree w V} {v : View w} (hg : Good t v) {P : Pfx w} (hP : v.pfx t = some P) :
    (v.left t = none → ∀ e ∈ v.ents t, ¬ P.net ++ [false] <+: e.1.net) ∧
    (∀ v', v.left t = some v' → Good t v' ∧ ∀ e, e ∈ v'.ents t ↔ e ∈ v.ents t ∧ P.net ++ [false] <+: e.1.net) := by
  have := View.side_spec hg hP false
  simpa [View.side] using this

theorem right_spec {t : Tree w V} {v : View w} (hg : Good t v) {P : Pfx w} (hP : v.pfx t = some P) :
    (v.right t = none → ∀ e ∈ v.ents t, ¬ P.net ++ [true] <+: e.1.net) ∧
    (∀ v', v.right t = some v' → Good t v' ∧ ∀ e, e ∈ v'.ents t ↔ e ∈ v.ents t ∧ P.net ++ [true] <+: e.1.net) := by
  have := View.side_spec hg hP true
  simpa [View.side] using this

/-- `split()` returns both sides (`split = (left, right)` in the model; `has_left` / `has_right` are
`left().is_some()` / `right().is_some()`), and the view's entries are its own entry plus the two
sides' entries -/
theorem view_decompose {t : Tree w V} {v : View w} (hg : Good t v) :
    v.ents t = (v.prefixValue t).toList ++
      (match v.left t with | some l => l.ents t | none => []) ++
      (match v.right t with | some r => r.ents t | none => []) := by
  have := View.ents_decompose hg
  simp only [View.side, Bool.false_eq_true, ite_false, ite_true] at this
  cases hl : v.left t <;> cases hr : v.right t <;> simp only [hl, hr] at this ⊢ <;> exact this

/-- the two sides are disjoint: no entry is under both -/
theorem sides_disjoint (P : Pfx w) (e : Pfx w × V) :
    ¬ (P.net ++ [false] <+: e.1.net ∧ P.net ++ [true] <+: e.1.net) := by
  rintro ⟨h1, h2⟩
  exact List.not_prefix_of_sides (x := false) (y := true) (by simp) h1 h2 (List.prefix_refl _)

end PT.C11
