import PT.Lemmas.Diff
import PT.Lemmas.Inter
/-!
# C07 — Difference and covering difference select exactly the specified left entries

One model for `Difference` / `DifferenceMut` and one for `CoveringDifference` /
`CoveringDifferenceMut` (the Rust `_mut` twins run the same index machine).
-/
namespace PT.C07
open Tree Pfx SetOps
variable {w : Nat} {L R : Type}

/-- `difference(a, b)`: `a`'s entries filtered by "key not stored in `b`", in `a`'s order, with `a`'s
stored prefix and value (and the annotation of C08) -/
theorem difference_spec (a : Tree w L) (b : Tree w R) (hwa : HasWF a) (hwb : HasWF b) :
    difference a b = diffS a.slotEntries b.slotEntries none := difference_eq a b hwa hwb

/-- `covering_difference(a, b)`: `a`'s entries filtered by "not covered by any prefix stored in `b`"
(an equal prefix covers), in `a`'s order -/
theorem coveringDifference_spec (a : Tree w L) (b : Tree w R) (hwa : HasWF a) (hwb : HasWF b) :
    coveringDifference a b = covDiffS a.slotEntries b.slotEntries := coveringDifference_eq a b hwa hwb

/-- an entry of `a` is yielded by `difference` exactly when no entry of `b` has its key -/
theorem difference_mem (a : Tree w L) (b : Tree w R) (hwa : HasWF a) (hwb : HasWF b) (x : Nat × Pfx w × L) :
    (∃ it ∈ difference a b, it.p = x.2.1 ∧ it.v = (x.1, x.2.2)) ↔
      x ∈ a.slotEntries ∧ ∀ y ∈ b.slotEntries, y.2.1.net ≠ x.2.1.net := by
  rw [difference_spec a b hwa hwb]
  unfold diffS
  constructor
  · rintro ⟨it, hit, hp, hv⟩
    rw [List.mem_filterMap] at hit
    obtain ⟨x', hx', hm⟩ := hit
    cases hl : lookupK b.slotEntries (keyOf x') with
    | some y => rw [hl] at hm; simp at hm
    | none =>
      rw [hl] at hm
      simp only [Option.some.injEq] at hm
      subst hm
      simp only at hp hv
      have : x' = x := by
        obtain ⟨s', p', v'⟩ := x'
        obtain ⟨s0, p0, v0⟩ := x
        simp only [Prod.mk.injEq] at hv hp ⊢
        exact ⟨hv.1, hp, hv.2⟩
      subst this
      refine ⟨hx', fun y hy e => ?_⟩
      unfold lookupK at hl
      rw [List.find?_eq_none] at hl
      have := hl y hy
      simp [keyOf, e] at this
  · rintro ⟨hx, hn⟩
    have : lookupK b.slotEntries (keyOf x) = none := lookupK_none (fun y hy => hn y hy)
    exact ⟨⟨x.2.1, (x.1, x.2.2), orE (lpmK b.slotEntries x.2.1) none⟩,
      List.mem_filterMap.2 ⟨x, hx, by simp [this]⟩, rfl, rfl⟩

/-- an entry of `a` is yielded by `covering_difference` exactly when no entry of `b` covers it -/
theorem coveringDifference_mem (a : Tree w L) (b : Tree w R) (hwa : HasWF a) (hwb : HasWF b) (x : Nat × Pfx w × L) :
    (∃ it ∈ coveringDifference a b, it.p = x.2.1 ∧ it.v = (x.1, x.2.2)) ↔
      x ∈ a.slotEntries ∧ ∀ y ∈ b.slotEntries, ¬ y.2.1.net <+: x.2.1.net := by
  rw [coveringDifference_spec a b hwa hwb]
  unfold covDiffS
  constructor
  · rintro ⟨it, hit, hp, hv⟩
    rw [List.mem_filterMap] at hit
    obtain ⟨x', hx', hm⟩ := hit
    by_cases hc : (coverK b.slotEntries x'.2.1).isEmpty = true
    · simp only [hc, ite_true, Option.some.injEq] at hm
      subst hm
      simp only at hp hv
      have : x' = x := by
        obtain ⟨s', p', v'⟩ := x'
        obtain ⟨s0, p0, v0⟩ := x
        simp only [Prod.mk.injEq] at hv hp ⊢
        exact ⟨hv.1, hp, hv.2⟩
      subst this
      refine ⟨hx', fun y hy hcov => ?_⟩
      rw [List.isEmpty_iff] at hc
      have : y ∈ coverK b.slotEntries x'.2.1 := List.mem_filter.2 ⟨hy, (Pfx.contains_iff _ _).2 hcov⟩
      rw [hc] at this; simp at this
    · simp [hc] at hm
  · rintro ⟨hx, hn⟩
    have : coverK b.slotEntries x.2.1 = [] := coverK_eq_nil (fun y hy => hn y hy)
    exact ⟨⟨x.2.1, (x.1, x.2.2), none⟩, List.mem_filterMap.2 ⟨x, hx, by simp [this]⟩, rfl, rfl⟩

/-- both yield a sub-list of `a`'s sorted entry list: each selected entry once, ascending, with
`a`'s value -/
theorem difference_order (a : Tree w L) (b : Tree w R) (hwa : HasWF a) (hwb : HasWF b) :
    ((difference a b).map (fun it => (it.v.1, it.p, it.v.2))).Sublist a.slotEntries := by
  rw [difference_spec a b hwa hwb]
  unfold diffS
  generalize a.slotEntries = A
  induction A with
  | nil => simp
  | cons x xs ih =>
    simp only [List.filterMap_cons]
    cases lookupK b.slotEntries (keyOf x) with
    | some y => exact List.Sublist.cons _ ih
    | none => simpa using ih.cons_cons x

theorem coveringDifference_order (a : Tree w L) (b : Tree w R) (hwa : HasWF a) (hwb : HasWF b) :
    ((coveringDifference a b).map (fun it => (it.v.1, it.p, it.v.2))).Sublist a.slotEntries := by
  rw [coveringDifference_spec a b hwa hwb]
  unfold covDiffS
  generalize a.slotEntries = A
  induction A with
  | nil => simp
  | cons x xs ih =>
    simp only [List.filterMap_cons]
    by_cases hc : (coverK b.slotEntries x.2.1).isEmpty = true
    · simp only [hc, ite_true]; simpa using ih.cons_cons x
    · simp only [hc]; exact List.Sublist.cons _ ih

/-- special cases named by the property: an empty `b` removes nothing -/
theorem difference_empty_right (a : Tree w L) (hwa : HasWF a) :
    (difference a (Tree.nil : Tree w R)).map (fun it => (it.v.1, it.p, it.v.2)) = a.slotEntries := by
  rw [difference_spec a _ hwa hasWF_nil]
  unfold diffS
  simp only [slotEntries, lookupK_nil]
  generalize a.slotEntries = A
  induction A with
  | nil => rfl
  | cons x xs ih => simp only [List.filterMap_cons, List.map_cons, ih]

/-! ### relation to `intersection` and between the two differences -/

theorem interS_diffS_length (A : KL w L) (B : KL w R) (base : Lpm w R) :
    (interS A B).length + (diffS A B base).length = A.length := by
  unfold interS diffS
  induction A with
  | nil => rfl
  | cons x xs ih =>
    simp only [List.filterMap_cons, List.length_cons]
    cases lookupK B (keyOf x) with
    | some y => simp only [Option.map_some, List.length_cons]; omega
    | none => simp only [Option.map_none, List.length_cons]; omega

/-- every entry of `a` is yielded by exactly one of `intersection(a, b)` and `difference(a, b)` -/
theorem difference_intersection_partition (a : Tree w L) (b : Tree w R) (hwa : HasWF a) (hwb : HasWF b) :
    (intersection a b).length + (difference a b).length = a.slotEntries.length := by
  rw [intersection_eq a b hwa hwb, difference_spec a b hwa hwb]
  exact interS_diffS_length _ _ _

/-- `intersection` and `difference` never yield the same left node -/
theorem difference_intersection_disjoint (a : Tree w L) (b : Tree w R) (hwa : HasWF a) (hwb : HasWF b)
    (i : IItem w L R) (hi : i ∈ intersection a b) (d : DItem w L R) (hd : d ∈ difference a b) :
    i.p.net ≠ d.p.net := by
  rw [intersection_eq a b hwa hwb] at hi
  rw [difference_spec a b hwa hwb] at hd
  unfold interS at hi; unfold diffS at hd
  rw [List.mem_filterMap] at hi hd
  obtain ⟨x, hx, hxi⟩ := hi
  obtain ⟨y, hy, hyd⟩ := hd
  intro hnet
  cases hlx : lookupK b.slotEntries (keyOf x) with
  | none => simp [hlx] at hxi
  | some bx =>
    simp only [hlx, Option.map_some, Option.some.injEq] at hxi
    have hkx : keyOf x = i.p.net := by rw [← hxi]; rfl
    cases hly : lookupK b.slotEntries (keyOf y) with
    | some by' => simp [hly] at hyd
    | none =>
      simp only [hly, Option.some.injEq] at hyd
      have hky : keyOf y = d.p.net := by rw [← hyd]; rfl
      rw [hkx, hnet, ← hky, hly] at hlx
      exact absurd hlx (by simp)
/-- whatever `covering_difference(a, b)` yields, `difference(a, b)` yields too (an equal prefix
covers): same left node, same stored prefix, same value -/
theorem coveringDifference_subset_difference (a : Tree w L) (b : Tree w R) (hwa : HasWF a) (hwb : HasWF b)
    (c : DItem w L R) (hc : c ∈ coveringDifference a b) :
    ∃ d ∈ difference a b, d.p = c.p ∧ d.v = c.v := by
  rw [coveringDifference_spec a b hwa hwb] at hc
  rw [difference_spec a b hwa hwb]
  unfold covDiffS at hc; unfold diffS
  rw [List.mem_filterMap] at hc
  obtain ⟨x, hx, hxc⟩ := hc
  by_cases he : (coverK b.slotEntries x.2.1).isEmpty = true
  · simp only [he, ite_true, Option.some.injEq] at hxc
    have hnil : coverK b.slotEntries x.2.1 = [] := List.isEmpty_iff.mp he
    have hl : lookupK b.slotEntries (keyOf x) = none := lookupK_of_cover_nil hnil
    refine ⟨⟨x.2.1, (x.1, x.2.2), orE (lpmK b.slotEntries x.2.1) none⟩, ?_, ?_, ?_⟩
    · rw [List.mem_filterMap]; exact ⟨x, hx, by simp only [hl]⟩
    · rw [← hxc]
    · rw [← hxc]
  · simp [he] at hxc

/-- special case: nothing is left of a view after removing the view itself — more generally after
removing any view that stores all of its keys -/
theorem difference_eq_nil_of_subset (a : Tree w L) (b : Tree w R) (hwa : HasWF a) (hwb : HasWF b)
    (hsub : ∀ x ∈ a.slotEntries, ∃ y ∈ b.slotEntries, y.2.1.net = x.2.1.net) : difference a b = [] := by
  rw [difference_spec a b hwa hwb]
  unfold diffS
  rw [List.filterMap_eq_nil_iff]
  intro x hx
  obtain ⟨y, hy, hk⟩ := hsub x hx
  cases hl : lookupK b.slotEntries (keyOf x) with
  | some _ => rfl
  | none =>
    unfold lookupK at hl
    rw [List.find?_eq_none] at hl
    have := hl y hy
    simp [keyOf, hk] at this

theorem difference_self (a : Tree w L) (hwa : HasWF a) : difference a a = [] :=
  difference_eq_nil_of_subset a a hwa hwa (fun x hx => ⟨x, hx, rfl⟩)

end PT.C07
