import PT.Lemmas.Map
/-!
# C09 — Shortest-prefix match and cover list exactly the covering entries, in order
-/
namespace PT.C09
open Tree Pfx
variable {w : Nat} {V : Type}

/-- `cover(q)` (and its `cover_keys` / `cover_values` projections, the set's `cover`) yields exactly
the stored entries whose prefix covers `q` (`q` itself and the zero-length prefix included) … -/
theorem cover_eq {m : PMap w V} (h : m.TreeWF) (q : Pfx w) :
    m.cover q = m.entries.filter (fun e => e.1.contains q) :=
  cover_eq_covering h.wf h.root_pfx q

theorem mem_cover_iff {m : PMap w V} (h : m.TreeWF) (q : Pfx w) (e : Pfx w × V) :
    e ∈ m.cover q ↔ e ∈ m.entries ∧ e.1.net <+: q.net := by
  rw [cover_eq h, List.mem_filter, contains_iff]

/-- … each once, in strictly increasing prefix length -/
theorem cover_sorted {m : PMap w V} (h : m.TreeWF) (q : Pfx w) :
    (m.cover q).Pairwise (fun a b => a.1.len < b.1.len) := by
  rw [cover_eq h]; exact covering_sorted h.wf q

/-- longest-prefix match returns the last element of that sequence -/
theorem getLpm_eq_cover_last {m : PMap w V} (h : m.TreeWF) (q : Pfx w) :
    m.getLpm q = (m.cover q).getLast? := by
  rw [cover_eq h]
  unfold PMap.getLpm
  rw [Tree.getLpm_eq h.wf q none (h.rootCovers q)]
  show orElse (covering m.root q).getLast? none = (covering m.root q).getLast?
  cases (covering m.root q).getLast? <;> rfl

end PT.C09
