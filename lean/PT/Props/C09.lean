import PT.Lemmas.Refine
import PT.Lemmas.Map
/-!
# C09 — Shortest-prefix match and cover list exactly the covering entries, in order
-/
namespace PT.C09
open Tree Pfx
variable {w : Nat} {V : Type}

/-- `cover(q)` (and its `cover_keys` / `cover_values` projections, the set's `cover`) yields exactly
the stored entries whose prefix covers `q` (`q` itself and the zero-length prefix included) … -/
theorem cover_eq {m : PMap w V} (h : m.TreeWF) (q : Pfx w) :
    m.cover q = m.entries.filter (fun e => e.1.contains q) :=
  cover_eq_covering h.wf h.root_pfx q

theorem mem_cover_iff {m : PMap w V} (h : m.TreeWF) (q : Pfx w) (e : Pfx w × V) :
    e ∈ m.cover q ↔ e ∈ m.entries ∧ e.1.net <+: q.net := by
  rw [cover_eq h, List.mem_filter, contains_iff]

/-- … each once, in strictly increasing prefix length -/
theorem cover_sorted {m : PMap w V} (h : m.TreeWF) (q : Pfx w) :
    (m.cover q).Pairwise (fun a b => a.1.len < b.1.len) := by
  rw [cover_eq h]; exact covering_sorted h.wf q

/-- longest-prefix match returns the last element of that sequence -/
theorem getLpm_eq_cover_last {m : PMap w V} (h : m.TreeWF) (q : Pfx w) :
    m.getLpm q = (m.cover q).getLast? := by
  rw [cover_eq h]
  unfold PMap.getLpm
  rw [Tree.getLpm_eq h.wf q none (h.rootCovers q)]
  show orElse (covering m.root q).getLast? none = (covering m.root q).getLast?
  cases (covering m.root q).getLast? <;> rfl

/-- `get_spm` / `get_spm_prefix` / the set's `get_spm` return the first element of that sequence
(`None` when it is empty) -/
theorem getSpm_eq_cover_head (m : PMap w V) (q : Pfx w) : m.getSpm q = (m.cover q).head? :=
  Tree.getSpm_eq m.root q

theorem getSpmPrefix_eq (m : PMap w V) (q : Pfx w) : m.getSpmPrefix q = ((m.cover q).head?).map (·.1) := by
  unfold PMap.getSpmPrefix; rw [getSpm_eq_cover_head]

/-- so shortest-prefix match is a stored entry covering `q` of least length -/
theorem getSpm_shortest {m : PMap w V} (h : m.TreeWF) (q : Pfx w) (e : Pfx w × V) (he : m.getSpm q = some e)
    (e' : Pfx w × V) (h1 : e' ∈ m.entries) (h2 : e'.1.net <+: q.net) : e.1.len ≤ e'.1.len := by
  rw [getSpm_eq_cover_head] at he
  have hm : e' ∈ m.cover q := (mem_cover_iff h q e').2 ⟨h1, h2⟩
  have hs := cover_sorted h q
  cases hc : m.cover q with
  | nil => rw [hc] at hm; simp at hm
  | cons x xs =>
    rw [hc] at he hm hs
    simp only [List.head?_cons, Option.some.injEq] at he
    subst he
    rcases List.mem_cons.1 hm with rfl | hm
    · exact Nat.le_refl _
    · exact Nat.le_of_lt ((List.pairwise_cons.1 hs).1 e' hm)

/-- cover after exhaustion: the model's drain is a finite list; `Cover::next` on a finished
descent re-evaluates a non-`Enter` direction and returns `None` again (correspondence-checked) -/
theorem cover_finite (m : PMap w V) (q : Pfx w) : (m.cover q).length ≤ m.root.size := by
  unfold PMap.cover Tree.cover
  suffices ∀ t : Tree w V, t.pvList.length + (coverGo t q).length ≤ t.size by simpa using this m.root
  intro t
  induction t with
  | nil => simp [pvList, pv, coverGo, Tree.size]
  | node s p v l r ihl ihr =>
    have hpv : (Tree.node s p v l r).pvList.length ≤ 1 := by cases v <;> simp [pvList, pv]
    unfold coverGo
    split
    · simp only [List.length_append, Tree.size] at *; omega
    · simp only [List.length_append, Tree.size] at *; omega
    · simp only [List.length_nil, Tree.size]; omega


/-- `cover` / `get_spm` compute the specification's filter and arg-min over the abstract map -/
theorem cover_eq_spec {m : PMap w V} (h : m.TreeWF) (q : Pfx w) : m.cover q = Spec.cover m.entries q :=
  PMap.cover_refines h q

theorem getSpm_eq_spec {m : PMap w V} (h : m.TreeWF) (q : Pfx w) : m.getSpm q = Spec.spm m.entries q :=
  PMap.getSpm_refines h q

/-! ### one entry per length -/

theorem length_le_of_strictMono_bounded {α : Type} (f : α → Nat) (n : Nat) :
    ∀ (l : List α) (k : Nat), l.Pairwise (fun a b => f a < f b) → (∀ x ∈ l, k ≤ f x ∧ f x ≤ n) →
      l.length ≤ n + 1 - k
  | [], k, _, _ => by simp
  | x :: xs, k, hp, hb => by
    rw [List.pairwise_cons] at hp
    have hx := hb x (List.mem_cons_self)
    have ih := length_le_of_strictMono_bounded f n xs (f x + 1) hp.2 (fun y hy =>
      ⟨hp.1 y hy, (hb y (List.mem_cons_of_mem _ hy)).2⟩)
    simp only [List.length_cons]; omega

/-- `cover(q)` yields at most one entry per prefix length `0 … q.len` -/
theorem cover_length_le {m : PMap w V} (h : m.TreeWF) (q : Pfx w) : (m.cover q).length ≤ q.len + 1 := by
  have := length_le_of_strictMono_bounded (fun e : Pfx w × V => e.1.len) q.len (m.cover q) 0 (cover_sorted h q)
    (fun e he => ⟨Nat.zero_le _, by
      have hc := ((mem_cover_iff h q e).1 he).2
      have := hc.length_le
      simpa [net_length] using this⟩)
  simpa using this

end PT.C09
