import PT.Lemmas.Refine
import PT.Lemmas.Map
/-!
# C02 — Longest-prefix match returns the most specific covering entry

`covering t q` = the entries of `t` whose prefix covers `q`, in the order of the entry list.
-/
namespace PT.C02
open Tree Pfx
variable {w : Nat} {V : Type}

/-- `get_lpm` (and `get_lpm_prefix`, `get_lpm_mut`, the set's `get_lpm`, which run the same descent)
returns the last covering entry of the pre-order entry list … -/
theorem getLpm_eq {m : PMap w V} (h : m.TreeWF) (q : Pfx w) :
    m.getLpm q = (covering m.root q).getLast? := by
  unfold PMap.getLpm
  rw [Tree.getLpm_eq h.wf q none (h.rootCovers q)]
  cases (covering m.root q).getLast? <;> rfl

/-- … which is a stored entry that covers `q` … -/
theorem getLpm_mem {m : PMap w V} (h : m.TreeWF) (q : Pfx w) (e : Pfx w × V) (he : m.getLpm q = some e) :
    e ∈ m.entries ∧ e.1.contains q = true := by
  rw [getLpm_eq h] at he
  have := List.mem_of_getLast? he
  exact List.mem_filter.1 this

/-- … of the greatest length among the stored entries covering `q` (`q` itself included) … -/
theorem getLpm_longest {m : PMap w V} (h : m.TreeWF) (q : Pfx w) (e : Pfx w × V) (he : m.getLpm q = some e)
    (e' : Pfx w × V) (h1 : e' ∈ m.entries) (h2 : e'.1.contains q = true) : e'.1.len ≤ e.1.len := by
  rw [getLpm_eq h] at he
  have hs := covering_sorted h.wf q
  have hm : e' ∈ covering m.root q := List.mem_filter.2 ⟨h1, h2⟩
  -- e is the last element of a list sorted by strictly increasing length
  obtain ⟨ys, hys⟩ : ∃ ys, covering m.root q = ys ++ [e] := List.getLast?_eq_some_iff.1 he
  rw [hys] at hs hm
  rw [List.pairwise_append] at hs
  rcases List.mem_append.1 hm with hm | hm
  · exact Nat.le_of_lt (hs.2.2 e' hm e (by simp))
  · simp at hm; subst hm; exact Nat.le_refl _

/-- … and `None` exactly when no stored prefix covers `q` -/
theorem getLpm_none_iff {m : PMap w V} (h : m.TreeWF) (q : Pfx w) :
    m.getLpm q = none ↔ ∀ e ∈ m.entries, e.1.contains q = false := by
  rw [getLpm_eq h, List.getLast?_eq_none_iff]
  unfold covering
  rw [List.filter_eq_nil_iff]
  constructor
  · intro hh e he; simpa using hh e he
  · intro hh e he; simp [hh e he]

/-- the answer depends only on the stored entries, never on the shape left behind by removals -/
theorem getLpm_shape_independent {m1 m2 : PMap w V} (h1 : m1.TreeWF) (h2 : m2.TreeWF)
    (he : m1.entries = m2.entries) (q : Pfx w) : m1.getLpm q = m2.getLpm q := by
  rw [getLpm_eq h1, getLpm_eq h2]
  unfold covering
  show (List.filter _ m1.entries).getLast? = (List.filter _ m2.entries).getLast?
  rw [he]

theorem getLpmPrefix_eq (m : PMap w V) (q : Pfx w) : m.getLpmPrefix q = (m.getLpm q).map (·.1) := rfl


/-- `get_lpm` computes the specification's arg-max (`Spec.lpm`: fold `pickLonger` over the covering
entries of the abstract map) -/
theorem getLpm_eq_spec {m : PMap w V} (h : m.TreeWF) (q : Pfx w) : m.getLpm q = Spec.lpm m.entries q :=
  PMap.getLpm_refines h q

end PT.C02
