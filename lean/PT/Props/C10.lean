import PT.Lemmas.Reach
/-!
# C10 — Sub-tree selection and bulk removal act on exactly the covered entries

Proved here: `retain`.  `children*` and `remove_children` are correspondence-checked (theorems
pending).
-/
namespace PT.C10
open Tree Pfx PMap
variable {w : Nat} {V : Type}

/-- `retain f` removes exactly the entries for which `f` returned false and keeps all others with
their stored representation and value -/
theorem retain_entries {m : PMap w V} (h : m.TreeWF) (f : Pfx w → V → Bool) (e : Pfx w × V) :
    e ∈ (m.retain f).entries ↔ e ∈ m.entries ∧ f e.1 e.2 = true := retain_mem h f e

/-- hence the listing afterwards is the filtered listing (iteration order is canonical) -/
theorem retain_iter {m : PMap w V} (h : m.Inv) (f : Pfx w → V → Bool) :
    (m.retain f).entries = m.entries.filter (fun e => f e.1 e.2) := by
  have h2 := (retain_inv h f none).tree
  apply List.eq_of_sorted_of_mem_iff (lt := fun a b => Spec.keyLt a.1.net b.1.net = true)
    (fun a => by simp [Spec.keyLt_irrefl]) (fun a b c => Spec.keyLt_trans) _ _
    (entries_sorted h2.wf) ((entries_sorted h.tree.wf).filter _)
  intro e
  rw [retain_entries h.tree, List.mem_filter]

/-- the predicate is evaluated exactly once per stored entry -/
theorem retain_calls_once (m : PMap w V) : (m.retainCalls none).Perm m.entries := postorder_perm m.root

theorem retain_preserves_inv {m : PMap w V} (h : m.Inv) (f : Pfx w → V → Bool) : (m.retain f).Inv :=
  retain_inv h f none

end PT.C10
