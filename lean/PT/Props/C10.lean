import PT.Lemmas.RetainRec
import PT.Lemmas.Refine
import PT.Lemmas.Reach
/-!
# C10 — Sub-tree selection and bulk removal act on exactly the covered entries

`children`, `children_mut`, `into_children` and the set's `children` run one iterator from the
subtree selected by `lpm_children_iter_start`.
-/
namespace PT.C10
open Tree Pfx PMap
variable {w : Nat} {V : Type}

/-- `retain f` removes exactly the entries for which `f` returned false and keeps all others with
their stored representation and value -/
theorem retain_entries {m : PMap w V} (h : m.TreeWF) (f : Pfx w → V → Bool) (e : Pfx w × V) :
    e ∈ (m.retain f).entries ↔ e ∈ m.entries ∧ f e.1 e.2 = true := retain_mem h f e

/-- hence the listing afterwards is the filtered listing (iteration order is canonical) -/
theorem retain_iter {m : PMap w V} (h : m.Inv) (f : Pfx w → V → Bool) :
    (m.retain f).entries = m.entries.filter (fun e => f e.1 e.2) := by
  have h2 := (retain_inv h f none).tree
  apply List.eq_of_sorted_of_mem_iff (lt := fun a b => Spec.keyLt a.1.net b.1.net = true)
    (fun a => by simp [Spec.keyLt_irrefl]) (fun a b c => Spec.keyLt_trans) _ _
    (entries_sorted h2.wf) ((entries_sorted h.tree.wf).filter _)
  intro e
  rw [retain_entries h.tree, List.mem_filter]

/-- the predicate is evaluated exactly once per stored entry -/
theorem retain_calls_once (m : PMap w V) : (m.retainCalls none).Perm m.entries := postorder_perm m.root

theorem retain_preserves_inv {m : PMap w V} (h : m.Inv) (f : Pfx w → V → Bool) : (m.retain f).Inv :=
  retain_inv h f none

/-- `children(q)` (and `children_mut`, `into_children`, the set's `children`) yields exactly the
stored entries covered by `q` (itself included), in lexicographic order -/
theorem children_eq {m : PMap w V} (h : m.TreeWF) (q : Pfx w) :
    m.childrenIter q = m.entries.filter (fun e => q.contains e.1) := by
  unfold PMap.childrenIter
  rw [iterAll_root]
  apply List.eq_of_sorted_of_mem_iff (lt := fun a b => Spec.keyLt a.1.net b.1.net = true)
    (fun a => by simp [Spec.keyLt_irrefl]) (fun a b c => Spec.keyLt_trans) _ _
    (entries_sorted (childrenStart_wf h.wf q)) ((entries_sorted h.wf).filter _)
  intro e
  rw [childrenStart_mem h.wf (h.rootCovers q), List.mem_filter, contains_iff]; rfl

theorem children_mem {m : PMap w V} (h : m.TreeWF) (q : Pfx w) (e : Pfx w × V) :
    e ∈ m.childrenIter q ↔ e ∈ m.entries ∧ q.net <+: e.1.net := by
  rw [children_eq h, List.mem_filter, contains_iff]

/-- `remove_children(q)` removes exactly those entries and leaves all others with their values and
representations (a zero-length prefix empties the map) -/
theorem removeChildren_entries {m : PMap w V} (h : m.TreeWF) (q : Pfx w) (e : Pfx w × V) :
    e ∈ (m.removeChildren q).entries ↔ e ∈ m.entries ∧ ¬ q.net <+: e.1.net := removeChildren_mem h q e

theorem removeChildren_zero {m : PMap w V} (q : Pfx w) (hq : q.len = 0) : (m.removeChildren q).entries = [] := by
  unfold PMap.removeChildren; simp [hq, PMap.clear, PMap.empty_entries]

theorem removeChildren_preserves_inv {m : PMap w V} (h : m.Inv) (q : Pfx w) : (m.removeChildren q).Inv :=
  removeChildren_inv h q


/-- the three operations as functions of the abstract map (`Spec.retain`, `Spec.children`,
`Spec.removeChildren` are list filters) -/
theorem retain_eq_spec {m : PMap w V} (h : m.Inv) (f : Pfx w → V → Bool) :
    (m.retain f).entries = Spec.retain m.entries f := PMap.retain_refines h f

theorem children_eq_spec {m : PMap w V} (h : m.TreeWF) (q : Pfx w) :
    m.childrenIter q = Spec.children m.entries q := PMap.children_refines h q

theorem removeChildren_eq_spec {m : PMap w V} (h : m.Inv) (q : Pfx w) :
    (m.removeChildren q).entries = Spec.removeChildren m.entries q := PMap.removeChildren_refines h q


/-! ### `_retain` as written

`PMap.retainRec` / `Tree.retainF` (`PT/Retain.lean`) transcribe the recursion of `_retain` with its
`idx_removed` / `par_removed` flags; this is the function the correspondence driver executes.  The
theorems above are stated for `PMap.retain`, the post-order fold of `_remove_node`-by-key. -/

/-- the recursion **is** that fold, on every well-formed map, for complete runs and for runs cut short
by a predicate that panics at its `k`-th call: same tree, same free list, same counter -/
theorem retain_recursion_eq_fold {m : PMap w V} (h : m.TreeWF) (f : Pfx w → V → Bool) (stop : Option Nat) :
    m.retainRec f stop = m.retain f stop := retainRec_eq h f stop

/-- hence, for the recursion: exactly the entries satisfying the predicate survive, the invariant holds -/
theorem retainRec_entries {m : PMap w V} (h : m.Inv) (f : Pfx w → V → Bool) :
    (m.retainRec f).entries = m.entries.filter (fun e => f e.1 e.2) ∧ (m.retainRec f).Inv := by
  rw [retainRec_eq h.tree]
  exact ⟨retain_iter h f, retain_inv h f none⟩

/-- the recursion on a subtree, allowed `n` calls, does what folding `_remove_node` over the first `n`
post-order entries does, and aborts iff `n` is smaller than the number of entries -/
theorem retainF_spec (f : Pfx w → V → Bool) {k : List Bool} {t : Tree w V} (hwf : Tree.WF k t) (hp : Bool) (n : Nat) :
    (Tree.retainF f t hp n).acc = Tree.foldF f hp (t.postorder.take n) t ∧
    (Tree.retainF f t hp n).budget = n - t.postorder.length ∧
    (Tree.retainF f t hp n).aborted = decide (n < t.postorder.length) := Tree.retainF_eq_fold f hwf hp n

end PT.C10
