import PT.Lemmas.CanonViews
import PT.Lemmas.Reach
/-!
# C16 — Removed nodes are reclaimed: storage stays bounded under insert/remove churn
-/
namespace PT.C16
open Tree Pfx PMap
variable {w : Nat} {V : Type}

/-- every slot the map has ever allocated is at all times either part of the tree or available for
reuse — exactly once, never both, never neither; nothing beyond the arena is referenced -/
theorem slot_partition (ops : List (Op w V)) (a : Nat) :
    let m := run ops (PMap.empty : PMap w V)
    (a < m.alloc → (m.root.slots ++ m.free).count a = 1) ∧
    (m.alloc ≤ a → (m.root.slots ++ m.free).count a = 0) :=
  ⟨(run_inv ops).slots_lt a, (run_inv ops).slots_ge a⟩

/-- the tree's slots and the free list form a permutation of `0 .. alloc-1` -/
theorem slots_perm_range {m : PMap w V} (h : m.Inv) : (m.root.slots ++ m.free).Perm (List.range m.alloc) := by
  rw [List.perm_iff_count]
  intro a
  rw [List.count_range]
  by_cases c : a < m.alloc
  · simp [c, h.slots_lt a c]
  · simp [c, h.slots_ge a (by omega)]

theorem slots_nodup {m : PMap w V} (h : m.Inv) : (m.root.slots ++ m.free).Nodup :=
  (slots_perm_range h).nodup_iff.2 List.nodup_range

theorem slots_length (t : Tree w V) : t.slots.length = t.size := by
  induction t with
  | nil => rfl
  | node s p v l r ihl ihr => simp [Tree.slots, Tree.size, ihl, ihr]; omega

/-- arena length = nodes in the tree + free slots -/
theorem alloc_eq {m : PMap w V} (h : m.Inv) : m.alloc = m.root.size + m.free.length := by
  have := (slots_perm_range h).length_eq
  simp [slots_length] at this; omega

theorem takeSlots_nil (k alloc : Nat) : (takeSlots k [] alloc).1 = [] := by
  induction k generalizing alloc with
  | zero => rfl
  | succ k ih => simp only [takeSlots, List.getLast?_nil]; exact ih _

theorem insert_free_nil {m : PMap w V} (hm : m.free = []) (q : Pfx w) (x : V) : (m.insert q x).1.free = [] := by
  show (takeSlots _ m.free m.alloc).1 = []
  rw [hm]; exact takeSlots_nil _ _

/-- the next insertions reuse released slots: the arena grows only when the free list is empty -/
theorem takeSlots_grows_only_if_empty (k : Nat) (free : List Nat) (alloc : Nat)
    (h : (takeSlots k free alloc).2 ≠ alloc) : (takeSlots k free alloc).1 = [] := by
  induction k generalizing free alloc with
  | zero => simp [takeSlots] at h
  | succ k ih =>
    unfold takeSlots at h ⊢
    cases hg : free.getLast? with
    | none =>
      have hf : free = [] := List.getLast?_eq_none_iff.1 hg
      subst hf
      simp only [hg] at h ⊢
      exact takeSlots_nil _ _
    | some x => simp only [hg] at h ⊢; exact ih _ _ h

/-- one insertion: either the arena did not grow, or afterwards every slot is in the tree -/
theorem insert_alloc {m : PMap w V} (h : m.Inv) (q : Pfx w) (x : V) :
    (m.insert q x).1.alloc = m.alloc ∨ (m.insert q x).1.alloc = (m.insert q x).1.root.size := by
  by_cases hc : (m.insert q x).1.alloc = m.alloc
  · exact .inl hc
  · right
    have hi := insert_inv h q x
    have hf : (m.insert q x).1.free = [] := takeSlots_grows_only_if_empty _ _ _ hc
    have := alloc_eq hi
    rw [hf] at this; simpa using this

/-- storage is bounded by the largest number of nodes ever needed at one time: along any history the
arena length never exceeds the running maximum of the tree size (`peak`), no matter how many
insert / remove / retain cycles are executed -/
def peak (m0 : PMap w V) : List (Op w V) → Nat
  | [] => m0.root.size
  | op :: ops => max m0.root.size (peak (op.apply m0) ops)

theorem retain_alloc (m : PMap w V) (f : Pfx w → V → Bool) (stop : Option Nat) :
    (m.retain f stop).alloc = m.alloc := by
  unfold PMap.retain
  generalize m.retainCalls stop = calls
  induction calls generalizing m with
  | nil => rfl
  | cons c cs ih =>
    simp only [List.foldl_cons]
    rw [ih]
    unfold retainStep
    split <;> rfl

/-- a freshly collected map only ever inserted: its free list is empty -/
theorem collect_free_nil (xs : List (Pfx w × V)) : (PMap.collect xs).free = [] := by
  unfold PMap.collect
  suffices ∀ (m : PMap w V), m.free = [] → (xs.foldl (fun m e => (m.insert e.1 e.2).1) m).free = [] from
    this _ rfl
  induction xs with
  | nil => intro m hm; exact hm
  | cons e es ih => intro m hm; exact ih _ (insert_free_nil hm e.1 e.2)

theorem alloc_le_size_or_same {m : PMap w V} (h : m.Inv) (op : Op w V) :
    (op.apply m).alloc ≤ max m.alloc (op.apply m).root.size := by
  cases op with
  | insert q x => rcases insert_alloc h q x with e | e <;> simp only [Op.apply, e] <;> omega
  | orInsert q x =>
    simp only [Op.apply, PMap.orInsert]
    cases m.root.get q with
    | some v => exact Nat.le_max_left _ _
    | none => rcases insert_alloc h q x with e | e <;> simp only [e] <;> omega
  | modify q f => exact Nat.le_max_left _ _
  | remove q => exact Nat.le_max_left _ _
  | removeKeepTree q => exact Nat.le_max_left _ _
  | removeChildren q =>
    simp only [Op.apply, PMap.removeChildren]
    split
    · exact Nat.le_max_right _ _
    · split <;> exact Nat.le_max_left _ _
  | retain f stop => simp only [Op.apply, retain_alloc]; omega
  | clear => exact Nat.le_max_right _ _
  | collect xs =>
    have := alloc_eq (collect_inv xs)
    simp only [Op.apply]
    rw [collect_free_nil xs] at this; simp only [List.length_nil, Nat.add_zero] at this; omega
  | viewSet q cs x =>
    simp only [Op.apply, PMap.viewSetAt]
    split
    · next v _ => unfold PMap.viewSet; cases v.virt <;> exact Nat.le_max_left _ _
    · exact Nat.le_max_left _ _
  | viewRemove q cs =>
    simp only [Op.apply, PMap.viewRemoveAt]
    split
    · next v _ => unfold PMap.viewRemove; cases v.virt <;> exact Nat.le_max_left _ _
    · exact Nat.le_max_left _ _

theorem alloc_le_peak {m : PMap w V} (h : m.Inv) (ops : List (Op w V)) :
    (run ops m).alloc ≤ max m.alloc (peak m ops) := by
  induction ops generalizing m with
  | nil => exact Nat.le_max_left _ _
  | cons op ops ih =>
    have h1 := alloc_le_size_or_same h op
    have h2 := ih (apply_inv h op)
    have h3 : (op.apply m).root.size ≤ peak (op.apply m) ops := by
      cases ops
      · exact Nat.le_refl _
      · exact Nat.le_max_left _ _
    simp only [run, List.foldl_cons, peak] at h2 ⊢
    omega

/-- from the empty map: the arena never exceeds the peak number of nodes -/
theorem storage_bounded (ops : List (Op w V)) :
    (run ops (PMap.empty : PMap w V)).alloc ≤ peak (PMap.empty : PMap w V) ops := by
  have := alloc_le_peak (empty_inv : (PMap.empty : PMap w V).Inv) ops
  have h0 : (PMap.empty : PMap w V).alloc ≤ peak (PMap.empty : PMap w V) ops := by
    cases ops <;> simp [peak, PMap.empty, Tree.size] <;> omega
  omega


/-- a map emptied by `remove` / `retain` (any history over the canonical sub-alphabet that ends with no
entries) consists of the root node alone — it needs no more nodes than a new map … -/
theorem emptied_is_root_only (ops : List (Op w V)) (hops : ∀ op ∈ ops, op.Canonical)
    (he : (run ops (PMap.empty : PMap w V)).entries = []) :
    (run ops (PMap.empty : PMap w V)).root.size = 1 := by
  have hc := run_canonical ops hops
  obtain ⟨p, v, l, r, hr, _⟩ := (run_inv ops).tree.root
  unfold PMap.Canonical at hc
  unfold PMap.entries at he
  rw [hr] at hc he
  rw [entries_node] at he
  have hl : l.entries = [] := by
    simp only [List.append_eq_nil_iff] at he; exact he.1.2
  have hrr : r.entries = [] := by
    simp only [List.append_eq_nil_iff] at he; exact he.2
  have ln : l = .nil := by
    cases hl' : l.isNil with
    | true => cases l <;> simp_all [Tree.isNil]
    | false => exact absurd hl (Tree.entries_ne_nil hc.2.1 hl')
  have rn : r = .nil := by
    cases hr' : r.isNil with
    | true => cases r <;> simp_all [Tree.isNil]
    | false => exact absurd hrr (Tree.entries_ne_nil hc.2.2 hr')
  rw [hr, ln, rn]; rfl

/-- … and its arena is no larger than the most nodes it ever needed at one time -/
theorem emptied_arena_bounded (ops : List (Op w V)) :
    (run ops (PMap.empty : PMap w V)).alloc ≤ peak (PMap.empty : PMap w V) ops := storage_bounded ops


/-- a canonical non-root subtree holds at most `2·entries − 1` nodes … -/
theorem canon_size_le {t : Tree w V} (h : Tree.Canon false t) (hn : t.isNil = false) :
    t.size + 1 ≤ 2 * t.card := by
  induction t with
  | nil => cases hn
  | node s p v l r ihl ihr =>
    have hl : l.isNil = true ∨ l.size + 1 ≤ 2 * l.card := by
      cases hh : l.isNil with
      | true => exact .inl rfl
      | false => exact .inr (ihl h.2.1 hh)
    have hr : r.isNil = true ∨ r.size + 1 ≤ 2 * r.card := by
      cases hh : r.isNil with
      | true => exact .inl rfl
      | false => exact .inr (ihr h.2.2 hh)
    have zl : l.isNil = true → l.size = 0 ∧ l.card = 0 := by
      intro e; cases l <;> simp_all [Tree.isNil, Tree.size]
    have zr : r.isNil = true → r.size = 0 ∧ r.card = 0 := by
      intro e; cases r <;> simp_all [Tree.isNil, Tree.size]
    simp only [Tree.size, card_node]
    rcases h.1 with h1 | h1 | h1
    · cases h1
    · simp only [h1, ite_true]
      rcases hl with e | e <;> rcases hr with e' | e'
      · have := zl e; have := zr e'; omega
      · have := zl e; omega
      · have := zr e'; omega
      · omega
    · rcases hl with e | e
      · rw [e] at h1; cases h1.1
      · rcases hr with e' | e'
        · rw [e'] at h1; cases h1.2
        · split <;> omega

/-- … so a map modified only by insertion, `remove`, `retain` and `clear` never holds more than
`2·len() + 1` nodes: removals give back every node they make superfluous -/
theorem canonical_nodes_le (ops : List (Op w V)) (hops : ∀ op ∈ ops, op.Canonical) :
    (run ops (PMap.empty : PMap w V)).root.size ≤ 2 * (run ops (PMap.empty : PMap w V)).len + 1 := by
  have hc := run_canonical ops hops
  have hi := run_inv (w := w) (V := V) ops
  obtain ⟨p, v, l, r, hr, _⟩ := hi.tree.root
  unfold PMap.Canonical at hc
  unfold PMap.len
  rw [hi.count, hr]
  rw [hr] at hc
  have hl : l.size ≤ 2 * l.card := by
    cases hh : l.isNil with
    | true => cases l <;> simp_all [Tree.isNil, Tree.size]
    | false => have := canon_size_le hc.2.1 hh; omega
  have hr' : r.size ≤ 2 * r.card := by
    cases hh : r.isNil with
    | true => cases r <;> simp_all [Tree.isNil, Tree.size]
    | false => have := canon_size_le hc.2.2 hh; omega
  simp only [Tree.size, card_node]
  split <;> omega

end PT.C16
