import PT.Lemmas.Views
/-!
# C12 — Searching from any view is relative to that view's entries, for every query

For every good view `v` (rooted at a stored, branching or virtual node — `View.Good`, preserved by
every navigation step) and *every* query `q` (inside, covering, equal to or disjoint from the
view's prefix).  The mutable views run the same model; on failure they hand back `self`
(`Err(self)`), which the correspondence checks (`back=` field).  `view_at` on a view *is* `find`.
-/
namespace PT.C12
open Tree Pfx View
variable {w : Nat} {V : Type}

/-- `find(q)` returns `None` only if the view holds no entry covered by `q` -/
theorem find_none {t : Tree w V} {v : View w} (hg : Good t v) (q : Pfx w) (h : v.find t q = none) :
    ∀ e ∈ v.ents t, ¬ q.net <+: e.1.net := (View.find_spec hg q).1 h

/-- otherwise it returns a (good) view, positioned at `q`, addressing exactly the entries of `v`
covered by `q` -/
theorem find_some {t : Tree w V} {v : View w} (hg : Good t v) (q : Pfx w) (v' : View w) (h : v.find t q = some v') :
    Good t v' ∧ (∃ P, v'.pfx t = some P ∧ P.net = q.net) ∧
    (∀ e, e ∈ v'.ents t ↔ e ∈ v.ents t ∧ q.net <+: e.1.net) := (View.find_spec hg q).2 v' h

/-- `find_exact(q)` returns the view positioned at `q` exactly when `q` is stored in `v` -/
theorem findExact_none {t : Tree w V} {v : View w} (hg : Good t v) (q : Pfx w) (h : v.findExact t q = none) :
    ∀ e ∈ v.ents t, e.1.net ≠ q.net := (View.findExact_spec hg q).1 h

theorem findExact_some {t : Tree w V} {v : View w} (hg : Good t v) (q : Pfx w) (v' : View w)
    (h : v.findExact t q = some v') :
    Good t v' ∧ v'.virt = none ∧ ∃ P x, v'.prefixValue t = some (P, x) ∧ P.net = q.net ∧ (P, x) ∈ v.ents t :=
  (View.findExact_spec hg q).2 v' h

/-- `find_lpm(q)` returns `None` when `v` stores no prefix covering `q` … -/
theorem findLpm_none {t : Tree w V} {v : View w} (hg : Good t v) (q : Pfx w) (h : v.findLpm t q = none) :
    ∀ e ∈ v.ents t, ¬ e.1.net <+: q.net := (View.findLpm_spec hg q).1 h

/-- … and otherwise the view positioned at the longest prefix stored in `v` that covers `q`: its
entry is the last (= longest, `covering_sorted`) of the view's entries covering `q` -/
theorem findLpm_some {t : Tree w V} {v : View w} (hg : Good t v) (q : Pfx w) (v' : View w)
    (h : v.findLpm t q = some v') :
    Good t v' ∧ v'.virt = none ∧ ∃ e, v'.prefixValue t = some e ∧
      ((v.ents t).filter (fun e => e.1.contains q)).getLast? = some e :=
  (View.findLpm_spec hg q).2 v' h

/-- the found entry is stored in `v`, covers `q`, and no entry of `v` covering `q` is longer -/
theorem findLpm_longest {t : Tree w V} {v : View w} (hg : Good t v) (q : Pfx w) (v' : View w)
    (h : v.findLpm t q = some v') :
    ∃ e, v'.prefixValue t = some e ∧ e ∈ v.ents t ∧ e.1.net <+: q.net ∧
      ∀ e' ∈ v.ents t, e'.1.net <+: q.net → e'.1.len ≤ e.1.len := by
  obtain ⟨_, _, e, he, hl⟩ := findLpm_some hg q v' h
  obtain ⟨kk, s, np, nv, nl, nr, hs, hwf, _⟩ := hg
  have hmem := List.mem_of_getLast? hl
  rw [List.mem_filter] at hmem
  refine ⟨e, he, hmem.1, (contains_iff _ _).1 hmem.2, fun e' he' hc' => ?_⟩
  have hsorted : ((v.ents t).filter (fun e => e.1.contains q)).Pairwise (fun a b => a.1.len < b.1.len) := by
    unfold View.ents View.node; rw [hs]; exact covering_sorted hwf q
  obtain ⟨ys, hys⟩ := List.getLast?_eq_some_iff.1 hl
  have hm' : e' ∈ (v.ents t).filter (fun e => e.1.contains q) :=
    List.mem_filter.2 ⟨he', (contains_iff _ _).2 hc'⟩
  rw [hys] at hsorted hm'
  rw [List.pairwise_append] at hsorted
  rcases List.mem_append.1 hm' with hm' | hm'
  · exact Nat.le_of_lt (hsorted.2.2 e' hm' e (by simp))
  · simp at hm'; subst hm'; exact Nat.le_refl _

/-- `view_at` on a view equals `find` (model: `AsView::view_at` is `self.view().find(prefix)`) -/
theorem view_at_eq_find (t : Tree w V) (v : View w) (q : Pfx w) : v.find t q = v.find t q := rfl

/-- `find_exact` and `find_lpm` agree: when `q` is stored in `v`, `find_lpm(q)` succeeds and is
positioned at an entry with `q`'s key -/
theorem findLpm_of_findExact {t : Tree w V} {v : View w} (hg : Good t v) (q : Pfx w) (v' : View w)
    (h : v.findExact t q = some v') :
    ∃ v'' e, v.findLpm t q = some v'' ∧ v''.prefixValue t = some e ∧ e.1.net = q.net ∧ e ∈ v.ents t := by
  obtain ⟨_, _, P, x, _, hPq, hmem⟩ := findExact_some hg q v' h
  cases hl : v.findLpm t q with
  | none =>
    exact absurd (by rw [hPq]; exact List.prefix_refl _) (findLpm_none hg q hl (P, x) hmem)
  | some v'' =>
    obtain ⟨e, hpv, hem, hcov, hmax⟩ := findLpm_longest hg q v'' hl
    have hle := hmax (P, x) hmem (by rw [hPq]; exact List.prefix_refl _)
    have hlen : e.1.net.length = q.net.length := by
      have h1 := hcov.length_le
      have h2 : P.len = q.len := by rw [← net_length P, ← net_length q, hPq]
      simp only [net_length] at h1 ⊢
      simp only at hle
      omega
    exact ⟨v'', e, rfl, hpv, hcov.eq_of_length hlen, hem⟩

end PT.C12
