import PT.Lemmas.MutRefs
import PT.Lemmas.Union
/-!
# C05 — Union yields each prefix of either operand once, in order, correctly tagged

`SetOps.union a b` is the index machine of `Union::next` / `UnionMut::next` started from the real
nodes `a`, `b` of the two views (any well-formed subtrees: whole maps, sub-tries at stored, branching
or virtual nodes, equal / nested / disjoint roots, any two value types).  `UItem.view` is what
`UnionItem` (resp. the `union_mut` tuple) exposes.  `unionS` is the sorted merge of the two entry
lists: both lists are strictly ascending in the key order (C03), a key found in both gives one
`both` item reporting the left operand's stored prefix, other keys give `left` / `right` items.
-/
namespace PT.C05
open Tree Pfx SetOps
variable {w : Nat} {L R : Type}

/-- union = sorted merge of the two entry lists, with the annotations of C08 -/
theorem union_spec (a : Tree w L) (b : Tree w R) (hwa : HasWF a) (hwb : HasWF b) :
    (union a b).filterMap UItem.view =
      unionS (annOf b.slotEntries none) (annOf a.slotEntries none) a.slotEntries b.slotEntries :=
  union_eq a b hwa hwb

/-- the machine never yields an item without a value on either side (`get_next` returns `None` for
a value-less pair and the loop continues) -/
theorem uItem_has_value (p : Pfx w) (l : Option (Nat × L)) (r : Option (Nat × R)) (aL : Lpm w L) (aR : Lpm w R)
    (i : UItem w L R) (h : uItem p l r aL aR = some i) : i.l.isSome ∨ i.r.isSome := by
  unfold uItem at h
  cases l <;> cases r <;> simp at h <;> subst h <;> simp

/-- the merge of two ascending lists is ascending: one item per key, in lexicographic order -/
theorem unionS_sorted (fL : Pfx w → Lpm w R) (fR : Pfx w → Lpm w L) :
    ∀ (n : Nat) (A : KL w L) (B : KL w R), A.length + B.length ≤ n →
    A.Pairwise (fun x y => Spec.keyLt (keyOf x) (keyOf y) = true) →
    B.Pairwise (fun x y => Spec.keyLt (keyOf x) (keyOf y) = true) →
    (unionS fL fR A B).Pairwise (fun x y => Spec.keyLt x.key y.key = true) ∧
    ∀ u ∈ unionS fL fR A B, (∃ x ∈ A, keyOf x = u.key) ∨ (∃ y ∈ B, keyOf y = u.key) := by
  intro n
  induction n with
  | zero =>
    intro A B hn _ _
    have h1 : A = [] := List.length_eq_zero_iff.1 (by omega)
    have h2 : B = [] := List.length_eq_zero_iff.1 (by omega)
    subst h1 h2
    simp [unionS_nil_left]
  | succ n ih =>
    intro A B hn hA hB
    cases A with
    | nil =>
      rw [unionS_nil_left]
      refine ⟨?_, ?_⟩
      · rw [List.pairwise_map]; exact hB
      · intro u hu
        obtain ⟨y, hy, rfl⟩ := List.mem_map.1 hu
        exact .inr ⟨y, hy, rfl⟩
    | cons a as =>
      cases B with
      | nil =>
        rw [unionS_nil_right]
        refine ⟨?_, ?_⟩
        · rw [List.pairwise_map]; exact hA
        · intro u hu
          obtain ⟨x, hx, rfl⟩ := List.mem_map.1 hu
          exact .inl ⟨x, hx, rfl⟩
      | cons b bs =>
        rw [List.pairwise_cons] at hA hB
        rw [unionS_cons_cons]
        by_cases he : keyOf a = keyOf b
        · simp only [he, ite_true]
          obtain ⟨i1, i2⟩ := ih as bs (by simp at hn ⊢; omega) hA.2 hB.2
          refine ⟨List.pairwise_cons.2 ⟨fun u hu => ?_, i1⟩, fun u hu => ?_⟩
          · show Spec.keyLt a.2.1.net u.key = true
            rcases i2 u hu with ⟨x, hx, hk⟩ | ⟨y, hy, hk⟩
            · rw [← hk]; exact hA.1 x hx
            · rw [← hk]; have := hB.1 y hy; rw [← he] at this; exact this
          · rcases List.mem_cons.1 hu with rfl | hu
            · exact .inl ⟨a, List.mem_cons_self .., rfl⟩
            · rcases i2 u hu with ⟨x, hx, hk⟩ | ⟨y, hy, hk⟩
              · exact .inl ⟨x, List.mem_cons_of_mem _ hx, hk⟩
              · exact .inr ⟨y, List.mem_cons_of_mem _ hy, hk⟩
        · simp only [he, ite_false]
          by_cases hlt : Spec.keyLt (keyOf a) (keyOf b) = true
          · simp only [hlt, ite_true]
            obtain ⟨i1, i2⟩ := ih as (b :: bs) (by simp at hn ⊢; omega) hA.2 (List.pairwise_cons.2 hB)
            refine ⟨List.pairwise_cons.2 ⟨fun u hu => ?_, i1⟩, fun u hu => ?_⟩
            · show Spec.keyLt a.2.1.net u.key = true
              rcases i2 u hu with ⟨x, hx, hk⟩ | ⟨y, hy, hk⟩
              · rw [← hk]; exact hA.1 x hx
              · rw [← hk]
                rcases List.mem_cons.1 hy with rfl | hy
                · exact hlt
                · exact Spec.keyLt_trans hlt (hB.1 y hy)
            · rcases List.mem_cons.1 hu with rfl | hu
              · exact .inl ⟨a, List.mem_cons_self .., rfl⟩
              · rcases i2 u hu with ⟨x, hx, hk⟩ | ⟨y, hy, hk⟩
                · exact .inl ⟨x, List.mem_cons_of_mem _ hx, hk⟩
                · exact .inr ⟨y, hy, hk⟩
          · simp only [hlt, Bool.false_eq_true, ite_false]
            -- keys differ and a is not before b: b is before a
            have hba : Spec.keyLt (keyOf b) (keyOf a) = true := by
              by_cases hc1 : keyOf a <+: keyOf b
              · exact absurd (Spec.keyLt_of_proper_prefix hc1 he) hlt
              · by_cases hc2 : keyOf b <+: keyOf a
                · exact Spec.keyLt_of_proper_prefix hc2 (fun e => he e.symm)
                · exact keyLt_total_incomp hc1 hc2 (by simpa using hlt)
            obtain ⟨i1, i2⟩ := ih (a :: as) bs (by simp at hn ⊢; omega) (List.pairwise_cons.2 hA) hB.2
            refine ⟨List.pairwise_cons.2 ⟨fun u hu => ?_, i1⟩, fun u hu => ?_⟩
            · show Spec.keyLt b.2.1.net u.key = true
              rcases i2 u hu with ⟨x, hx, hk⟩ | ⟨y, hy, hk⟩
              · rw [← hk]
                rcases List.mem_cons.1 hx with rfl | hx
                · exact hba
                · exact Spec.keyLt_trans hba (hA.1 x hx)
              · rw [← hk]; exact hB.1 y hy
            · rcases List.mem_cons.1 hu with rfl | hu
              · exact .inr ⟨b, List.mem_cons_self .., rfl⟩
              · rcases i2 u hu with ⟨x, hx, hk⟩ | ⟨y, hy, hk⟩
                · exact .inl ⟨x, hx, hk⟩
                · exact .inr ⟨y, List.mem_cons_of_mem _ hy, hk⟩

/-- the slot-carrying entry list of a well-formed subtree is strictly ascending -/
theorem slotEntries_sorted {t : Tree w L} (h : HasWF t) :
    t.slotEntries.Pairwise (fun x y => Spec.keyLt (keyOf x) (keyOf y) = true) := by
  obtain ⟨k, hk⟩ := h
  have := entries_sorted hk
  rw [← slotEntries_snd, List.pairwise_map] at this
  exact this

/-- union yields its items in strictly ascending lexicographic order (so each prefix at most once),
and only prefixes stored in one of the two views -/
theorem union_sorted (a : Tree w L) (b : Tree w R) (hwa : HasWF a) (hwb : HasWF b) :
    ((union a b).filterMap UItem.view).Pairwise (fun x y => Spec.keyLt x.key y.key = true) := by
  rw [union_spec a b hwa hwb]
  exact (unionS_sorted _ _ _ _ _ (Nat.le_refl _) (slotEntries_sorted hwa) (slotEntries_sorted hwb)).1


/-- which stored representation an item reports: a one-sided item the representation stored on its
side, a `Both` item the one stored in the **left** operand (one of the two stored representations);
the values (and slots) are those stored under that key on the respective sides -/
theorem unionS_item_repr (fL : Pfx w → Lpm w R) (fR : Pfx w → Lpm w L) :
    ∀ (n : Nat) (A : KL w L) (B : KL w R), A.length + B.length ≤ n → ∀ u ∈ unionS fL fR A B,
      (match u with
       | .left p l _ => (l.1, p, l.2) ∈ A
       | .right p _ r => (r.1, p, r.2) ∈ B
       | .both p l r => (l.1, p, l.2) ∈ A ∧ ∃ pr, (r.1, pr, r.2) ∈ B ∧ pr.net = p.net) := by
  intro n
  induction n with
  | zero =>
    intro A B h u hu
    have hA : A = [] := List.eq_nil_of_length_eq_zero (by omega)
    have hB : B = [] := List.eq_nil_of_length_eq_zero (by omega)
    subst hA hB
    simp [unionS_nil_left] at hu
  | succ n ih =>
    intro A B h u hu
    cases A with
    | nil =>
      rw [unionS_nil_left] at hu
      obtain ⟨b, hb, rfl⟩ := List.mem_map.1 hu
      exact hb
    | cons a as =>
      cases B with
      | nil =>
        rw [unionS_nil_right] at hu
        obtain ⟨x, hx, rfl⟩ := List.mem_map.1 hu
        exact hx
      | cons b bs =>
        rw [unionS_cons_cons] at hu
        simp only [List.length_cons] at h
        split at hu
        · next hk =>
          rcases List.mem_cons.1 hu with rfl | hu
          · exact ⟨List.mem_cons_self .., b.2.1, List.mem_cons_self .., hk.symm⟩
          · have := ih as bs (by omega) u hu
            cases u with
            | left p l x => exact List.mem_cons_of_mem _ this
            | right p x r => exact List.mem_cons_of_mem _ this
            | both p l r =>
              obtain ⟨h1, pr, h2, h3⟩ := this
              exact ⟨List.mem_cons_of_mem _ h1, pr, List.mem_cons_of_mem _ h2, h3⟩
        · split at hu
          · rcases List.mem_cons.1 hu with rfl | hu
            · exact List.mem_cons_self ..
            · have := ih as (b :: bs) (by simp only [List.length_cons]; omega) u hu
              cases u with
              | left p l x => exact List.mem_cons_of_mem _ this
              | right p x r => exact this
              | both p l r =>
                obtain ⟨h1, pr, h2, h3⟩ := this
                exact ⟨List.mem_cons_of_mem _ h1, pr, h2, h3⟩
          · rcases List.mem_cons.1 hu with rfl | hu
            · exact List.mem_cons_self ..
            · have := ih (a :: as) bs (by simp only [List.length_cons]; omega) u hu
              cases u with
              | left p l x => exact this
              | right p x r => exact List.mem_cons_of_mem _ this
              | both p l r =>
                obtain ⟨h1, pr, h2, h3⟩ := this
                exact ⟨h1, pr, List.mem_cons_of_mem _ h2, h3⟩

/-- the same for the machine: every item of `union a b` reports a representation stored in an operand -/
theorem union_item_repr (a : Tree w L) (b : Tree w R) (hwa : HasWF a) (hwb : HasWF b) :
    ∀ u ∈ (union a b).filterMap UItem.view,
      (match u with
       | .left p l _ => (l.1, p, l.2) ∈ a.slotEntries
       | .right p _ r => (r.1, p, r.2) ∈ b.slotEntries
       | .both p l r => (l.1, p, l.2) ∈ a.slotEntries ∧ ∃ pr, (r.1, pr, r.2) ∈ b.slotEntries ∧ pr.net = p.net) := by
  rw [union_spec a b hwa hwb]
  exact unionS_item_repr _ _ _ _ _ (Nat.le_refl _)


/-- exactly one item per stored prefix: projecting the items to their left (right) components gives
back the left (right) operand's entry slots — every entry of either view appears in exactly one item -/
theorem union_projections (a : Tree w L) (b : Tree w R) (hwa : HasWF a) (hwb : HasWF b) :
    ((union a b).filterMap UItem.view).filterMap UV.lslot = a.slotEntries.map (·.1) ∧
    ((union a b).filterMap UItem.view).filterMap UV.rslot = b.slotEntries.map (·.1) := by
  rw [union_spec a b hwa hwb]
  exact unionS_lslots _ _ _ _ _ (Nat.le_refl _)

/-! ### counting law -/

/-- is the item a `Both`? -/
def UV.isBoth : UV w L R → Bool
  | .both _ _ _ => true
  | _ => false

/-- counting law of the merge: every entry of either list is accounted for by exactly one item,
a `both` item accounting for two entries -/
theorem unionS_length (fL : Pfx w → Lpm w R) (fR : Pfx w → Lpm w L) (A : KL w L) (B : KL w R) :
    (unionS fL fR A B).length + (unionS fL fR A B).countP UV.isBoth = A.length + B.length := by
  fun_induction unionS fL fR A B with
  | case1 bs =>
    have : (bs.map (mkRight fR)).countP UV.isBoth = 0 := by
      rw [List.countP_eq_zero]; intro u hu; rw [List.mem_map] at hu; obtain ⟨b, _, rfl⟩ := hu; simp [mkRight, UV.isBoth]
    rw [this]; simp only [List.length_map, List.length_nil, Nat.add_zero, Nat.zero_add]
  | case2 a as =>
    have : ((a :: as).map (mkLeft fL)).countP UV.isBoth = 0 := by
      rw [List.countP_eq_zero]; intro u hu; rw [List.mem_map] at hu; obtain ⟨b, _, rfl⟩ := hu; simp [mkLeft, UV.isBoth]
    rw [this]; simp only [List.length_map, List.length_nil, Nat.add_zero]
  | case3 a as b bs h ih =>
    simp only [List.length_cons, List.countP_cons, UV.isBoth, ite_true]; omega
  | case4 a as b bs h1 h2 ih =>
    simp only [List.length_cons, List.countP_cons, mkLeft, UV.isBoth] at ih ⊢; simp at ih ⊢; omega
  | case5 a as b bs h1 h2 ih =>
    simp only [List.length_cons, List.countP_cons, mkRight, UV.isBoth] at ih ⊢; simp at ih ⊢; omega

/-- `|union(a, b)| + #Both = |a| + |b|` -/
theorem union_length (a : Tree w L) (b : Tree w R) (hwa : HasWF a) (hwb : HasWF b) :
    ((union a b).filterMap UItem.view).length + ((union a b).filterMap UItem.view).countP UV.isBoth
      = a.slotEntries.length + b.slotEntries.length := by
  rw [union_spec a b hwa hwb]; exact unionS_length _ _ _ _

end PT.C05
