import PT.Lemmas.Refine
import PT.Lemmas.Map
/-!
# C01 — Map/set contents match an abstract map after any operation history

The abstract map is the set of entries `m.entries` (pairs of stored representation and value), with
at most one entry per key `net p` (network bits; their number is the prefix length).  Each theorem
states, for every state satisfying the tree invariant `TreeWF` (established for `empty`, preserved
by every operation below — hence for every reachable state of these operations), what the entries
are after the call and that the call returns what the abstract map returns.  Sets are `V = Unit`.
-/
namespace PT.C01
open Tree Pfx
variable {w : Nat} {V : Type}

/-- at most one entry per key -/
theorem key_unique {m : PMap w V} (h : m.TreeWF) {e1 e2 : Pfx w × V}
    (h1 : e1 ∈ m.entries) (h2 : e2 ∈ m.entries) (hk : e1.1.net = e2.1.net) : e1 = e2 :=
  WF.key_inj h.wf h1 h2 hk

/-- `get` / `get_mut` / set `contains`: the abstract map's answer for *every* query prefix -/
theorem get_spec {m : PMap w V} (h : m.TreeWF) (q : Pfx w) (x : V) :
    m.get q = some x ↔ ∃ p, (p, x) ∈ m.entries ∧ p.net = q.net := get_iff h.wf q x

theorem get_none_spec {m : PMap w V} (h : m.TreeWF) (q : Pfx w) :
    m.get q = none ↔ ∀ e ∈ m.entries, e.1.net ≠ q.net := get_none_iff h.wf q

/-- `get_key_value` / set `get` / `Entry::key`: the stored representation, never the query -/
theorem getKeyValue_spec {m : PMap w V} (h : m.TreeWF) (q p : Pfx w) (x : V) :
    m.getKeyValue q = some (p, x) ↔ (p, x) ∈ m.entries ∧ p.net = q.net := getKeyValue_iff h.wf q p x

theorem containsKey_spec {m : PMap w V} (h : m.TreeWF) (q : Pfx w) :
    m.containsKey q = true ↔ ∃ e ∈ m.entries, e.1.net = q.net := containsKey_iff h.wf q

/-- host bits of a query are irrelevant -/
theorem get_congr (m : PMap w V) {q q' : Pfx w} (hq : q.net = q'.net) : m.get q = m.get q' := by
  unfold PMap.get Tree.get; rw [findNode_congr hq]

theorem empty_spec : (PMap.empty : PMap w V).TreeWF ∧ (PMap.empty : PMap w V).entries = [] :=
  ⟨PMap.empty_treeWF, rfl⟩

/-- `insert` (= `Entry::insert`, = `OccupiedEntry::insert` when occupied, = `VacantEntry::insert*`
when vacant): returns the previous value; afterwards the key holds `(q, x)` — the representation
passed — and every other entry is untouched -/
theorem insert_spec {m : PMap w V} (h : m.TreeWF) (q : Pfx w) (x : V) :
    (m.insert q x).1.TreeWF ∧ (m.insert q x).2 = m.get q ∧
    ∀ e, e ∈ (m.insert q x).1.entries ↔ e = (q, x) ∨ (e ∈ m.entries ∧ e.1.net ≠ q.net) :=
  ⟨PMap.insert_treeWF h q x, insert_old _ _ _ _ _,
    fun e => insert_mem h.wf q x _ _ (h.rootCovers q) h.root_ne_nil e⟩

/-- `or_insert` / `or_insert_with` / `or_default`: insert only when vacant; the result is the
resident value; an occupied entry keeps representation and value -/
theorem orInsert_spec {m : PMap w V} (h : m.TreeWF) (q : Pfx w) (x : V) :
    (m.orInsert q x).1.TreeWF ∧
    (∀ v, m.get q = some v → (m.orInsert q x) = (m, v)) ∧
    (m.get q = none → (m.orInsert q x).2 = x ∧
      ∀ e, e ∈ (m.orInsert q x).1.entries ↔ e = (q, x) ∨ e ∈ m.entries) := by
  unfold PMap.orInsert
  refine ⟨?_, ?_, ?_⟩
  · cases hg : m.root.get q with
    | none => exact PMap.insert_treeWF h q x
    | some v => exact h
  · intro v hv; unfold PMap.get at hv; simp [hv]
  · intro hn
    have hn' : m.root.get q = none := hn
    simp only [hn']
    refine ⟨trivial, fun e => ?_⟩
    rw [(insert_spec h q x).2.2 e]
    constructor
    · rintro (h1 | h1); exact .inl h1; exact .inr h1.1
    · rintro (h1 | h1); exact .inl h1
      exact .inr ⟨h1, (get_none_spec h q).1 hn e h1⟩

/-- `remove`: returns the stored value; removes exactly the entry with the query's key -/
theorem remove_spec {m : PMap w V} (h : m.TreeWF) (q : Pfx w) :
    (m.remove q).1.TreeWF ∧ (m.remove q).2 = m.get q ∧
    ∀ e, e ∈ (m.remove q).1.entries ↔ e ∈ m.entries ∧ e.1.net ≠ q.net :=
  ⟨PMap.remove_treeWF h q, remove_val _ _ _, fun e => remove_mem h.wf q false e⟩

/-- `remove_keep_tree` and `OccupiedEntry::remove` -/
theorem removeKeepTree_spec {m : PMap w V} (h : m.TreeWF) (q : Pfx w) :
    (m.removeKeepTree q).1.TreeWF ∧ (m.removeKeepTree q).2 = m.get q ∧
    ∀ e, e ∈ (m.removeKeepTree q).1.entries ↔ e ∈ m.entries ∧ e.1.net ≠ q.net :=
  ⟨PMap.removeKeepTree_treeWF h q, rfl, fun e => takeValue_mem h.wf q e⟩

/-- writes through `get_mut`, `Entry::get_mut`, `OccupiedEntry::get_mut`, `and_modify`: the value of
exactly the addressed entry changes, its stored representation and all other entries do not -/
theorem modify_spec {m : PMap w V} (h : m.TreeWF) (q : Pfx w) (f : V → V) :
    (m.modify q f).TreeWF ∧
    ∀ e, e ∈ (m.modify q f).entries ↔
      (e ∈ m.entries ∧ e.1.net ≠ q.net) ∨ (∃ x, (e.1, x) ∈ m.entries ∧ e.1.net = q.net ∧ e.2 = f x) :=
  ⟨PMap.modify_treeWF h q f, fun e => modifyValue_mem h.wf q f e⟩

/-- `clear` -/
theorem clear_spec (m : PMap w V) : m.clear.TreeWF ∧ m.clear.entries = [] := empty_spec

/-- `collect` (`FromIterator`): the invariant holds for every input list -/
theorem collect_treeWF (xs : List (Pfx w × V)) : (PMap.collect xs).TreeWF := by
  unfold PMap.collect
  suffices ∀ (m : PMap w V), m.TreeWF → (xs.foldl (fun m e => (m.insert e.1 e.2).1) m).TreeWF from
    this _ PMap.empty_treeWF
  induction xs with
  | nil => intro m h; exact h
  | cons e es ih => intro m h; exact ih _ (PMap.insert_treeWF h e.1 e.2)

/-- non-vacuity: a concrete reachable state with host bits and a leftover value-less node -/
example : ((((PMap.empty : PMap 8 Nat).insert ⟨0x5f#8, 4, by omega⟩ 1).1.insert ⟨0x40#8, 2, by omega⟩ 2).1.removeKeepTree ⟨0x50#8, 4, by omega⟩).1.TreeWF :=
  PMap.removeKeepTree_treeWF (PMap.insert_treeWF (PMap.insert_treeWF PMap.empty_treeWF _ _) _ _) _


/-! ### refinement of the abstract map (`PT/Spec.lean`: a key-sorted association list) -/

/-- **abstract-map refinement**: after *any* finite history of `insert`, `entry().or_insert`, value
writes, `remove`, `remove_keep_tree`, `remove_children`, completed `retain`, `clear`, `collect`,
and `set` / `remove` through mutable views (`view_mut_at` + `left`/`right` steps), starting from the
empty map, the entry list of the trie is the abstract association list to which the same calls were
applied (`PMap.specRun` folds `PMap.specApply`: `Spec.update`, `Spec.erase`, `Spec.modify`, …; the
concrete state is threaded along only to resolve the key a view write addresses, since a view may
sit on a value-less node that the abstract map cannot see) -/
theorem history_refines_abstract_map (ops : List (PMap.Op w V)) (hc : ∀ op ∈ ops, op.Complete) :
    (PMap.run ops (PMap.empty : PMap w V)).entries = PMap.specRun ops PMap.empty [] :=
  PMap.history_refines ops hc

/-- … and `get` / `get_key_value` / `contains_key` on that state answer what the abstract map answers -/
theorem get_after_history (ops : List (PMap.Op w V)) (hc : ∀ op ∈ ops, op.Complete) (q : Pfx w) :
    (PMap.run ops (PMap.empty : PMap w V)).getKeyValue q = Spec.lookup (PMap.specRun ops PMap.empty []) q := by
  rw [← PMap.history_refines ops hc]
  exact PMap.getKeyValue_refines (PMap.run_inv ops).tree q

/-- one step of the refinement, from any state satisfying the invariant -/
theorem step_refines {m : PMap w V} (h : m.Inv) (op : PMap.Op w V) (hc : op.Complete) :
    (op.apply m).entries = PMap.specApply m m.entries op := PMap.apply_refines h op hc

/-- `TrieViewMut::set(x)` on a view at a real node: the entry under the node's key becomes
`(node's existing prefix, x)`, everything else is untouched; on a virtual position nothing changes -/
theorem viewSet_spec {m : PMap w V} (h : m.TreeWF) {v : View w} (hg : View.Good m.root v) (x : V) (e : Pfx w × V) :
    e ∈ (m.viewSet v x).1.entries ↔
      (match v.virt, (v.node m.root).pfx? with
       | none, some np => (e ∈ m.entries ∧ e.1.net ≠ np.net) ∨ e = (np, x)
       | _, _ => e ∈ m.entries) := PMap.viewSet_mem h hg x e

/-- `TrieViewMut::remove()`: exactly the view's own entry is removed -/
theorem viewRemove_spec {m : PMap w V} (h : m.TreeWF) {v : View w} (hg : View.Good m.root v) (e : Pfx w × V) :
    e ∈ (m.viewRemove v).1.entries ↔
      (match v.virt, (v.node m.root).pfx? with
       | none, some np => e ∈ m.entries ∧ e.1.net ≠ np.net
       | _, _ => e ∈ m.entries) := PMap.viewRemove_mem h hg e

/-- the lookup of the abstract map: the entry with the key of `q`, if any -/
theorem get_eq_spec {m : PMap w V} (h : m.TreeWF) (q : Pfx w) :
    m.getKeyValue q = Spec.lookup m.entries q ∧ m.get q = (Spec.lookup m.entries q).map (·.2) :=
  ⟨PMap.getKeyValue_refines h q, PMap.get_refines h q⟩

/-- non-vacuity of the history theorem: a history with a re-insert under a different representation,
a value write, a structural and a keep-tree removal and a completed retain -/
example : ∀ op ∈ ([.insert ⟨0x5f#8, 4, by omega⟩ 1, .insert ⟨0x50#8, 4, by omega⟩ 2, .modify ⟨0x51#8, 4, by omega⟩ (· + 1),
    .removeKeepTree ⟨0x40#8, 2, by omega⟩, .retain (fun _ v => v != 0) none, .remove ⟨0x50#8, 4, by omega⟩,
    .viewSet ⟨0x40#8, 1, by omega⟩ [true] 7] : List (PMap.Op 8 Nat)),
    op.Complete := by
  intro op h
  simp only [List.mem_cons, List.mem_nil_iff, or_false] at h
  rcases h with h | h | h | h | h | h | h <;> subst h <;> first | trivial | rfl

end PT.C01
