import PT.Lemmas.Map
/-!
# C01 — Map/set contents match an abstract map after any operation history

The abstract map is the set of entries `m.entries` (pairs of stored representation and value), with
at most one entry per key `net p` (network bits; their number is the prefix length).  Each theorem
states, for every state satisfying the tree invariant `TreeWF` (established for `empty`, preserved
by every operation below — hence for every reachable state of these operations), what the entries
are after the call and that the call returns what the abstract map returns.  Sets are `V = Unit`.
-/
namespace PT.C01
open Tree Pfx
variable {w : Nat} {V : Type}

/-- at most one entry per key -/
theorem key_unique {m : PMap w V} (h : m.TreeWF) {e1 e2 : Pfx w × V}
    (h1 : e1 ∈ m.entries) (h2 : e2 ∈ m.entries) (hk : e1.1.net = e2.1.net) : e1 = e2 :=
  WF.key_inj h.wf h1 h2 hk

/-- `get` / `get_mut` / set `contains`: the abstract map's answer for *every* query prefix -/
theorem get_spec {m : PMap w V} (h : m.TreeWF) (q : Pfx w) (x : V) :
    m.get q = some x ↔ ∃ p, (p, x) ∈ m.entries ∧ p.net = q.net := get_iff h.wf q x

theorem get_none_spec {m : PMap w V} (h : m.TreeWF) (q : Pfx w) :
    m.get q = none ↔ ∀ e ∈ m.entries, e.1.net ≠ q.net := get_none_iff h.wf q

/-- `get_key_value` / set `get` / `Entry::key`: the stored representation, never the query -/
theorem getKeyValue_spec {m : PMap w V} (h : m.TreeWF) (q p : Pfx w) (x : V) :
    m.getKeyValue q = some (p, x) ↔ (p, x) ∈ m.entries ∧ p.net = q.net := getKeyValue_iff h.wf q p x

theorem containsKey_spec {m : PMap w V} (h : m.TreeWF) (q : Pfx w) :
    m.containsKey q = true ↔ ∃ e ∈ m.entries, e.1.net = q.net := containsKey_iff h.wf q

/-- host bits of a query are irrelevant -/
theorem get_congr (m : PMap w V) {q q' : Pfx w} (hq : q.net = q'.net) : m.get q = m.get q' := by
  unfold PMap.get Tree.get; rw [findNode_congr hq]

theorem empty_spec : (PMap.empty : PMap w V).TreeWF ∧ (PMap.empty : PMap w V).entries = [] :=
  ⟨PMap.empty_treeWF, rfl⟩

/-- `insert` (= `Entry::insert`, = `OccupiedEntry::insert` when occupied, = `VacantEntry::insert*`
when vacant): returns the previous value; afterwards the key holds `(q, x)` — the representation
passed — and every other entry is untouched -/
theorem insert_spec {m : PMap w V} (h : m.TreeWF) (q : Pfx w) (x : V) :
    (m.insert q x).1.TreeWF ∧ (m.insert q x).2 = m.get q ∧
    ∀ e, e ∈ (m.insert q x).1.entries ↔ e = (q, x) ∨ (e ∈ m.entries ∧ e.1.net ≠ q.net) :=
  ⟨PMap.insert_treeWF h q x, insert_old _ _ _ _ _,
    fun e => insert_mem h.wf q x _ _ (h.rootCovers q) h.root_ne_nil e⟩

/-- `or_insert` / `or_insert_with` / `or_default`: insert only when vacant; the result is the
resident value; an occupied entry keeps representation and value -/
theorem orInsert_spec {m : PMap w V} (h : m.TreeWF) (q : Pfx w) (x : V) :
    (m.orInsert q x).1.TreeWF ∧
    (∀ v, m.get q = some v → (m.orInsert q x) = (m, v)) ∧
    (m.get q = none → (m.orInsert q x).2 = x ∧
      ∀ e, e ∈ (m.orInsert q x).1.entries ↔ e = (q, x) ∨ e ∈ m.entries) := by
  unfold PMap.orInsert
  refine ⟨?_, ?_, ?_⟩
  · cases hg : m.root.get q with
    | none => exact PMap.insert_treeWF h q x
    | some v => exact h
  · intro v hv; unfold PMap.get at hv; simp [hv]
  · intro hn
    have hn' : m.root.get q = none := hn
    simp only [hn']
    refine ⟨trivial, fun e => ?_⟩
    rw [(insert_spec h q x).2.2 e]
    constructor
    · rintro (h1 | h1); exact .inl h1; exact .inr h1.1
    · rintro (h1 | h1); exact .inl h1
      exact .inr ⟨h1, (get_none_spec h q).1 hn e h1⟩

/-- `remove`: returns the stored value; removes exactly the entry with the query's key -/
theorem remove_spec {m : PMap w V} (h : m.TreeWF) (q : Pfx w) :
    (m.remove q).1.TreeWF ∧ (m.remove q).2 = m.get q ∧
    ∀ e, e ∈ (m.remove q).1.entries ↔ e ∈ m.entries ∧ e.1.net ≠ q.net :=
  ⟨PMap.remove_treeWF h q, remove_val _ _ _, fun e => remove_mem h.wf q false e⟩

/-- `remove_keep_tree` and `OccupiedEntry::remove` -/
theorem removeKeepTree_spec {m : PMap w V} (h : m.TreeWF) (q : Pfx w) :
    (m.removeKeepTree q).1.TreeWF ∧ (m.removeKeepTree q).2 = m.get q ∧
    ∀ e, e ∈ (m.removeKeepTree q).1.entries ↔ e ∈ m.entries ∧ e.1.net ≠ q.net :=
  ⟨PMap.removeKeepTree_treeWF h q, rfl, fun e => takeValue_mem h.wf q e⟩

/-- writes through `get_mut`, `Entry::get_mut`, `OccupiedEntry::get_mut`, `and_modify`: the value of
exactly the addressed entry changes, its stored representation and all other entries do not -/
theorem modify_spec {m : PMap w V} (h : m.TreeWF) (q : Pfx w) (f : V → V) :
    (m.modify q f).TreeWF ∧
    ∀ e, e ∈ (m.modify q f).entries ↔
      (e ∈ m.entries ∧ e.1.net ≠ q.net) ∨ (∃ x, (e.1, x) ∈ m.entries ∧ e.1.net = q.net ∧ e.2 = f x) :=
  ⟨PMap.modify_treeWF h q f, fun e => modifyValue_mem h.wf q f e⟩

/-- `clear` -/
theorem clear_spec (m : PMap w V) : m.clear.TreeWF ∧ m.clear.entries = [] := empty_spec

/-- `collect` (`FromIterator`): the invariant holds for every input list -/
theorem collect_treeWF (xs : List (Pfx w × V)) : (PMap.collect xs).TreeWF := by
  unfold PMap.collect
  suffices ∀ (m : PMap w V), m.TreeWF → (xs.foldl (fun m e => (m.insert e.1 e.2).1) m).TreeWF from
    this _ PMap.empty_treeWF
  induction xs with
  | nil => intro m h; exact h
  | cons e es ih => intro m h; exact ih _ (PMap.insert_treeWF h e.1 e.2)

/-- non-vacuity: a concrete reachable state with host bits and a leftover value-less node -/
example : ((((PMap.empty : PMap 8 Nat).insert ⟨0x5f#8, 4, by omega⟩ 1).1.insert ⟨0x40#8, 2, by omega⟩ 2).1.removeKeepTree ⟨0x50#8, 4, by omega⟩).1.TreeWF :=
  PMap.removeKeepTree_treeWF (PMap.insert_treeWF (PMap.insert_treeWF PMap.empty_treeWF _ _) _ _) _

end PT.C01
