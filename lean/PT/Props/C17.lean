import PT.Lemmas.Ipnet
import PT.Lemmas.Bits
/-!
# C17 — Prefix algebra is sound for every shipped prefix type, incl. boundary lengths

Statements are for every representation width `w` (8, 16, 32, 64, 128 and any other), every valid
prefix (`len ≤ w` is part of `Pfx w`) with arbitrary host bits.  `net p` = the first `len` bits of
`repr`, most significant first.
-/
namespace PT.C17
open Pfx
variable {w : Nat}

/-- contains is exactly bitwise coverage of network parts -/
theorem contains_iff (a b : Pfx w) : a.contains b = true ↔ a.net <+: b.net := Pfx.contains_iff a b

theorem contains_refl (a : Pfx w) : a.contains a = true := (Pfx.contains_iff a a).2 (List.prefix_refl _)

theorem contains_trans (a b c : Pfx w) (h1 : a.contains b = true) (h2 : b.contains c = true) :
    a.contains c = true :=
  (Pfx.contains_iff a c).2 (((Pfx.contains_iff a b).1 h1).trans ((Pfx.contains_iff b c).1 h2))

/-- antisymmetric up to host bits: mutual containment ⇒ equal under the type's `eq` -/
theorem contains_antisymm (a b : Pfx w) (h1 : a.contains b = true) (h2 : b.contains a = true) :
    a.eqv b = true := by
  rw [Pfx.eqv_iff]
  exact ((Pfx.contains_iff a b).1 h1).eq_of_length_le ((Pfx.contains_iff b a).1 h2).length_le

/-- eq compares network part and length only -/
theorem eqv_iff (a b : Pfx w) : a.eqv b = true ↔ a.net = b.net := Pfx.eqv_iff a b

theorem eqv_iff_mask_len (a b : Pfx w) : a.eqv b = true ↔ (a.mask = b.mask ∧ a.len = b.len) := by
  simp [Pfx.eqv]

/-- is_bit_set(i) is the i-th leading bit of the network part and false for i ≥ length — for
*every* index `i` (in particular all of 0..=255), with no overflow -/
theorem isBitSet_eq (p : Pfx w) (i : Nat) : p.isBitSet i = (p.net[i]?).getD false := Pfx.isBitSet_eq p i

theorem isBitSet_false_of_len_le (p : Pfx w) (i : Nat) (h : p.len ≤ i) : p.isBitSet i = false := by
  rw [Pfx.isBitSet_eq, Pfx.net_getElem?]
  have : ¬ i < p.len := by omega
  simp [this]

theorem lcp_covers_left (a b : Pfx w) : (a.lcp b).contains a = true :=
  (Pfx.contains_iff _ _).2 (Pfx.lcp_prefix_left a b)

theorem lcp_covers_right (a b : Pfx w) : (a.lcp b).contains b = true :=
  (Pfx.contains_iff _ _).2 (Pfx.lcp_prefix_right a b)

/-- symmetric (as a prefix: same network part and length) -/
theorem lcp_symm (a b : Pfx w) : (a.lcp b).eqv (b.lcp a) = true :=
  (Pfx.eqv_iff _ _).2 (Pfx.lcp_net_comm a b)

/-- it is the longest: its length is min(len a, len b, number of equal leading bits) -/
theorem lcp_longest (a b : Pfx w) (c : Pfx w) (h1 : c.contains a = true) (h2 : c.contains b = true) :
    c.contains (a.lcp b) = true :=
  (Pfx.contains_iff _ _).2 (Pfx.lcp_max a b _ ((Pfx.contains_iff _ _).1 h1) ((Pfx.contains_iff _ _).1 h2))

theorem lcp_len_le (a b : Pfx w) : (a.lcp b).len ≤ a.len ∧ (a.lcp b).len ≤ b.len :=
  ⟨Pfx.lcpLen_le_left a b, Pfx.lcpLen_le_right a b⟩

/-- zeroed host part -/
theorem lcp_host_zero (a b : Pfx w) (i : Nat) (h : (a.lcp b).len ≤ i) : (a.lcp b).repr.getMsbD i = false :=
  Pfx.lcp_host_zero a b i h

/-- from_repr_len(r, l) has length l and network part r masked to l; zero() is the zero-length prefix -/
theorem fromReprLen_spec (r : BitVec w) (l : Nat) (h : l ≤ w) :
    (fromReprLen r l h).len = l ∧ (fromReprLen r l h).mask = r &&& maskFromLen w l := ⟨rfl, rfl⟩

theorem zero_spec : (zero : Pfx w).len = 0 ∧ (zero : Pfx w).net = [] := ⟨rfl, Pfx.zero_net⟩

/-- what "valid" excludes: `mask_from_prefix_len` overflows its shift exactly for `len > w` -/
theorem maskFromLenRaw_none_iff (l : Nat) : maskFromLenRaw w l = none ↔ w < l := by
  unfold maskFromLenRaw
  by_cases h1 : l = w
  · simp [h1]
  · by_cases h2 : l = 0
    · subst h2
      have : ¬ 0 = w := h1
      simp [this]
    · by_cases h3 : l < w
      · simp [h1, h2, h3]; omega
      · simp [h1, h2, h3]; omega

theorem maskFromLenRaw_eq (l : Nat) (h : l ≤ w) : maskFromLenRaw w l = some (maskFromLen w l) := by
  unfold maskFromLenRaw maskFromLen
  by_cases h1 : l = w
  · simp [h1]
  · by_cases h2 : l = 0
    · subst h2
      have : ¬ 0 = w := h1
      simp [this]
    · have h3 : l < w := by omega
      simp [h1, h2, h3]

/-! ### type-specific overrides agree with the generic definitions -/

theorem ipnet_mask_eq (p : Pfx w) : p.ipnetMask = p.mask := rfl

/-- the cidr constructor masks the host part; the network part is that of the generic constructor -/
theorem cidr_fromReprLen_net (r : BitVec w) (l : Nat) (h : l ≤ w) :
    (fromReprLenMasked r l h).net = (fromReprLen r l h).net := by
  rw [Pfx.net_eq_iff]
  refine ⟨rfl, fun i hi => ?_⟩
  simp only [fromReprLenMasked, fromReprLen, BitVec.getMsbD_and, Pfx.getMsbD_maskFromLen _ _ h] at hi ⊢
  simp [hi]; intro _; omega

theorem cidr_fromReprLen_host_zero (r : BitVec w) (l : Nat) (h : l ≤ w) (i : Nat) (hi : l ≤ i) :
    (fromReprLenMasked r l h).repr.getMsbD i = false := by
  simp only [fromReprLenMasked, BitVec.getMsbD_and, Pfx.getMsbD_maskFromLen _ _ h]
  have : ¬ i < l := by omega
  simp [this]


/-- the `Ipv4Net` / `Ipv6Net` override of `contains` — the `ipnet` crate's range test
`network() <= other.network() && other.broadcast() <= broadcast()` on the addresses as unsigned
integers — is the generic bitwise containment, for every width and all host bits -/
theorem ipnet_contains_eq (a b : Pfx w) : a.ipnetContains b = a.contains b := Pfx.ipnetContains_eq a b

/-- the `Ipv4Net` / `Ipv6Net` copy of `longest_common_prefix` (XOR of the un-masked representations)
returns the generic result: same length, same (masked) representation -/
theorem ipnet_lcp_eq (a b : Pfx w) : a.ipnetLcp b = a.lcp b := Pfx.ipnetLcp_eq a b

end PT.C17
