import PT.Lemmas.Inter
import PT.Lemmas.Views
import PT.Lemmas.Writes
/-!
# C06 — Intersection traversal yields exactly the prefixes stored in both operands

`SetOps.intersection a b` is the index machine of `Intersection::next` / `IntersectionMut::next`
(one model: the two Rust iterators run the same `next_indices*` functions) started from the real
nodes `a`, `b` of the two views.  `HasWF t`: `t` is a well-formed subtree — the node of any good
view (`View.Good`) of any reachable map, whatever its root kind (stored / branching / virtual).
-/
namespace PT.C06
open Tree Pfx SetOps
variable {w : Nat} {L R : Type}

/-- the items are exactly `a`'s entries whose key is also stored in `b`, each once, in the order of
`a`'s entry list (ascending lexicographic), with `a`'s stored prefix and both values -/
theorem intersection_spec (a : Tree w L) (b : Tree w R) (hwa : HasWF a) (hwb : HasWF b) :
    intersection a b = interS a.slotEntries b.slotEntries := intersection_eq a b hwa hwb

/-- every yielded prefix is stored in both operands -/
theorem intersection_sound (a : Tree w L) (b : Tree w R) (hwa : HasWF a) (hwb : HasWF b)
    (it : IItem w L R) (h : it ∈ intersection a b) :
    (it.l.1, it.p, it.l.2) ∈ a.slotEntries ∧ ∃ pb, (it.r.1, pb, it.r.2) ∈ b.slotEntries ∧ pb.net = it.p.net := by
  rw [intersection_spec a b hwa hwb] at h
  unfold interS at h
  rw [List.mem_filterMap] at h
  obtain ⟨x, hx, hm⟩ := h
  cases hl : lookupK b.slotEntries (keyOf x) with
  | none => rw [hl] at hm; simp at hm
  | some y =>
    rw [hl] at hm
    simp only [Option.map_some, Option.some.injEq] at hm
    subst hm
    obtain ⟨h1, h2⟩ := lookupK_some_mem hl
    exact ⟨hx, y.2.1, h1, h2⟩

/-- every key stored in both operands is yielded -/
theorem intersection_complete (a : Tree w L) (b : Tree w R) (hwa : HasWF a) (hwb : HasWF b)
    (x : Nat × Pfx w × L) (hx : x ∈ a.slotEntries) (y : Nat × Pfx w × R) (hy : y ∈ b.slotEntries)
    (hk : x.2.1.net = y.2.1.net) : ∃ it ∈ intersection a b, it.p = x.2.1 ∧ it.l = (x.1, x.2.2) := by
  rw [intersection_spec a b hwa hwb]
  unfold interS
  have : ∃ y', lookupK b.slotEntries (keyOf x) = some y' := by
    cases hl : lookupK b.slotEntries (keyOf x) with
    | some y' => exact ⟨y', rfl⟩
    | none =>
      unfold lookupK at hl
      rw [List.find?_eq_none] at hl
      have := hl y hy
      simp [keyOf, hk] at this
  obtain ⟨y', hy'⟩ := this
  exact ⟨⟨x.2.1, (x.1, x.2.2), (y'.1, y'.2.2)⟩, List.mem_filterMap.2 ⟨x, hx, by simp [hy']⟩, rfl, rfl⟩

/-- the yielded prefixes form a sub-list of `a`'s (sorted) entry list: each once, ascending -/
theorem intersection_order (a : Tree w L) (b : Tree w R) (hwa : HasWF a) (hwb : HasWF b) :
    ((intersection a b).map (fun it => (it.l.1, it.p, it.l.2))).Sublist a.slotEntries := by
  rw [intersection_spec a b hwa hwb]
  unfold interS
  generalize a.slotEntries = A
  induction A with
  | nil => simp
  | cons x xs ih =>
    simp only [List.filterMap_cons]
    cases lookupK b.slotEntries (keyOf x) with
    | none => exact List.Sublist.cons _ ih
    | some y => simpa using ih.cons_cons x

/-- the operands can be swapped: every item of `intersection(a, b)` has a counterpart in
`intersection(b, a)` under the same key, reporting `b`'s stored prefix and `b`'s node and value as
its left part -/
theorem intersection_swap (a : Tree w L) (b : Tree w R) (hwa : HasWF a) (hwb : HasWF b)
    (i : IItem w L R) (hi : i ∈ intersection a b) :
    ∃ j ∈ intersection b a, j.p.net = i.p.net ∧ j.l = i.r := by
  obtain ⟨ha, pb, hb, hk⟩ := intersection_sound a b hwa hwb i hi
  obtain ⟨j, hj, hjp, hjl⟩ := intersection_complete b a hwb hwa (i.r.1, pb, i.r.2) hb (i.l.1, i.p, i.l.2) ha hk
  exact ⟨j, hj, by rw [hjp]; exact hk, hjl⟩

/-- a well-formed subtree stores at most one entry per key -/
theorem slotEntries_key_inj {T : Type} {t : Tree w T} (h : HasWF t) {x y : Nat × Pfx w × T}
    (hx : x ∈ t.slotEntries) (hy : y ∈ t.slotEntries) (hk : keyOf x = keyOf y) : x = y := by
  obtain ⟨k, hk'⟩ := h
  have hs := entries_sorted hk'
  rw [← slotEntries_snd, List.pairwise_map] at hs
  generalize t.slotEntries = l at hs hx hy
  induction l with
  | nil => cases hx
  | cons z zs ih =>
    rw [List.pairwise_cons] at hs
    rcases List.mem_cons.1 hx with rfl | hx' <;> rcases List.mem_cons.1 hy with rfl | hy'
    · rfl
    · have := hs.1 y hy'; simp only [keyOf] at hk; rw [hk, Spec.keyLt_irrefl] at this; cases this
    · have := hs.1 x hx'; simp only [keyOf] at hk; rw [← hk, Spec.keyLt_irrefl] at this; cases this
    · exact ih hs.2 hx' hy'
/-- swapping the operands swaps the two sides of every item: same key, `b`'s node and value on the
left, `a`'s node and value on the right -/
theorem intersection_swap_full (a : Tree w L) (b : Tree w R) (hwa : HasWF a) (hwb : HasWF b)
    (i : IItem w L R) (hi : i ∈ intersection a b) :
    ∃ j ∈ intersection b a, j.p.net = i.p.net ∧ j.l = i.r ∧ j.r = i.l := by
  obtain ⟨j, hj, hjk, hjl⟩ := intersection_swap a b hwa hwb i hi
  refine ⟨j, hj, hjk, hjl, ?_⟩
  obtain ⟨ha, _, _, _⟩ := intersection_sound a b hwa hwb i hi
  obtain ⟨_, pa, ha', hpa⟩ := intersection_sound b a hwb hwa j hj
  have := slotEntries_key_inj hwa ha' ha (by simp only [keyOf]; rw [hpa, hjk])
  simp only [Prod.mk.injEq] at this
  exact Prod.ext this.1 this.2.2

/-- two sub-views whose roots are incomparable (disjoint sub-views of one map, or of two maps) have an
empty intersection -/
theorem disjoint_roots_empty {sa : Nat} {pa : Pfx w} {va : Option L} {la ra : Tree w L}
    {sb : Nat} {pb : Pfx w} {vb : Option R} {lb rb : Tree w R}
    (hwa : HasWF (Tree.node sa pa va la ra)) (hwb : HasWF (Tree.node sb pb vb lb rb))
    (h1 : ¬ pa.net <+: pb.net) (h2 : ¬ pb.net <+: pa.net) :
    intersection (Tree.node sa pa va la ra) (Tree.node sb pb vb lb rb) = [] := by
  rw [intersection_spec _ _ hwa hwb]
  exact interS_eq_nil (no_common_key rfl rfl hwa hwb h1 h2)

/-- the node of a good view is a well-formed subtree -/
theorem view_node_hasWF {t : Tree w L} {v : View w} (hg : View.Good t v) : HasWF (v.node t) := by
  obtain ⟨kk, s, np, nv, nl, nr, hs, hwf, _⟩ := hg
  exact ⟨kk, by unfold View.node; rw [hs]; exact hwf⟩

end PT.C06
