import PT.MapOps
/-!
# Explicit-stack iterators (model of `src/map/iter.rs`: `Iter`, `IntoIter`, `IterMut`)

The three Rust iterators share one `next()` body: pop a node, push its right child, push its left
child, yield the node if it holds a value.  `iterNext` is that body (the stack's top is the list's
head); it is defined by well-founded recursion on a stack measure, so every `next()` call — and the
whole drain `iterAll` — terminates for every stack of finite trees.
-/

namespace Tree
variable {w : Nat} {V : Type}

def stackSize (st : List (Tree w V)) : Nat := (st.map (fun t => 2 * size t + 1)).sum

/-- `if let Some(c) = child { nodes.push(c) }` -/
def pushChild (st : List (Tree w V)) (c : Tree w V) : List (Tree w V) :=
  match c with
  | nil => st
  | c => c :: st

theorem stackSize_push (st : List (Tree w V)) (l r : Tree w V) :
    stackSize (pushChild (pushChild st r) l) ≤ 2 * size l + 2 * size r + 2 + stackSize st := by
  cases l <;> cases r <;> simp [pushChild, stackSize, size] <;> omega

/-- one call of `next()`: the yielded item (with the slot of its node) and the remaining stack -/
def iterNext : List (Tree w V) → Option ((Nat × Pfx w × V) × List (Tree w V))
  | [] => none
  | nil :: st => iterNext st
  | node s p (some x) l r :: st => some ((s, p, x), pushChild (pushChild st r) l)
  | node _ _ none l r :: st => iterNext (pushChild (pushChild st r) l)
termination_by st => stackSize st
decreasing_by
  · simp [stackSize]
  · have := stackSize_push st l r
    simp only [stackSize, List.map_cons, List.sum_cons, size] at *
    omega

theorem iterNext_decreases (st : List (Tree w V)) : ∀ it st', iterNext st = some (it, st') →
    stackSize st' < stackSize st := by
  fun_induction iterNext st with
  | case1 => intro _ _ h; simp at h
  | case2 st ih =>
    intro it st' h
    have := ih it st' h
    simp [stackSize] at this ⊢; omega
  | case3 s p x l r st =>
    intro it st' h
    simp only [Option.some.injEq, Prod.mk.injEq] at h
    obtain ⟨_, h2⟩ := h
    subst h2
    have := stackSize_push st l r
    simp only [stackSize, List.map_cons, List.sum_cons, size] at *
    omega
  | case4 s p l r st ih =>
    intro it st' h
    have h1 := ih it st' h
    have := stackSize_push st l r
    simp only [stackSize, List.map_cons, List.sum_cons, size] at *
    omega

/-- drain the iterator: all items in the order yielded -/
def iterAllS (st : List (Tree w V)) : List (Nat × Pfx w × V) :=
  match h : iterNext st with
  | none => []
  | some (it, st') => it :: iterAllS st'
termination_by stackSize st
decreasing_by exact iterNext_decreases _ _ _ h

def iterAll (st : List (Tree w V)) : List (Pfx w × V) := (iterAllS st).map (·.2)

/-- the first `k` calls of `next()`: yielded items and the remaining stack -/
def iterTake : Nat → List (Tree w V) → List (Pfx w × V) × List (Tree w V)
  | 0, st => ([], st)
  | k + 1, st =>
    match iterNext st with
    | none => ([], [])
    | some (it, st') => ((it.2 :: (iterTake k st').1), (iterTake k st').2)

end Tree

namespace PMap
variable {w : Nat} {V : Type}

/-- `iter()`, `keys()`, `values()`, `into_iter()`, `iter_mut()`, … all start from `vec![0]` -/
def iter (m : PMap w V) : List (Pfx w × V) := Tree.iterAll [m.root]

/-- `children(q)` as the iterator runs it -/
def childrenIter (m : PMap w V) (q : Pfx w) : List (Pfx w × V) := Tree.iterAll [m.root.childrenStart q]

end PMap
