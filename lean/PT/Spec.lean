import PT.Bits
/-!
# Specification layer

The abstract map is a list of `(stored prefix, value)` pairs, at most one per *key*
(`key p = net p`: network bits, whose number is the prefix length), kept in ascending key order.
Nothing here mentions trees, slots or stacks: observers are filters / arg-max over the entry list.
-/

namespace Spec
variable {w : Nat} {V : Type}

abbrev Key := List Bool

def key (p : Pfx w) : Key := p.net

/-- `a` covers `b`: the key of `a` is a prefix of the key of `b` -/
def covers (a b : Pfx w) : Bool := (key a).isPrefixOf (key b)

/-- lexicographic order on keys, a proper prefix first, the 0-branch before the 1-branch.
(= ascending by network address, then by length.) -/
def keyLt : Key → Key → Bool
  | [], [] => false
  | [], _ :: _ => true
  | _ :: _, [] => false
  | a :: as, b :: bs => if a == b then keyLt as bs else (!a && b)

abbrev SMap (w : Nat) (V : Type) := List (Pfx w × V)

def sameKey (p q : Pfx w) : Bool := key p == key q

/-- insert into a key-sorted list -/
def insertSorted (e : Pfx w × V) : SMap w V → SMap w V
  | [] => [e]
  | x :: xs => if keyLt (key e.1) (key x.1) then e :: x :: xs else x :: insertSorted e xs

def erase (s : SMap w V) (q : Pfx w) : SMap w V := s.filter (fun e => !sameKey e.1 q)

/-- `insert`: the entry under `key q` becomes `(q, v)` (the representation passed is stored) -/
def update (s : SMap w V) (q : Pfx w) (v : V) : SMap w V := insertSorted (q, v) (erase s q)

def lookup (s : SMap w V) (q : Pfx w) : Option (Pfx w × V) := s.find? (fun e => sameKey e.1 q)

/-- value-only update: the stored representation is kept -/
def modify (s : SMap w V) (q : Pfx w) (f : V → V) : SMap w V :=
  s.map (fun e => if sameKey e.1 q then (e.1, f e.2) else e)

/-- entries whose prefix covers `q`, by increasing length -/
def cover (s : SMap w V) (q : Pfx w) : SMap w V := s.filter (fun e => covers e.1 q)

/-- keep the longer of the best so far and `e` -/
def pickLonger (best : Option (Pfx w × V)) (e : Pfx w × V) : Option (Pfx w × V) :=
  match best with
  | none => some e
  | some b => if b.1.len < e.1.len then some e else some b

/-- keep the shorter of the best so far and `e` -/
def pickShorter (best : Option (Pfx w × V)) (e : Pfx w × V) : Option (Pfx w × V) :=
  match best with
  | none => some e
  | some b => if e.1.len < b.1.len then some e else some b

/-- longest-prefix match: the covering entry of greatest length -/
def lpm (s : SMap w V) (q : Pfx w) : Option (Pfx w × V) := (cover s q).foldl pickLonger none

/-- shortest-prefix match: the covering entry of least length -/
def spm (s : SMap w V) (q : Pfx w) : Option (Pfx w × V) := (cover s q).foldl pickShorter none

/-- entries covered by the key `k` -/
def under (s : SMap w V) (k : Key) : SMap w V := s.filter (fun e => k.isPrefixOf (key e.1))

def children (s : SMap w V) (q : Pfx w) : SMap w V := under s (key q)

def removeChildren (s : SMap w V) (q : Pfx w) : SMap w V := s.filter (fun e => !covers q e.1)

def retain (s : SMap w V) (f : Pfx w → V → Bool) : SMap w V := s.filter (fun e => f e.1 e.2)

def collect (xs : List (Pfx w × V)) : SMap w V := xs.foldl (fun s e => update s e.1 e.2) []

/-! The specification of the set operations on two entry lists is in `PT/SetSpec.lean`. -/

end Spec
