/-!
# Prefix algebra (model of `src/prefix.rs`, `to_right` of `src/lib.rs`)

`Pfx w` models a *valid* value of a prefix type whose representation `R` is `w` bits wide
(`(uN, u8)`, `Ipv4Net`, …): the representation (host bits retained) and a length `≤ w`.
Every function below is transcribed from the default methods of `trait Prefix`.
Core-only: no Mathlib import (this file is linked into the `ptdriver` executable).
-/

structure Pfx (w : Nat) where
  repr : BitVec w
  len : Nat
  hlen : len ≤ w
deriving DecidableEq

namespace Pfx
variable {w : Nat}

/-- `mask_from_prefix_len::<R>(len)`. For `len > w` (not representable in `Pfx`) Rust overflows the
shift; see `maskFromLenRaw`. -/
def maskFromLen (w len : Nat) : BitVec w :=
  if len = w then BitVec.allOnes w
  else if len = 0 then 0#w
  else ~~~ ((BitVec.allOnes w) >>> len)

/-- The same with the overflow made explicit: `none` = "attempt to shift right with overflow". -/
def maskFromLenRaw (w len : Nat) : Option (BitVec w) :=
  if len = w then some (BitVec.allOnes w)
  else if len = 0 then some 0#w
  else if len < w then some (~~~ ((BitVec.allOnes w) >>> len))
  else none

/-- `Prefix::mask` (default): `repr & mask_from_prefix_len(len)`. -/
def mask (p : Pfx w) : BitVec w := p.repr &&& maskFromLen w p.len

/-- `Prefix::contains` (default). -/
def contains (a b : Pfx w) : Bool :=
  if a.len > b.len then false else (b.repr &&& maskFromLen w a.len) == a.mask

/-- `Prefix::eq` (default). -/
def eqv (a b : Pfx w) : Bool := a.mask == b.mask && a.len == b.len

/-- `!0.checked_shr(n).unwrap_or(0)`. -/
def onesShr (w n : Nat) : BitVec w := if n < w then (BitVec.allOnes w) >>> n else 0#w

/-- `Prefix::is_bit_set` (default); `bit` is a `u8` in Rust, any `Nat` here. -/
def isBitSet (p : Pfx w) (bit : Nat) : Bool :=
  ((onesShr w bit ^^^ onesShr w (bit + 1)) &&& p.mask) != 0#w

/-- `to_right(branch, child)` of `src/lib.rs`. -/
def toRight (branch child : Pfx w) : Bool := child.isBitSet branch.len

/-- `x.leading_zeros()` — modelled from its documentation: the index (from the most significant
end) of the first set bit, `w` if there is none. -/
def leadingZeros (x : BitVec w) : Nat := (List.range w).findIdx (fun i => x.getMsbD i)

/-- length of `Prefix::longest_common_prefix` (default). -/
def lcpLen (a b : Pfx w) : Nat := min (min (leadingZeros (a.mask ^^^ b.mask)) a.len) b.len

/-- `Prefix::longest_common_prefix` (default). -/
def lcp (a b : Pfx w) : Pfx w :=
  ⟨a.mask &&& maskFromLen w (lcpLen a b), lcpLen a b,
    Nat.le_trans (Nat.min_le_right _ _) b.hlen⟩

/-- `Prefix::zero` (default): `from_repr_len(0, 0)`. -/
def zero : Pfx w := ⟨0#w, 0, Nat.zero_le _⟩

/-- `from_repr_len` of the tuple, `ipnet`, `ipnetwork` and `Ip*Inet` types (host bits kept). -/
def fromReprLen (r : BitVec w) (l : Nat) (h : l ≤ w) : Pfx w := ⟨r, l, h⟩

/-- `from_repr_len` of `Ipv4Cidr` / `Ipv6Cidr`: the representation is masked first. -/
def fromReprLenMasked (r : BitVec w) (l : Nat) (h : l ≤ w) : Pfx w := ⟨r &&& maskFromLen w l, l, h⟩

/-- comparison of `mask()` as unsigned integers (used by the set operations). -/
def maskLt (a b : Pfx w) : Bool := a.mask.toNat < b.mask.toNat
def maskEq (a b : Pfx w) : Bool := a.mask == b.mask

/-- The *network part*: the first `len` bits of the representation, most significant first.
This is the key under which the trie identifies a prefix. Specification-level. -/
def net (p : Pfx w) : List Bool := (List.range p.len).map (fun i => p.repr.getMsbD i)

/-! ### Type-specific overrides (`Ipv4Net`, `Ipv6Net`), transcribed -/

/-- `Ipv{4,6}Net::network()` = address with host bits cleared; `mask` override. -/
def ipnetMask (p : Pfx w) : BitVec w := p.repr &&& maskFromLen w p.len

/-- `Ipv{4,6}Net::broadcast()` = address with host bits set. -/
def ipnetBroadcast (p : Pfx w) : BitVec w := p.repr ||| ~~~ (maskFromLen w p.len)

/-- `Ipv{4,6}Net::contains(&Ipv{4,6}Net)`: `network() <= other.network() && other.broadcast() <= broadcast()`. -/
def ipnetContains (a b : Pfx w) : Bool :=
  decide (a.ipnetMask.toNat ≤ b.ipnetMask.toNat) && decide (b.ipnetBroadcast.toNat ≤ a.ipnetBroadcast.toNat)

/-- the `ipnet` override of `longest_common_prefix` uses the un-masked representations. -/
def ipnetLcpLen (a b : Pfx w) : Nat := min (min (leadingZeros (a.repr ^^^ b.repr)) a.len) b.len
def ipnetLcp (a b : Pfx w) : Pfx w :=
  ⟨a.repr &&& maskFromLen w (ipnetLcpLen a b), ipnetLcpLen a b,
    Nat.le_trans (Nat.min_le_right _ _) b.hlen⟩

end Pfx
