import PT.View
/-!
# Simultaneous traversals (model of `src/trieview/{union,intersection,difference}.rs`)

Stack entries hold the subtrees the Rust indices point to.  `next_indices*` return `Vec`s that are
appended to the stack (`extend`), so the *last* element of the returned list is popped first; the
lists below are in that push order.  The `*_mut` iterators run the same index machines (the Rust
code is duplicated) and differ only in handing out `&mut` — items therefore carry the slot of the
node(s) their value(s) live in.

The machines are run with explicit fuel (`run`); every popped entry strictly consumes nodes of the
two trees, and `fuelFor` is an upper bound on the number of entries ever pushed.
-/

/-- generic explicit-stack machine: `step e` = (yielded item, entries pushed, in push order) -/
def runMachine {E I : Type} (step : E → Option I × List E) : Nat → List E → List I
  | 0, _ => []
  | _ + 1, [] => []
  | f + 1, e :: st =>
    match (step e).1 with
    | some i => i :: runMachine step f ((step e).2.reverse ++ st)
    | none => runMachine step f ((step e).2.reverse ++ st)

namespace SetOps
variable {w : Nat} {L R : Type}

abbrev Lpm (w : Nat) (T : Type) := Option (Pfx w × T)

def fuelFor (a : Tree w L) (b : Tree w R) : Nat := 2 * (a.size + b.size) + 2

/-! ## union -/

inductive UIdx (w : Nat) (L R : Type) where
  | both (l : Tree w L) (r : Tree w R)
  | firstL (l : Tree w L) (r : Tree w R)
  | firstR (l : Tree w L) (r : Tree w R)
  | onlyL (l : Tree w L)
  | onlyR (r : Tree w R)

/-- a yielded union item: the reported prefix, the value (with its slot) on each side, and the
longest-prefix-match annotations -/
structure UItem (w : Nat) (L R : Type) where
  p : Pfx w
  l : Option (Nat × L)
  r : Option (Nat × R)
  lpmL : Lpm w L
  lpmR : Lpm w R

/-- `next_indices` of union.rs -/
def uNext (a : Tree w L) (b : Tree w R) : List (UIdx w L R) :=
  match a, b with
  | .nil, .nil => []
  | .nil, .node s p v l r => [.onlyR (.node s p v l r)]
  | .node s p v l r, .nil => [.onlyL (.node s p v l r)]
  | .node sa pa va la ra, .node sb pb vb lb rb =>
    if pa.len == pb.len then
      if Pfx.maskLt pa pb then [.onlyR (.node sb pb vb lb rb), .onlyL (.node sa pa va la ra)]
      else if Pfx.maskEq pa pb then [.both (.node sa pa va la ra) (.node sb pb vb lb rb)]
      else [.onlyL (.node sa pa va la ra), .onlyR (.node sb pb vb lb rb)]
    else if pa.contains pb then [.firstL (.node sa pa va la ra) (.node sb pb vb lb rb)]
    else if pb.contains pa then [.firstR (.node sa pa va la ra) (.node sb pb vb lb rb)]
    else if Pfx.maskLt pa pb then [.onlyR (.node sb pb vb lb rb), .onlyL (.node sa pa va la ra)]
    else [.onlyL (.node sa pa va la ra), .onlyR (.node sb pb vb lb rb)]

/-- `to_right(&table[l].prefix, &table[r].prefix)` where `r` is a node -/
def toRightOf (p : Pfx w) {T : Type} (t : Tree w T) : Bool :=
  match t.pfx? with
  | some q => Pfx.toRight p q
  | none => false

/-- `next_indices_first_l` -/
def uFirstL (pl : Pfx w) (ll lr : Tree w L) (r : Tree w R) : List (UIdx w L R) :=
  match ll, lr with
  | .nil, .nil => [.onlyR r]
  | .nil, .node s p v a b => uNext (.node s p v a b) r
  | .node s p v a b, .nil => uNext (.node s p v a b) r
  | .node s p v a b, .node s' p' v' a' b' =>
    if toRightOf pl r then uNext (.node s' p' v' a' b') r ++ [.onlyL (.node s p v a b)]
    else .onlyL (.node s' p' v' a' b') :: uNext (.node s p v a b) r

/-- `next_indices_first_r` -/
def uFirstR (l : Tree w L) (pr : Pfx w) (rl rr : Tree w R) : List (UIdx w L R) :=
  match rl, rr with
  | .nil, .nil => [.onlyL l]
  | .nil, .node s p v a b => uNext l (.node s p v a b)
  | .node s p v a b, .nil => uNext l (.node s p v a b)
  | .node s p v a b, .node s' p' v' a' b' =>
    if toRightOf pr l then uNext l (.node s' p' v' a' b') ++ [.onlyR (.node s p v a b)]
    else .onlyR (.node s' p' v' a' b') :: uNext l (.node s p v a b)

def orLpm {T : Type} (t : Tree w T) (lpm : Lpm w T) : Lpm w T :=
  match t.pv with
  | some x => some x
  | none => lpm

abbrev UEntry (w : Nat) (L R : Type) := UIdx w L R × Lpm w L × Lpm w R

/-- `extend_lpm` of union.rs -/
def uExtend (lpmL : Lpm w L) (lpmR : Lpm w R) (xs : List (UIdx w L R)) : List (UEntry w L R) :=
  xs.map (fun x =>
    match x with
    | .both l r => (x, orLpm l lpmL, orLpm r lpmR)
    | .firstL l _ => (x, orLpm l lpmL, lpmR)
    | .onlyL l => (x, orLpm l lpmL, lpmR)
    | .firstR _ r => (x, lpmL, orLpm r lpmR)
    | .onlyR r => (x, lpmL, orLpm r lpmR))

def slotVal {T : Type} : Tree w T → Option (Nat × T)
  | .node s _ (some v) _ _ => some (s, v)
  | _ => none

/-- `get_next`: nothing when neither side holds a value -/
def uItem (p : Pfx w) (l : Option (Nat × L)) (r : Option (Nat × R)) (lpmL : Lpm w L) (lpmR : Lpm w R) :
    Option (UItem w L R) :=
  match l, r with
  | none, none => none
  | _, _ => some ⟨p, l, r, lpmL, lpmR⟩

def onlyChildren {T E : Type} (mk : Tree w T → E) (l r : Tree w T) : List E :=
  (match r with | .nil => [] | .node s p v a b => [mk (.node s p v a b)]) ++
  (match l with | .nil => [] | .node s p v a b => [mk (.node s p v a b)])

/-- the body of `Union::next` / `UnionMut::next` for one popped entry -/
def uStep (e : UEntry w L R) : Option (UItem w L R) × List (UEntry w L R) :=
  match e with
  | (.both (.node sl pl vl ll lr) (.node sr pr vr rl rr), lpmL, lpmR) =>
    (uItem (if vl.isSome then pl else pr) (slotVal (.node sl pl vl ll lr)) (slotVal (.node sr pr vr rl rr)) lpmL lpmR,
     uExtend lpmL lpmR (uNext lr rr) ++ uExtend lpmL lpmR (uNext ll rl))
  | (.firstL (.node sl pl vl ll lr) r, lpmL, lpmR) =>
    (uItem pl (slotVal (.node sl pl vl ll lr)) none lpmL lpmR,
     uExtend lpmL lpmR (uFirstL pl ll lr r))
  | (.firstR l (.node sr pr vr rl rr), lpmL, lpmR) =>
    (uItem pr none (slotVal (.node sr pr vr rl rr)) lpmL lpmR,
     uExtend lpmL lpmR (uFirstR l pr rl rr))
  | (.onlyL (.node sl pl vl ll lr), lpmL, lpmR) =>
    (uItem pl (slotVal (.node sl pl vl ll lr)) none lpmL lpmR,
     uExtend lpmL lpmR (onlyChildren .onlyL ll lr))
  | (.onlyR (.node sr pr vr rl rr), lpmL, lpmR) =>
    (uItem pr none (slotVal (.node sr pr vr rl rr)) lpmL lpmR,
     uExtend lpmL lpmR (onlyChildren .onlyR rl rr))
  | _ => (none, [])

/-- `a.union(b)` where `a`, `b` are the real nodes of the two views (annotations seeded with `None`) -/
def union (a : Tree w L) (b : Tree w R) : List (UItem w L R) :=
  runMachine uStep (fuelFor a b) (uExtend none none (uNext a b)).reverse

/-! ## intersection -/

inductive IIdx (w : Nat) (L R : Type) where
  | both (l : Tree w L) (r : Tree w R)
  | firstA (l : Tree w L) (r : Tree w R)
  | firstB (l : Tree w L) (r : Tree w R)

/-- `next_indices` of intersection.rs (an `Option`, rendered as a list of length ≤ 1) -/
def iNext (a : Tree w L) (b : Tree w R) : List (IIdx w L R) :=
  match a, b with
  | .node sa pa va la ra, .node sb pb vb lb rb =>
    if pa.len == pb.len then
      if Pfx.maskEq pa pb then [.both (.node sa pa va la ra) (.node sb pb vb lb rb)] else []
    else if pa.contains pb then [.firstA (.node sa pa va la ra) (.node sb pb vb lb rb)]
    else if pb.contains pa then [.firstB (.node sa pa va la ra) (.node sb pb vb lb rb)]
    else []
  | _, _ => []

def iFirstA (pl : Pfx w) (ll lr : Tree w L) (r : Tree w R) : List (IIdx w L R) :=
  match ll, lr with
  | .nil, .nil => []
  | .nil, .node s p v a b => iNext (.node s p v a b) r
  | .node s p v a b, .nil => iNext (.node s p v a b) r
  | .node s p v a b, .node s' p' v' a' b' =>
    if toRightOf pl r then iNext (.node s' p' v' a' b') r else iNext (.node s p v a b) r

def iFirstB (l : Tree w L) (pr : Pfx w) (rl rr : Tree w R) : List (IIdx w L R) :=
  match rl, rr with
  | .nil, .nil => []
  | .nil, .node s p v a b => iNext l (.node s p v a b)
  | .node s p v a b, .nil => iNext l (.node s p v a b)
  | .node s p v a b, .node s' p' v' a' b' =>
    if toRightOf pr l then iNext l (.node s' p' v' a' b') else iNext l (.node s p v a b)

structure IItem (w : Nat) (L R : Type) where
  p : Pfx w
  l : Nat × L
  r : Nat × R

def iStep (e : IIdx w L R) : Option (IItem w L R) × List (IIdx w L R) :=
  match e with
  | .both (.node sl pl vl ll lr) (.node sr _ vr rl rr) =>
    ((match vl, vr with
      | some x, some y => some ⟨pl, (sl, x), (sr, y)⟩
      | _, _ => none),
     iNext lr rr ++ iNext ll rl)
  | .firstA (.node _ pl _ ll lr) r => (none, iFirstA pl ll lr r)
  | .firstB l (.node _ pr _ rl rr) => (none, iFirstB l pr rl rr)
  | _ => (none, [])

def intersection (a : Tree w L) (b : Tree w R) : List (IItem w L R) :=
  runMachine iStep (fuelFor a b) (iNext a b).reverse

/-! ## difference and covering difference -/

inductive DIdx (w : Nat) (L R : Type) where
  | both (l : Tree w L) (r : Tree w R)
  | firstL (l : Tree w L) (r : Tree w R)
  | firstR (l : Tree w L) (r : Tree w R)
  | onlyL (l : Tree w L)

/-- `next_indices` of difference.rs -/
def dNext (a : Tree w L) (b : Tree w R) : List (DIdx w L R) :=
  match a, b with
  | .nil, _ => []
  | .node s p v l r, .nil => [.onlyL (.node s p v l r)]
  | .node sa pa va la ra, .node sb pb vb lb rb =>
    if pa.len == pb.len then
      if Pfx.maskEq pa pb then [.both (.node sa pa va la ra) (.node sb pb vb lb rb)]
      else [.onlyL (.node sa pa va la ra)]
    else if pa.contains pb then [.firstL (.node sa pa va la ra) (.node sb pb vb lb rb)]
    else if pb.contains pa then [.firstR (.node sa pa va la ra) (.node sb pb vb lb rb)]
    else [.onlyL (.node sa pa va la ra)]

/-- `next_indices_first_a` of difference.rs -/
def dFirstA (pl : Pfx w) (ll lr : Tree w L) (r : Tree w R) : List (DIdx w L R) :=
  match ll, lr with
  | .nil, .nil => []
  | .nil, .node s p v a b => dNext (.node s p v a b) r
  | .node s p v a b, .nil => dNext (.node s p v a b) r
  | .node s p v a b, .node s' p' v' a' b' =>
    if toRightOf pl r then dNext (.node s' p' v' a' b') r ++ [.onlyL (.node s p v a b)]
    else .onlyL (.node s' p' v' a' b') :: dNext (.node s p v a b) r

/-- `next_indices_first_b` of difference.rs -/
def dFirstB (l : Tree w L) (pr : Pfx w) (rl rr : Tree w R) : List (DIdx w L R) :=
  match rl, rr with
  | .nil, .nil => [.onlyL l]
  | .nil, .node s p v a b => dNext l (.node s p v a b)
  | .node s p v a b, .nil => dNext l (.node s p v a b)
  | .node s p v a b, .node s' p' v' a' b' =>
    if toRightOf pr l then dNext l (.node s' p' v' a' b') else dNext l (.node s p v a b)

abbrev DEntry (w : Nat) (L R : Type) := DIdx w L R × Lpm w R

/-- `extend_lpm` of difference.rs -/
def dExtend (lpmR : Lpm w R) (xs : List (DIdx w L R)) : List (DEntry w L R) :=
  xs.map (fun x =>
    match x with
    | .both _ r => (x, orLpm r lpmR)
    | .firstR _ r => (x, orLpm r lpmR)
    | .firstL _ _ => (x, lpmR)
    | .onlyL _ => (x, lpmR))

structure DItem (w : Nat) (L R : Type) where
  p : Pfx w
  v : Nat × L
  right : Lpm w R

def dItemOf (lpmR : Lpm w R) : Tree w L → Option (DItem w L R)
  | .node s p (some x) _ _ => some ⟨p, (s, x), lpmR⟩
  | _ => none

/-- the body of `Difference::next` / `DifferenceMut::next` -/
def dStep (e : DEntry w L R) : Option (DItem w L R) × List (DEntry w L R) :=
  match e with
  | (.both (.node sl pl vl ll lr) (.node _ _ vr rl rr), lpmR) =>
    ((if vr.isNone then dItemOf lpmR (.node sl pl vl ll lr) else none),
     dExtend lpmR (dNext lr rr) ++ dExtend lpmR (dNext ll rl))
  | (.firstL (.node sl pl vl ll lr) r, lpmR) =>
    (dItemOf lpmR (.node sl pl vl ll lr), dExtend lpmR (dFirstA pl ll lr r))
  | (.firstR l (.node _ pr _ rl rr), lpmR) =>
    (none, dExtend lpmR (dFirstB l pr rl rr))
  | (.onlyL (.node sl pl vl ll lr), lpmR) =>
    (dItemOf lpmR (.node sl pl vl ll lr), dExtend lpmR (onlyChildren .onlyL ll lr))
  | _ => (none, [])

def difference (a : Tree w L) (b : Tree w R) : List (DItem w L R) :=
  runMachine dStep (fuelFor a b) (dExtend none (dNext a b)).reverse

/-- the body of `CoveringDifference::next` / `CoveringDifferenceMut::next` -/
def cStep (e : DIdx w L R) : Option (DItem w L R) × List (DIdx w L R) :=
  match e with
  | .both (.node sl pl vl ll lr) (.node _ _ vr rl rr) =>
    if vr.isSome then (none, [])
    else (dItemOf none (.node sl pl vl ll lr), dNext lr rr ++ dNext ll rl)
  | .firstL (.node sl pl vl ll lr) r =>
    (dItemOf none (.node sl pl vl ll lr), dFirstA pl ll lr r)
  | .firstR l (.node _ pr vr rl rr) =>
    if vr.isSome then (none, []) else (none, dFirstB l pr rl rr)
  | .onlyL (.node sl pl vl ll lr) =>
    (dItemOf none (.node sl pl vl ll lr), onlyChildren .onlyL ll lr)
  | _ => (none, [])

def coveringDifference (a : Tree w L) (b : Tree w R) : List (DItem w L R) :=
  runMachine cStep (fuelFor a b) (dNext a b).reverse

end SetOps

namespace Tree
variable {w : Nat} {V : Type}

/-- write through a `&mut` that a mutable traversal handed out for the node in slot `s` -/
def modifySlot : Tree w V → Nat → (V → V) → Tree w V
  | nil, _, _ => nil
  | node s p v l r, k, f =>
    if s = k then node s p (v.map f) l r
    else node s p v (modifySlot l k f) (modifySlot r k f)

end Tree
