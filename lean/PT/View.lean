import PT.Iter
/-!
# Views (model of `src/trieview/mod.rs`)

A view is `ViewLoc::Node(idx)` or `ViewLoc::Virtual(p, idx)`; the node `idx` is identified by the
path of child directions from the map's root.  `TrieView` and `TrieViewMut` share this model (the
Rust code is duplicated; the mutable variants return `Err(self)` where the read-only ones return
`None`).
-/

structure View (w : Nat) where
  virt : Option (Pfx w)
  path : List Bool
deriving DecidableEq

namespace Tree
variable {w : Nat} {V : Type}

/-- the loop of `find`: result = (virtual prefix, path below the start node) -/
def findGo : Tree w V → Pfx w → Option (Option (Pfx w) × List Bool)
  | nil, _ => none
  | node _ p _ l r, q =>
    match dirIns p l r q with
    | .reached => some (none, [])
    | .enter true => (findGo r q).map (fun x => (x.1, true :: x.2))
    | .enter false => (findGo l q).map (fun x => (x.1, false :: x.2))
    | .newChild right _ => some (some q, [right])
    | .newLeaf _ => none
    | .newBranch _ _ _ => none

/-- the loop of `find_exact` -/
def findExactGo : Tree w V → Pfx w → Option (List Bool)
  | nil, _ => none
  | node _ p v l r, q =>
    match getDir p l r q with
    | .reached => if v.isSome then some [] else none
    | .enter true => (findExactGo r q).map (fun x => true :: x)
    | .enter false => (findExactGo l q).map (fun x => false :: x)
    | .missing => none

/-- the loop of `find_lpm`: `best` is the path of the deepest valued node seen so far -/
def findLpmGo : Tree w V → Pfx w → List Bool → Option (List Bool) → Option (List Bool)
  | nil, _, _, best => best
  | node _ p v l r, q, here, best =>
    match getDir p l r q with
    | .enter true => findLpmGo r q (here ++ [true]) (if v.isSome then some here else best)
    | .enter false => findLpmGo l q (here ++ [false]) (if v.isSome then some here else best)
    | _ => if v.isSome then some here else best

end Tree

namespace View
variable {w : Nat} {V : Type}

/-- `map.view()` -/
def root : View w := ⟨none, []⟩

/-- the real node `loc.idx()` -/
def node (v : View w) (t : Tree w V) : Tree w V := t.sub v.path

/-- `find` (with the check for a query above the view's first real node) -/
def find (t : Tree w V) (v : View w) (q : Pfx w) : Option (View w) :=
  match (v.node t).pfx? with
  | none => none
  | some rp =>
    if q.len < rp.len && q.contains rp then some ⟨some q, v.path⟩
    else ((v.node t).findGo q).map (fun x => ⟨x.1, v.path ++ x.2⟩)

/-- `find_exact` -/
def findExact (t : Tree w V) (v : View w) (q : Pfx w) : Option (View w) :=
  ((v.node t).findExactGo q).map (fun x => ⟨none, v.path ++ x⟩)

/-- `find_lpm` (with the check that the view's first real node covers the query) -/
def findLpm (t : Tree w V) (v : View w) (q : Pfx w) : Option (View w) :=
  match (v.node t).pfx? with
  | none => none
  | some rp =>
    if !rp.contains q then none
    else ((v.node t).findLpmGo q [] none).map (fun x => ⟨none, v.path ++ x⟩)

/-- `left()` -/
def left (t : Tree w V) (v : View w) : Option (View w) :=
  match v.virt, v.node t with
  | none, .node _ _ _ (.node ..) _ => some ⟨none, v.path ++ [false]⟩
  | none, _ => none
  | some p, .node _ np _ _ _ => if !Pfx.toRight p np then some ⟨none, v.path⟩ else none
  | some _, .nil => none

/-- `right()` -/
def right (t : Tree w V) (v : View w) : Option (View w) :=
  match v.virt, v.node t with
  | none, .node _ _ _ _ (.node ..) => some ⟨none, v.path ++ [true]⟩
  | none, _ => none
  | some p, .node _ np _ _ _ => if Pfx.toRight p np then some ⟨none, v.path⟩ else none
  | some _, .nil => none

/-- `prefix()` -/
def pfx (t : Tree w V) (v : View w) : Option (Pfx w) :=
  match v.virt with
  | some p => some p
  | none => (v.node t).pfx?

/-- `value()` -/
def value (t : Tree w V) (v : View w) : Option V :=
  match v.virt with
  | some _ => none
  | none => (v.node t).value?

/-- `prefix_value()` -/
def prefixValue (t : Tree w V) (v : View w) : Option (Pfx w × V) :=
  match v.virt with
  | some _ => none
  | none => (v.node t).pv

/-- `iter()` / `into_iter()` / `iter_mut()`: the iterator starts from `vec![loc.idx()]` -/
def iter (t : Tree w V) (v : View w) : List (Pfx w × V) := Tree.iterAll [v.node t]

/-- entries of the view, specification form -/
def entries (t : Tree w V) (v : View w) : List (Pfx w × V) := (v.node t).entries

end View

namespace PMap
variable {w : Nat} {V : Type}

/-- `TrieViewMut::remove`: `Some(old)` taken from a real node; virtual views have no node -/
def viewRemove (m : PMap w V) (v : View w) : PMap w V × Option V :=
  match v.virt with
  | some _ => (m, none)
  | none =>
    (⟨m.root.modifyAt v.path (fun t => t.withValue none), m.free, m.alloc,
        if (v.node m.root).value?.isSome then m.count - 1 else m.count⟩,
      (v.node m.root).value?)

/-- `TrieViewMut::set`: `Ok(old)` on a real node, `Err(value)` (= `none` here) on a virtual one -/
def viewSet (m : PMap w V) (v : View w) (x : V) : PMap w V × Option (Option V) :=
  match v.virt with
  | some _ => (m, none)
  | none =>
    (⟨m.root.modifyAt v.path (fun t => t.withValue (some x)), m.free, m.alloc,
        if (v.node m.root).value?.isSome then m.count else m.count + 1⟩,
      some (v.node m.root).value?)

end PMap
