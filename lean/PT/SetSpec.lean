import PT.SetOps
import PT.Spec
/-!
# Specification of the simultaneous traversals, on keyed entry lists

An operand is the entry list of a view: `(slot, stored prefix, value)` triples in ascending key order
(the slot only says where a `*_mut` variant writes; the specification never inspects it).  These are
the definitions the theorems of C05–C08 are about **and** the functions the correspondence driver
evaluates for its `S` lines (on the abstract maps' entries, slot 0).
-/
namespace SetOps
variable {w : Nat} {L R T : Type}
open Tree Pfx

/-- entries with slots: (slot, stored prefix, value) -/
abbrev KL (w : Nat) (T : Type) := List (Nat × Pfx w × T)

def keyOf (x : Nat × Pfx w × T) : List Bool := x.2.1.net

/-- the entry stored under key `k` -/
def lookupK (B : KL w T) (k : List Bool) : Option (Nat × Pfx w × T) := B.find? (fun b => keyOf b == k)

/-! ### intersection -/

def interS (A : KL w L) (B : KL w R) : List (IItem w L R) :=
  A.filterMap (fun a => (lookupK B (keyOf a)).map (fun b => ⟨a.2.1, (a.1, a.2.2), (b.1, b.2.2)⟩))

/-! ### difference, covering difference -/

/-- `a.or(b)` -/
def orE {α : Type} (a b : Option α) : Option α :=
  match a with
  | some x => some x
  | none => b

/-- entries of `B` whose prefix covers `p`, in list order -/
def coverK (B : KL w R) (p : Pfx w) : KL w R := B.filter (fun b => b.2.1.contains p)

/-- the longest-prefix match of `p` among the entries `B` (a pre-order entry list: covering
entries appear by increasing length, so the last one is the longest) -/
def lpmK (B : KL w R) (p : Pfx w) : Lpm w R := ((coverK B p).getLast?).map (fun b => (b.2.1, b.2.2))

/-- difference, specification: the entries of `A` whose key is not stored in `B`, each annotated
with its longest-prefix match in `B` (or `base`, the match inherited from above `B`) -/
def diffS (A : KL w L) (B : KL w R) (base : Lpm w R) : List (DItem w L R) :=
  A.filterMap (fun a =>
    match lookupK B (keyOf a) with
    | some _ => none
    | none => some ⟨a.2.1, (a.1, a.2.2), orE (lpmK B a.2.1) base⟩)

/-- covering difference, specification: the entries of `A` not covered by any prefix stored in `B` -/
def covDiffS (A : KL w L) (B : KL w R) : List (DItem w L R) :=
  A.filterMap (fun a => if (coverK B a.2.1).isEmpty then some ⟨a.2.1, (a.1, a.2.2), none⟩ else none)

/-! ### union -/

/-- what `UnionItem` exposes: the reported prefix, the value(s) (with slot), and for one-sided items
the longest-prefix match on the other side -/
inductive UV (w : Nat) (L R : Type) where
  | left (p : Pfx w) (l : Nat × L) (lpmR : Lpm w R)
  | right (p : Pfx w) (lpmL : Lpm w L) (r : Nat × R)
  | both (p : Pfx w) (l : Nat × L) (r : Nat × R)

def UV.key : UV w L R → List Bool
  | .left p _ _ => p.net
  | .right p _ _ => p.net
  | .both p _ _ => p.net

/-- the view of a yielded machine item -/
def UItem.view (it : UItem w L R) : Option (UV w L R) :=
  match it.l, it.r with
  | some l, none => some (.left it.p l it.lpmR)
  | none, some r => some (.right it.p it.lpmL r)
  | some l, some r => some (.both it.p l r)
  | none, none => none

def mkLeft (fL : Pfx w → Lpm w R) (a : Nat × Pfx w × L) : UV w L R := .left a.2.1 (a.1, a.2.2) (fL a.2.1)
def mkRight (fR : Pfx w → Lpm w L) (b : Nat × Pfx w × R) : UV w L R := .right b.2.1 (fR b.2.1) (b.1, b.2.2)

/-- union, specification: the sorted merge of the two (key-sorted) entry lists; a key stored on both
sides gives one `both` item (reporting the left operand's stored prefix); one-sided items are
annotated by `fL` / `fR` -/
def unionS (fL : Pfx w → Lpm w R) (fR : Pfx w → Lpm w L) : KL w L → KL w R → List (UV w L R)
  | [], bs => bs.map (mkRight fR)
  | a :: as, [] => (a :: as).map (mkLeft fL)
  | a :: as, b :: bs =>
    if keyOf a = keyOf b then .both a.2.1 (a.1, a.2.2) (b.1, b.2.2) :: unionS fL fR as bs
    else if Spec.keyLt (keyOf a) (keyOf b) then mkLeft fL a :: unionS fL fR as (b :: bs)
    else mkRight fR b :: unionS fL fR (a :: as) bs
termination_by as bs => as.length + bs.length

/-- annotation of a one-sided item with prefix `p`: its longest-prefix match among the other side's
entries `B`, else the match inherited from above -/
def annOf {T : Type} (B : KL w T) (base : Lpm w T) : Pfx w → Lpm w T := fun p => orE (lpmK B p) base


/-- `union(a, b)` as specified: the sorted merge with each one-sided item annotated by its
longest-prefix match among the other operand's entries -/
def unionSpec (A : KL w L) (B : KL w R) : List (UV w L R) := unionS (annOf B none) (annOf A none) A B

end SetOps
