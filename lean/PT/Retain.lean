import PT.MapOps
/-!
# `PrefixMap::_retain` as written: the recursion with the `idx_removed` / `par_removed` flags

`retainF f t hasPar n` is `_retain(idx, par, …)` on the subtree `t` hanging at a position whose
parent exists iff `hasPar`, with `n` predicate calls left before the predicate panics
(`n ≥` number of entries: the predicate never panics).  The result is what now stands at that
position.  Rust's flag "my parent was removed (and replaced by my sibling)" is computed by the
parent frame from `leaf` (the root of this position was removed as a leaf by the last
`_remove_node`), exactly as `_remove_node` decides it: `leaf ∧ grand-parent exists ∧ parent holds no
value` (`Tree.afterChild` does the same for `remove`).
-/
namespace Tree
variable {w : Nat} {V : Type}

structure RetRes (w : Nat) (V : Type) where
  t : Tree w V
  leaf : Bool
  freed : List Nat
  removed : Nat
  budget : Nat
  aborted : Bool

def retainF (f : Pfx w → V → Bool) : Tree w V → Bool → Nat → RetRes w V
  | nil, _, n => ⟨nil, false, [], 0, n, false⟩
  | node s p v l r, hp, n =>
    -- `if let Some(left) = …left { (f, idx_removed) = self._retain(left, Some(idx), false, par, par_right, f) }`
    let rl := retainF f l true n
    if rl.aborted then ⟨node s p v rl.t r, false, rl.freed, rl.removed, rl.budget, true⟩
    else if rl.leaf && hp && v.isNone then
      -- the left child was removed as a leaf, this node holds no value and has a parent: `_remove_node`
      -- replaced it by its right child (freed it; `idx_removed` if there is a right child) —
      -- `self._retain(right, par, par_right, grp, grp_right, f)`: the right child in this node's position
      let rr := retainF f r hp rl.budget
      ⟨rr.t, rr.leaf, rl.freed ++ [s] ++ rr.freed, rl.removed + rr.removed, rr.budget, rr.aborted⟩
    else
      -- `self._retain(right, Some(idx), true, par, par_right, f)`; its flag is ignored
      let rr := retainF f r true rl.budget
      if rr.aborted then
        ⟨node s p v rl.t rr.t, false, rl.freed ++ rr.freed, rl.removed + rr.removed, rr.budget, true⟩
      else if rr.leaf && hp && v.isNone then
        -- the right child was removed as a leaf and took this (value-less) node with it: the left child
        -- (if any) now stands here; `self.table[idx].value` is `None`, nothing more happens in this frame
        ⟨rl.t, false, rl.freed ++ rr.freed ++ [s], rl.removed + rr.removed, rr.budget, false⟩
      else
        match v with
        | none => ⟨node s p none rl.t rr.t, false, rl.freed ++ rr.freed, rl.removed + rr.removed, rr.budget, false⟩
        | some x =>
          match rr.budget with
          | 0 => ⟨node s p v rl.t rr.t, false, rl.freed ++ rr.freed, rl.removed + rr.removed, 0, true⟩
          | b + 1 =>
            if f p x then
              ⟨node s p v rl.t rr.t, false, rl.freed ++ rr.freed, rl.removed + rr.removed, b, false⟩
            else
              let h := removeHere s p v rl.t rr.t hp
              ⟨h.t, h.leaf, rl.freed ++ rr.freed ++ h.freed, rl.removed + rr.removed + 1, b, false⟩

end Tree

namespace PMap
variable {w : Nat} {V : Type}

/-- `PrefixMap::retain` through the recursion (`stop = some k`: the predicate panics at its `k`-th call) -/
def retainRec (m : PMap w V) (f : Pfx w → V → Bool) (stop : Option Nat := none) : PMap w V :=
  let n := match stop with
    | none => m.root.postorder.length
    | some k => k - 1
  let r := m.root.retainF f false n
  ⟨r.t, m.free ++ r.freed, m.alloc, m.count - r.removed⟩

end PMap
