import PT.Lemmas.Refine
/-!
# Canonical shape

`Canon isRoot t`: every value-less node other than the root has two children.  `insert` and `remove`
(hence `retain`, a fold of `remove` in the model, and `collect`, a fold of `insert`) preserve it; and a
well-formed canonical tree is determined, up to slot numbers, host bits of value-less nodes and the
values themselves, by the list of its keys (`shape_unique`).
-/
namespace Tree
variable {w : Nat} {V : Type}
open Pfx

def Canon : Bool → Tree w V → Prop
  | _, nil => True
  | isRoot, node _ _ v l r =>
    (isRoot = true ∨ v.isSome = true ∨ (l.isNil = false ∧ r.isNil = false)) ∧ Canon false l ∧ Canon false r

/-- the shape observable through views: key (network form) and value presence of every node -/
inductive Shape where
  | nil
  | node (key : List Bool) (valued : Bool) (l r : Shape)
deriving DecidableEq

def shape : Tree w V → Shape
  | nil => .nil
  | node _ p v l r => .node p.net v.isSome (shape l) (shape r)

def keys (t : Tree w V) : List (List Bool) := t.entries.map (·.1.net)

theorem Canon.weaken {b : Bool} {t : Tree w V} (h : Canon false t) : Canon b t := by
  cases t with
  | nil => trivial
  | node s p v l r =>
    refine ⟨?_, h.2.1, h.2.2⟩
    rcases h.1 with h1 | h1 | h1
    · cases h1
    · exact .inr (.inl h1)
    · exact .inr (.inr h1)

theorem Canon.child {b : Bool} {s : Nat} {p : Pfx w} {v : Option V} {l r : Tree w V}
    (h : Canon b (node s p v l r)) (right : Bool) : Canon false (child l r right) := by
  cases right
  · exact h.2.1
  · exact h.2.2

theorem canon_setChild {b : Bool} {s : Nat} {p : Pfx w} {v : Option V} {l r : Tree w V}
    (h : Canon b (node s p v l r)) (right : Bool) {c : Tree w V} (hc : Canon false c)
    (hn : b = true ∨ v.isSome = true ∨ c.isNil = false) : Canon b (setChild s p v l r right c) := by
  unfold setChild
  cases right
  · simp only [Bool.false_eq_true, ite_false]
    refine ⟨?_, hc, h.2.2⟩
    rcases hn with hn | hn | hn
    · exact .inl hn
    · exact .inr (.inl hn)
    · rcases h.1 with h1 | h1 | h1
      · exact .inl h1
      · exact .inr (.inl h1)
      · exact .inr (.inr ⟨hn, h1.2⟩)
  · simp only [ite_true]
    refine ⟨?_, h.2.1, hc⟩
    rcases hn with hn | hn | hn
    · exact .inl hn
    · exact .inr (.inl hn)
    · rcases h.1 with h1 | h1 | h1
      · exact .inl h1
      · exact .inr (.inl h1)
      · exact .inr (.inr ⟨h1.1, hn⟩)

/-! ### insert -/

theorem insert_isNil (t : Tree w V) (q : Pfx w) (x : V) (s1 s2 : Nat) :
    (insert t q x s1 s2).t.isNil = t.isNil := by
  cases t with
  | nil => rfl
  | node s p v l r =>
    unfold insert
    split <;> simp only [InsRes.mapT, setChild] <;> (try split) <;> rfl

theorem insert_canon {b : Bool} {t : Tree w V} (h : Canon b t) (q : Pfx w) (x : V) (s1 s2 : Nat) :
    Canon b (insert t q x s1 s2).t := by
  induction t generalizing b with
  | nil => exact h
  | node s p v l r ihl ihr =>
    unfold insert
    split
    · exact ⟨.inr (.inl rfl), h.2.1, h.2.2⟩
    · next hd =>
      obtain ⟨_, _, cs, cp, cv, cl, cr, hch, _⟩ := dirIns_enter hd
      simp only [child_true] at hch
      have := canon_setChild h true (ihr h.2.2) (.inr (.inr (by rw [insert_isNil, hch]; rfl)))
      simpa [setChild, InsRes.mapT] using this
    · next hd =>
      obtain ⟨_, _, cs, cp, cv, cl, cr, hch, _⟩ := dirIns_enter hd
      simp only [child_false] at hch
      have := canon_setChild h false (ihl h.2.1) (.inr (.inr (by rw [insert_isNil, hch]; rfl)))
      simpa [setChild, InsRes.mapT] using this
    · next right hd =>
      exact canon_setChild h right (c := leaf s1 q x) ⟨.inr (.inl rfl), trivial, trivial⟩ (.inr (.inr rfl))
    · next right cr hd =>
      refine canon_setChild h right (c := mkChild s1 q x (child l r right) cr) ?_ (.inr (.inr ?_))
      · unfold mkChild
        cases cr
        · exact ⟨.inr (.inl rfl), h.child right, trivial⟩
        · exact ⟨.inr (.inl rfl), trivial, h.child right⟩
      · unfold mkChild; cases cr <;> rfl
    · next bp right pr hd =>
      obtain ⟨_, _, cs, cp, cv, cl, crr, hch, _⟩ := dirIns_newBranch hd
      refine canon_setChild h right (c := mkBranch s1 bp s2 q x (child l r right) pr) ?_ (.inr (.inr ?_))
      · have hc := h.child right
        rw [hch] at hc ⊢
        unfold mkBranch
        cases pr
        · exact ⟨.inr (.inr ⟨rfl, rfl⟩), ⟨.inr (.inl rfl), trivial, trivial⟩, hc⟩
        · exact ⟨.inr (.inr ⟨rfl, rfl⟩), hc, ⟨.inr (.inl rfl), trivial, trivial⟩⟩
      · unfold mkBranch; cases pr <;> rfl

/-! ### remove -/

theorem removeHere_canon {b : Bool} {s : Nat} {p : Pfx w} {v : Option V} {l r : Tree w V}
    (h : Canon b (node s p v l r)) :
    Canon b (removeHere s p v l r (!b)).t ∧
      ((removeHere s p v l r (!b)).leaf = false → (removeHere s p v l r (!b)).t.isNil = false) := by
  unfold removeHere
  cases l with
  | nil =>
    cases r with
    | nil =>
      cases b
      · exact ⟨trivial, by simp⟩
      · exact ⟨⟨.inl rfl, trivial, trivial⟩, fun _ => rfl⟩
    | node rs rp rv rl rr =>
      cases b
      · exact ⟨h.2.2, fun _ => rfl⟩
      · exact ⟨⟨.inl rfl, trivial, h.2.2⟩, fun _ => rfl⟩
  | node ls lp lv ll lr =>
    cases r with
    | nil =>
      cases b
      · exact ⟨h.2.1, fun _ => rfl⟩
      · exact ⟨⟨.inl rfl, h.2.1, trivial⟩, fun _ => rfl⟩
    | node rs rp rv rl rr =>
      exact ⟨⟨.inr (.inr ⟨rfl, rfl⟩), h.2.1, h.2.2⟩, fun _ => rfl⟩

theorem afterChild_canon {b : Bool} {s : Nat} {p : Pfx w} {v : Option V} {l r : Tree w V}
    (h : Canon b (node s p v l r)) (right : Bool) (res : RemRes w V)
    (hres : Canon false res.t) (hnil : res.leaf = false → res.t.isNil = false) :
    Canon b (afterChild s p v l r right (!b) res).t ∧
      (afterChild s p v l r right (!b) res).leaf = false ∧
      (afterChild s p v l r right (!b) res).t.isNil = false := by
  unfold afterChild
  split
  · next hc =>
    simp only [Bool.and_eq_true, Bool.not_eq_true', Option.isNone_iff_eq_none] at hc
    obtain ⟨⟨_, hb⟩, hv⟩ := hc
    subst hb hv
    have h2 : l.isNil = false ∧ r.isNil = false := by
      rcases h.1 with h1 | h1 | h1
      · cases h1
      · cases h1
      · exact h1
    refine ⟨(h.child (!right)).weaken, rfl, ?_⟩
    cases right
    · exact h2.2
    · exact h2.1
  · next hc =>
    refine ⟨canon_setChild h right hres ?_, rfl, ?_⟩
    · cases b
      · cases hv : v with
        | some _ => exact .inr (.inl rfl)
        | none =>
          refine .inr (.inr (hnil ?_))
          cases hl : res.leaf
          · rfl
          · exfalso; apply hc; simp [hl, hv]
      · exact .inl rfl
    · unfold setChild; split <;> rfl

theorem remove_canon {b : Bool} {t : Tree w V} (h : Canon b t) (q : Pfx w) :
    Canon b (remove t q (!b)).t ∧
      ((remove t q (!b)).leaf = false → t.isNil = false → (remove t q (!b)).t.isNil = false) := by
  induction t generalizing b with
  | nil => exact ⟨trivial, fun _ h => by cases h⟩
  | node s p v l r ihl ihr =>
    unfold remove
    split
    · have := removeHere_canon h
      exact ⟨this.1, fun hl _ => this.2 hl⟩
    · next hd =>
      obtain ⟨_, _, cs, cp, cv, cl, cr, hch, _⟩ := getDir_enter hd
      simp only [child_true] at hch
      have ih := ihr (b := false) h.2.2
      have := afterChild_canon h true (remove r q true) ih.1 (fun hl => ih.2 hl (by rw [hch]; rfl))
      exact ⟨this.1, fun _ _ => this.2.2⟩
    · next hd =>
      obtain ⟨_, _, cs, cp, cv, cl, cr, hch, _⟩ := getDir_enter hd
      simp only [child_false] at hch
      have ih := ihl (b := false) h.2.1
      have := afterChild_canon h false (remove l q true) ih.1 (fun hl => ih.2 hl (by rw [hch]; rfl))
      exact ⟨this.1, fun _ _ => this.2.2⟩
    · exact ⟨h, fun _ _ => rfl⟩

/-! ### a canonical well-formed tree is determined by its keys -/

theorem keys_node (s : Nat) (p : Pfx w) (v : Option V) (l r : Tree w V) :
    keys (node s p v l r) = (if v.isSome then [p.net] else []) ++ keys l ++ keys r := by
  simp only [keys, entries, List.map_append]
  cases v <;> simp

theorem mem_keys_under {k : List Bool} {t : Tree w V} (h : WF k t) {x : List Bool} (hx : x ∈ keys t) :
    k <+: x := by
  unfold keys at hx
  obtain ⟨e, he, rfl⟩ := List.mem_map.1 hx
  exact WF.mem_entries h he

/-- a canonical non-root subtree that is not `nil` stores at least one entry -/
theorem keys_ne_nil {t : Tree w V} (h : Canon false t) (hn : t.isNil = false) : keys t ≠ [] := by
  induction t with
  | nil => cases hn
  | node s p v l r ihl _ =>
    rw [keys_node]
    rcases h.1 with h1 | h1 | h1
    · cases h1
    · simp [h1]
    · have := ihl h.2.1 h1.1
      cases hk : keys l with
      | nil => exact absurd hk this
      | cons a as => simp

/-- any common prefix of all keys of a canonical non-root node is at most as long as the node's own
prefix: either the node's prefix is a key, or two keys diverge right after it -/
theorem common_prefix_le {k : List Bool} {s : Nat} {p : Pfx w} {v : Option V} {l r : Tree w V}
    (hwf : WF k (node s p v l r)) (hc : Canon false (node s p v l r)) (c : List Bool)
    (hall : ∀ x ∈ keys (node s p v l r), c <+: x) : c.length ≤ p.net.length := by
  rcases hc.1 with h1 | h1 | h1
  · cases h1
  · have : p.net ∈ keys (node s p v l r) := by rw [keys_node]; simp [h1]
    exact (hall _ this).length_le
  · obtain ⟨a, ha⟩ := List.exists_mem_of_ne_nil _ (keys_ne_nil hc.2.1 h1.1)
    obtain ⟨b, hb⟩ := List.exists_mem_of_ne_nil _ (keys_ne_nil hc.2.2 h1.2)
    have ha' : p.net ++ [false] <+: a := mem_keys_under hwf.2.1 ha
    have hb' : p.net ++ [true] <+: b := mem_keys_under hwf.2.2 hb
    have hca : c <+: a := hall a (by rw [keys_node]; simp [ha])
    have hcb : c <+: b := hall b (by rw [keys_node]; simp [hb])
    refine Nat.le_of_not_lt (fun hlt => ?_)
    have hlt : p.net.length + 1 ≤ c.length := hlt
    have h1 : p.net ++ [false] <+: c := List.prefix_of_prefix_length_le ha' hca (by simpa using hlt)
    have h2 : p.net ++ [true] <+: c := List.prefix_of_prefix_length_le hb' hcb (by simpa using hlt)
    have := List.prefix_of_prefix_length_le h1 h2 (by simp)
    have := this.eq_of_length (by simp)
    simp at this

/-- splitting a list at a predicate boundary is unique -/
theorem append_split_unique {α : Type} (P : α → Bool) {a1 b1 a2 b2 : List α}
    (h : a1 ++ b1 = a2 ++ b2) (ha1 : ∀ x ∈ a1, P x = true) (ha2 : ∀ x ∈ a2, P x = true)
    (hb1 : ∀ x ∈ b1, P x = false) (hb2 : ∀ x ∈ b2, P x = false) : a1 = a2 ∧ b1 = b2 := by
  have f : ∀ (a b : List α), (∀ x ∈ a, P x = true) → (∀ x ∈ b, P x = false) → (a ++ b).filter P = a := by
    intro a b ha hb
    rw [List.filter_append, List.filter_eq_self.2 ha, List.filter_eq_nil_iff.2 (by simpa using hb), List.append_nil]
  have e : a1 = a2 := by rw [← f a1 b1 ha1 hb1, ← f a2 b2 ha2 hb2, h]
  subst e
  exact ⟨rfl, List.append_cancel_left h⟩

theorem shape_unique {k : List Bool} {b : Bool} {t1 : Tree w V} {V' : Type} {t2 : Tree w V'}
    (h1 : WF k t1) (h2 : WF k t2) (c1 : Canon b t1) (c2 : Canon b t2)
    (hroot : b = true → (∃ p, t1.pfx? = some p ∧ p.net = k) ∧ (∃ p, t2.pfx? = some p ∧ p.net = k))
    (hk : keys t1 = keys t2) : shape t1 = shape t2 := by
  induction t1 generalizing k b t2 with
  | nil =>
    cases t2 with
    | nil => rfl
    | node s2 p2 v2 l2 r2 =>
      cases b
      · exact absurd hk.symm (keys_ne_nil c2 rfl)
      · obtain ⟨⟨p, hp, _⟩, _⟩ := hroot rfl
        simp [pfx?] at hp
  | node s1 p1 v1 l1 r1 ihl ihr =>
    cases t2 with
    | nil =>
      cases b
      · exact absurd hk (keys_ne_nil c1 rfl)
      · obtain ⟨_, ⟨p, hp, _⟩⟩ := hroot rfl
        simp [pfx?] at hp
    | node s2 p2 v2 l2 r2 =>
      -- the two nodes have the same key
      have hp : p1.net = p2.net := by
        cases b
        · obtain ⟨x, hx⟩ := List.exists_mem_of_ne_nil _ (keys_ne_nil c1 rfl)
          have x1 : p1.net <+: x := mem_keys_under h1.self hx
          have x2 : p2.net <+: x := mem_keys_under h2.self (hk ▸ hx)
          have l12 := common_prefix_le h2 c2 p1.net (fun y hy => mem_keys_under h1.self (hk ▸ hy))
          have l21 := common_prefix_le h1 c1 p2.net (fun y hy => mem_keys_under h2.self (hk ▸ hy))
          exact (List.prefix_of_prefix_length_le x1 x2 l12).eq_of_length (by omega)
        · obtain ⟨⟨q1, hq1, e1⟩, ⟨q2, hq2, e2⟩⟩ := hroot rfl
          simp only [pfx?, Option.some.injEq] at hq1 hq2
          subst hq1 hq2
          rw [e1, e2]
      -- keys of the children lie strictly below the node's key
      have below : ∀ {V'' : Type} {s : Nat} {p : Pfx w} {v : Option V''} {l r : Tree w V''} {kk : List Bool},
          WF kk (node s p v l r) → ∀ x ∈ keys l ++ keys r, x ≠ p.net := by
        intro V'' s p v l r kk hw x hx e
        rcases List.mem_append.1 hx with hx | hx
        · have := (mem_keys_under hw.2.1 hx).length_le; rw [e] at this; simp at this; omega
        · have := (mem_keys_under hw.2.2 hx).length_le; rw [e] at this; simp at this; omega
      rw [keys_node, keys_node, List.append_assoc, List.append_assoc] at hk
      have hv : v1.isSome = v2.isSome := by
        cases e1 : v1.isSome <;> cases e2 : v2.isSome <;> try rfl
        · rw [e1, e2] at hk
          simp only [Bool.false_eq_true, ite_false, ite_true, List.nil_append, List.cons_append] at hk
          exact absurd (hp ▸ rfl : p2.net = p1.net) (below h1 p2.net (hk ▸ List.mem_cons_self ..))
        · rw [e1, e2] at hk
          simp only [Bool.false_eq_true, ite_false, ite_true, List.nil_append, List.cons_append] at hk
          exact absurd hp (below h2 p1.net (hk ▸ List.mem_cons_self ..))
      have hk' : keys l1 ++ keys r1 = keys l2 ++ keys r2 := by
        rw [hv, hp] at hk
        exact List.append_cancel_left hk
      let P : List Bool → Bool := fun x => (p1.net ++ [false]).isPrefixOf x
      have onL : ∀ {V'' : Type} {l : Tree w V''}, WF (p1.net ++ [false]) l → ∀ x ∈ keys l, P x = true := by
        intro V'' l hw x hx
        exact List.isPrefixOf_iff_prefix.2 (mem_keys_under hw hx)
      have onR : ∀ {V'' : Type} {r : Tree w V''}, WF (p1.net ++ [true]) r → ∀ x ∈ keys r, P x = false := by
        intro V'' r hw x hx
        rw [Bool.eq_false_iff]
        intro hP
        have a := List.isPrefixOf_iff_prefix.1 hP
        have b' := mem_keys_under hw hx
        have := (List.prefix_of_prefix_length_le a b' (by simp)).eq_of_length (by simp)
        simp at this
      obtain ⟨el, er⟩ := append_split_unique P hk' (onL h1.2.1) (onL (hp ▸ h2.2.1)) (onR h1.2.2) (onR (hp ▸ h2.2.2))
      have sl := ihl (k := p1.net ++ [false]) (b := false) h1.2.1 (hp ▸ h2.2.1) c1.2.1 c2.2.1 (fun h => by cases h) el
      have sr := ihr (k := p1.net ++ [true]) (b := false) h1.2.2 (hp ▸ h2.2.2) c1.2.2 c2.2.2 (fun h => by cases h) er
      simp only [shape, hp, hv, sl, sr]

end Tree

namespace Tree
variable {w : Nat} {V : Type}

theorem modifyValue_isNil (t : Tree w V) (q : Pfx w) (f : V → V) : (modifyValue t q f).isNil = t.isNil := by
  cases t with
  | nil => rfl
  | node s p v l r => unfold modifyValue; split <;> rfl

theorem modifyValue_canon {b : Bool} {t : Tree w V} (h : Canon b t) (q : Pfx w) (f : V → V) :
    Canon b (modifyValue t q f) := by
  induction t generalizing b with
  | nil => exact h
  | node s p v l r ihl ihr =>
    unfold modifyValue
    split
    · refine ⟨?_, h.2.1, h.2.2⟩
      rcases h.1 with h1 | h1 | h1
      · exact .inl h1
      · exact .inr (.inl (by simpa using h1))
      · exact .inr (.inr h1)
    · refine ⟨?_, h.2.1, ihr h.2.2⟩
      rw [modifyValue_isNil]; exact h.1
    · refine ⟨?_, ihl h.2.1, h.2.2⟩
      rw [modifyValue_isNil]; exact h.1
    · exact h

end Tree

namespace PMap
variable {w : Nat} {V : Type}
open Tree

/-- every value-less node other than the root has two children -/
def Canonical (m : PMap w V) : Prop := Canon true m.root

theorem empty_canonical : (empty : PMap w V).Canonical := ⟨.inl rfl, trivial, trivial⟩

theorem insert_canonical {m : PMap w V} (h : m.Canonical) (q : Pfx w) (x : V) : (m.insert q x).1.Canonical :=
  insert_canon (t := m.root) h q x _ _

theorem remove_canonical {m : PMap w V} (h : m.Canonical) (q : Pfx w) : (m.remove q).1.Canonical :=
  (remove_canon (b := true) (t := m.root) h q).1

theorem modify_canonical {m : PMap w V} (h : m.Canonical) (q : Pfx w) (f : V → V) : (m.modify q f).Canonical :=
  modifyValue_canon (t := m.root) h q f

theorem orInsert_canonical {m : PMap w V} (h : m.Canonical) (q : Pfx w) (x : V) : (m.orInsert q x).1.Canonical := by
  unfold orInsert
  split
  · exact h
  · exact insert_canonical h q x

theorem retain_canonical {m : PMap w V} (h : m.Canonical) (f : Pfx w → V → Bool) (stop : Option Nat) :
    (m.retain f stop).Canonical := by
  unfold retain
  generalize m.retainCalls stop = calls
  induction calls generalizing m with
  | nil => exact h
  | cons c cs ih =>
    simp only [List.foldl_cons]
    apply ih
    unfold retainStep
    split
    · exact h
    · exact remove_canonical h _

theorem collect_canonical (xs : List (Pfx w × V)) : (collect xs).Canonical := by
  unfold collect
  suffices ∀ m : PMap w V, m.Canonical → (xs.foldl (fun m e => (m.insert e.1 e.2).1) m).Canonical from
    this _ empty_canonical
  induction xs with
  | nil => intro m h; exact h
  | cons e es ih => intro m h; exact ih _ (insert_canonical h _ _)

/-- the sub-alphabet of the canonical-shape clause: insertion (`insert`, Entry API, `collect`),
value writes, `remove`, `retain` (complete or cut short by a panicking predicate) and `clear` -/
def Op.Canonical : Op w V → Prop
  | .removeKeepTree _ => False
  | .removeChildren _ => False
  | .viewSet _ _ _ => False
  | .viewRemove _ _ => False
  | _ => True

theorem apply_canonical {m : PMap w V} (h : m.Canonical) (op : Op w V) (hop : op.Canonical) :
    (op.apply m).Canonical := by
  cases op with
  | insert q x => exact insert_canonical h q x
  | orInsert q x => exact orInsert_canonical h q x
  | modify q f => exact modify_canonical h q f
  | remove q => exact remove_canonical h q
  | removeKeepTree q => cases hop
  | removeChildren q => cases hop
  | retain f stop => exact retain_canonical h f stop
  | clear => exact empty_canonical
  | collect xs => exact collect_canonical xs
  | viewSet q cs x => cases hop
  | viewRemove q cs => cases hop

theorem run_canonical (ops : List (Op w V)) (hops : ∀ op ∈ ops, op.Canonical) :
    (run ops (empty : PMap w V)).Canonical := by
  unfold run
  suffices ∀ m : PMap w V, m.Canonical → (ops.foldl Op.apply m).Canonical from this _ empty_canonical
  induction ops with
  | nil => intro m h; exact h
  | cons op ops ih =>
    intro m h
    exact ih (fun o ho => hops o (List.mem_cons_of_mem _ ho)) _ (apply_canonical h op (hops op (List.mem_cons_self ..)))

/-- two canonical well-formed maps (over any value types) with the same key list have the same shape -/
theorem shape_eq_of_keys {V' : Type} {m1 : PMap w V} {m2 : PMap w V'} (h1 : m1.TreeWF) (h2 : m2.TreeWF)
    (c1 : m1.Canonical) (c2 : m2.Canonical)
    (hk : m1.entries.map (·.1.net) = m2.entries.map (·.1.net)) : shape m1.root = shape m2.root := by
  refine shape_unique h1.wf h2.wf c1 c2 (fun _ => ?_) hk
  obtain ⟨p1, v1, l1, r1, e1, n1⟩ := h1.root
  obtain ⟨p2, v2, l2, r2, e2, n2⟩ := h2.root
  exact ⟨⟨p1, by rw [e1]; rfl, n1⟩, ⟨p2, by rw [e2]; rfl, n2⟩⟩

/-- `collect` of a list in which entries with the same key are equal stores exactly its members -/
theorem mem_collect_aux (xs : List (Pfx w × V)) :
    ∀ m : PMap w V, m.TreeWF →
      (∀ a ∈ m.entries, ∀ b ∈ xs, a.1.net = b.1.net → a = b) →
      (∀ a ∈ xs, ∀ b ∈ xs, a.1.net = b.1.net → a = b) →
      ∀ e, e ∈ (xs.foldl (fun m e => (m.insert e.1 e.2).1) m).entries ↔ e ∈ m.entries ∨ e ∈ xs := by
  induction xs with
  | nil => intro m _ _ _ e; simp
  | cons y ys ih =>
    intro m hm hmx hxx e
    simp only [List.foldl_cons]
    have hins : ∀ e, e ∈ (m.insert y.1 y.2).1.entries ↔ e = y ∨ (e ∈ m.entries ∧ e.1.net ≠ y.1.net) :=
      fun e => insert_mem hm.wf y.1 y.2 _ _ (hm.rootCovers y.1) hm.root_ne_nil e
    rw [ih _ (insert_treeWF hm y.1 y.2) ?_ (fun a ha b hb => hxx a (List.mem_cons_of_mem _ ha) b (List.mem_cons_of_mem _ hb)), hins]
    · constructor
      · rintro ((h | ⟨h, _⟩) | h)
        · exact .inr (h ▸ List.mem_cons_self ..)
        · exact .inl h
        · exact .inr (List.mem_cons_of_mem _ h)
      · rintro (h | h)
        · by_cases hk : e.1.net = y.1.net
          · exact .inl (.inl (hmx e h y (List.mem_cons_self ..) hk))
          · exact .inl (.inr ⟨h, hk⟩)
        · rcases List.mem_cons.1 h with h | h
          · exact .inl (.inl h)
          · exact .inr h
    · intro a ha b hb hab
      rcases (hins a).1 ha with h | ⟨h, _⟩
      · subst h; exact hxx _ (List.mem_cons_self ..) b (List.mem_cons_of_mem _ hb) hab
      · exact hmx a h b (List.mem_cons_of_mem _ hb) hab

/-- a fresh build from the entries of `m`, inserted in any order (repetitions allowed), stores the
entry list of `m` -/
theorem collect_entries_of_mem {m : PMap w V} (h : m.TreeWF) (xs : List (Pfx w × V))
    (hx : ∀ e, e ∈ xs ↔ e ∈ m.entries) : (collect xs).entries = m.entries := by
  have ku : ∀ a ∈ xs, ∀ b ∈ xs, a.1.net = b.1.net → a = b := fun a ha b hb hab =>
    WF.key_inj h.wf ((hx a).1 ha) ((hx b).1 hb) hab
  apply Spec.eq_of_sorted (entries_sorted' (collect_inv xs).tree) (entries_sorted' h)
  intro e
  unfold collect
  rw [mem_collect_aux xs _ empty_treeWF (by intro a ha; cases ha) ku e, hx]
  simp [empty, entries, Tree.entries]

end PMap
