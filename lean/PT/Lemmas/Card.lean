import PT.Lemmas.Remove
/-!
# Counting entries and slots through the mutators (for the entry counter and the free list)
-/
namespace Tree
variable {w : Nat} {V : Type}
open Pfx

/-- number of stored entries of a subtree -/
def card (t : Tree w V) : Nat := t.entries.length

theorem card_node (s : Nat) (p : Pfx w) (v : Option V) (l r : Tree w V) :
    (node s p v l r).card = (if v.isSome then 1 else 0) + l.card + r.card := by
  unfold card; rw [entries_node]; cases v <;> simp [own] <;> omega

@[simp] theorem card_nil : (nil : Tree w V).card = 0 := rfl

theorem card_setChild (s : Nat) (p : Pfx w) (v : Option V) (l r c : Tree w V) (b : Bool) :
    (setChild s p v l r b c).card = (if v.isSome then 1 else 0) + c.card + (child l r (!b)).card := by
  cases b <;> simp [card_node] <;> omega

theorem card_node_children (s : Nat) (p : Pfx w) (v : Option V) (l r : Tree w V) (b : Bool) :
    (node s p v l r).card = (if v.isSome then 1 else 0) + (child l r b).card + (child l r (!b)).card := by
  cases b <;> simp [card_node] <;> omega

/-- `insert` adds one entry unless the key was already stored -/
theorem card_insert (t : Tree w V) (hn : t ≠ nil) (q : Pfx w) (x : V) (s1 s2 : Nat) :
    (insert t q x s1 s2).t.card = t.card + (if (insert t q x s1 s2).old.isSome then 0 else 1) := by
  induction t with
  | nil => exact absurd rfl hn
  | node s p v l r ihl ihr =>
    unfold insert
    split
    · simp only [card_node]; cases v <;> simp <;> omega
    · next hd =>
      obtain ⟨_, _, cs, cp, cv, cl, cr, hch, _⟩ := dirIns_enter hd
      simp only [child_true] at hch
      have := ihr (by rw [hch]; simp)
      show (node s p v l (insert r q x s1 s2).t).card = _ + (if (insert r q x s1 s2).old.isSome then 0 else 1)
      rw [card_node, card_node, this]; omega
    · next hd =>
      obtain ⟨_, _, cs, cp, cv, cl, cr, hch, _⟩ := dirIns_enter hd
      simp only [child_false] at hch
      have := ihl (by rw [hch]; simp)
      show (node s p v (insert l q x s1 s2).t r).card = _ + (if (insert l q x s1 s2).old.isSome then 0 else 1)
      rw [card_node, card_node, this]; omega
    · next b hd =>
      obtain ⟨_, _, hch⟩ := dirIns_newLeaf hd
      rw [card_setChild, card_node_children s p v l r b, hch]
      simp [leaf, card_node]; omega
    · next b cr hd =>
      rw [card_setChild, card_node_children s p v l r b]
      have : (mkChild s1 q x (child l r b) cr).card = 1 + (child l r b).card := by
        unfold mkChild; cases cr <;> simp [card_node] <;> omega
      rw [this]; simp; omega
    · next bp b pr hd =>
      rw [card_setChild, card_node_children s p v l r b]
      have : (mkBranch s1 bp s2 q x (child l r b) pr).card = 1 + (child l r b).card := by
        unfold mkBranch; cases pr <;> simp [card_node, leaf] <;> omega
      rw [this]; simp; omega

theorem card_removeHere (s : Nat) (p : Pfx w) (v : Option V) (l r : Tree w V) (hp : Bool) :
    (removeHere s p v l r hp).t.card + (if (removeHere s p v l r hp).val.isSome then 1 else 0) =
      (node s p v l r).card := by
  rw [removeHere_val]
  unfold card; rw [removeHere_entries, entries_node]
  cases v <;> simp [own] <;> omega

/-- `remove` takes away one entry exactly when it returns a value -/
theorem card_remove (t : Tree w V) (q : Pfx w) (hp : Bool) :
    (remove t q hp).t.card + (if (remove t q hp).val.isSome then 1 else 0) = t.card := by
  induction t generalizing hp with
  | nil => rfl
  | node s p v l r ihl ihr =>
    unfold remove
    split
    · exact card_removeHere s p v l r hp
    · have ih := ihr true
      rw [afterChild_val]
      unfold afterChild
      split
      · next hcol =>
        simp only [Bool.and_eq_true, Option.isNone_iff_eq_none] at hcol
        obtain ⟨⟨hleaf, _⟩, hv⟩ := hcol
        rw [remove_leaf hleaf] at ih
        simp only [Bool.not_true, child_false, card_node, hv]
        simp at ih ⊢; omega
      · simp only [setChild_true, card_node]; omega
    · have ih := ihl true
      rw [afterChild_val]
      unfold afterChild
      split
      · next hcol =>
        simp only [Bool.and_eq_true, Option.isNone_iff_eq_none] at hcol
        obtain ⟨⟨hleaf, _⟩, hv⟩ := hcol
        rw [remove_leaf hleaf] at ih
        simp only [Bool.not_false, child_true, card_node, hv]
        simp at ih ⊢; omega
      · simp only [setChild_false, card_node]; omega
    · simp

theorem card_takeValue (t : Tree w V) (q : Pfx w) :
    (takeValue t q).card + (if (get t q).isSome then 1 else 0) = t.card := by
  induction t with
  | nil => rfl
  | node s p v l r ihl ihr =>
    rw [get_node]
    unfold takeValue
    cases hd : getDir p l r q with
    | reached => simp only [card_node]; cases v <;> simp <;> omega
    | missing => simp
    | enter b =>
      cases b
      · simp only [card_node]; omega
      · simp only [card_node]; omega

theorem card_modifyValue (t : Tree w V) (q : Pfx w) (f : V → V) : (modifyValue t q f).card = t.card := by
  induction t with
  | nil => rfl
  | node s p v l r ihl ihr =>
    unfold modifyValue
    split
    · simp only [card_node]; cases v <;> simp
    · simp only [card_node, ihr]
    · simp only [card_node, ihl]
    · rfl

/-! ### slots (as multiplicities: `count a` of the slot list) -/

theorem count_cons' (x a : Nat) (l : List Nat) : (x :: l).count a = (if x = a then 1 else 0) + l.count a := by
  rw [List.count_cons]
  by_cases h : x = a
  · subst h; simp; omega
  · have : ¬ a = x := fun e => h e.symm
    simp [h, this]

theorem count_slots_node (a s : Nat) (p : Pfx w) (v : Option V) (l r : Tree w V) :
    (node s p v l r).slots.count a = (if s = a then 1 else 0) + l.slots.count a + r.slots.count a := by
  simp only [slots, count_cons', List.count_append]; omega

theorem count_slots_setChild (a s : Nat) (p : Pfx w) (v : Option V) (l r c : Tree w V) (b : Bool) :
    (setChild s p v l r b c).slots.count a =
      (if s = a then 1 else 0) + c.slots.count a + (child l r (!b)).slots.count a := by
  cases b <;> simp [count_slots_node] <;> omega

theorem count_slots_children (a s : Nat) (p : Pfx w) (v : Option V) (l r : Tree w V) (b : Bool) :
    (node s p v l r).slots.count a =
      (if s = a then 1 else 0) + (child l r b).slots.count a + (child l r (!b)).slots.count a := by
  cases b <;> simp [count_slots_node] <;> omega

/-- the slots consumed by an insertion: none (`Reached`), `s1` (new leaf / new child) or `s1, s2`
(branch node first, then the new leaf) -/
def newSlots (used s1 s2 : Nat) : List Nat := [s1, s2].take used

/-- after `insert` the subtree occupies its old slots plus the freshly taken ones -/
theorem slots_insert (t : Tree w V) (q : Pfx w) (x : V) (s1 s2 : Nat) (a : Nat) :
    (insert t q x s1 s2).t.slots.count a =
      t.slots.count a + (newSlots (insert t q x s1 s2).used s1 s2).count a := by
  induction t with
  | nil => simp [insert, newSlots, slots]
  | node s p v l r ihl ihr =>
    unfold insert
    split
    · simp [newSlots, count_slots_node]
    · show (node s p v l (insert r q x s1 s2).t).slots.count a = _ + (newSlots (insert r q x s1 s2).used s1 s2).count a
      rw [count_slots_node, count_slots_node, ihr]; omega
    · show (node s p v (insert l q x s1 s2).t r).slots.count a = _ + (newSlots (insert l q x s1 s2).used s1 s2).count a
      rw [count_slots_node, count_slots_node, ihl]; omega
    · next b hd =>
      obtain ⟨_, _, hch⟩ := dirIns_newLeaf hd
      rw [count_slots_setChild, count_slots_children a s p v l r b, hch]
      simp only [leaf, slots, newSlots, List.take, count_cons', List.count_nil, List.count_append]; omega
    · next b cr hd =>
      rw [count_slots_setChild, count_slots_children a s p v l r b]
      have : (mkChild s1 q x (child l r b) cr).slots.count a = (if s1 = a then 1 else 0) + (child l r b).slots.count a := by
        unfold mkChild; cases cr <;> simp only [count_slots_node, slots, List.count_nil, Bool.false_eq_true, ite_false, ite_true, count_cons', List.count_append, List.append_nil, List.nil_append] <;> omega
      rw [this]
      simp only [newSlots, List.take, count_cons', List.count_nil]; omega
    · next bp b pr hd =>
      rw [count_slots_setChild, count_slots_children a s p v l r b]
      have : (mkBranch s1 bp s2 q x (child l r b) pr).slots.count a =
          (if s1 = a then 1 else 0) + (if s2 = a then 1 else 0) + (child l r b).slots.count a := by
        unfold mkBranch; cases pr <;> simp only [count_slots_node, slots, leaf, List.count_nil, Bool.false_eq_true, ite_false, ite_true, count_cons', List.count_append, List.append_nil, List.nil_append] <;> omega
      rw [this]
      simp only [newSlots, List.take, count_cons', List.count_nil]; omega

theorem used_le_two (t : Tree w V) (q : Pfx w) (x : V) (s1 s2 : Nat) : (insert t q x s1 s2).used ≤ 2 := by
  induction t with
  | nil => simp [insert]
  | node s p v l r ihl ihr =>
    unfold insert
    split <;> simp [InsRes.mapT, ihl, ihr]

theorem slots_removeHere (s : Nat) (p : Pfx w) (v : Option V) (l r : Tree w V) (hp : Bool) (a : Nat) :
    (removeHere s p v l r hp).t.slots.count a + (removeHere s p v l r hp).freed.count a =
      (node s p v l r).slots.count a := by
  unfold removeHere
  cases l <;> cases r <;> cases hp <;> simp only [slots, count_cons', List.count_append, List.count_nil, Bool.false_eq_true, ite_false, ite_true] <;> omega

/-- every slot of the old subtree is afterwards either still in the subtree or in the list of freed
slots — never both, never neither (with multiplicity) -/
theorem slots_remove (t : Tree w V) (q : Pfx w) (hp : Bool) (a : Nat) :
    (remove t q hp).t.slots.count a + (remove t q hp).freed.count a = t.slots.count a := by
  induction t generalizing hp with
  | nil => simp [remove, slots]
  | node s p v l r ihl ihr =>
    unfold remove
    split
    · exact slots_removeHere s p v l r hp a
    · have ih := ihr true
      unfold afterChild
      split
      · next hcol =>
        simp only [Bool.and_eq_true] at hcol
        rw [remove_leaf hcol.1.1] at ih
        simp only [slots, List.count_nil, Nat.zero_add] at ih
        simp only [Bool.not_true, child_false, count_slots_node, List.count_append, count_cons',
          List.count_nil]
        omega
      · simp only [setChild_true, count_slots_node]; omega
    · have ih := ihl true
      unfold afterChild
      split
      · next hcol =>
        simp only [Bool.and_eq_true] at hcol
        rw [remove_leaf hcol.1.1] at ih
        simp only [slots, List.count_nil, Nat.zero_add] at ih
        simp only [Bool.not_false, child_true, count_slots_node, List.count_append, count_cons',
          List.count_nil]
        omega
      · simp only [setChild_false, count_slots_node]; omega
    · simp

theorem slots_takeValue (t : Tree w V) (q : Pfx w) : (takeValue t q).slots = t.slots := by
  induction t with
  | nil => rfl
  | node s p v l r ihl ihr =>
    unfold takeValue
    split <;> simp [slots, ihl, ihr]

theorem slots_modifyValue (t : Tree w V) (q : Pfx w) (f : V → V) : (modifyValue t q f).slots = t.slots := by
  induction t with
  | nil => rfl
  | node s p v l r ihl ihr =>
    unfold modifyValue
    split <;> simp [slots, ihl, ihr]

theorem freeOrder_count (t : Tree w V) (a : Nat) : t.freeOrder.count a = t.slots.count a := by
  induction t with
  | nil => rfl
  | node s p v l r ihl ihr =>
    simp only [freeOrder, slots, count_cons', List.count_append, ihl, ihr]; omega

end Tree
