import PT.Lemmas.Machine
import PT.SetSpec
import PT.Lemmas.Writes
/-!
# Keyed entry lists: the specification side of the simultaneous traversals
-/
namespace SetOps
variable {w : Nat} {L R T : Type}
open Tree Pfx

theorem lookupK_nil (k : List Bool) : lookupK ([] : KL w T) k = none := rfl

theorem lookupK_append (B1 B2 : KL w T) (k : List Bool) :
    lookupK (B1 ++ B2) k = (lookupK B1 k).or (lookupK B2 k) := by
  unfold lookupK; rw [List.find?_append]

theorem lookupK_none {B : KL w T} {k : List Bool} (h : ∀ b ∈ B, keyOf b ≠ k) : lookupK B k = none := by
  unfold lookupK
  rw [List.find?_eq_none]
  intro b hb; simpa using h b hb

theorem lookupK_some_mem {B : KL w T} {k : List Bool} {b : Nat × Pfx w × T} (h : lookupK B k = some b) :
    b ∈ B ∧ keyOf b = k := by
  unfold lookupK at h
  exact ⟨List.mem_of_find?_eq_some h, by simpa using List.find?_some h⟩

/-- all keys of the list extend `k` -/
def Under (k : List Bool) (A : KL w T) : Prop := ∀ x ∈ A, k <+: keyOf x

theorem Under.mono {k k' : List Bool} {A : KL w T} (h : Under k A) (hk : k' <+: k) : Under k' A :=
  fun x hx => hk.trans (h x hx)

theorem under_slotEntries {k : List Bool} {t : Tree w T} (h : WF k t) : Under k t.slotEntries := by
  intro x hx
  have : x.2 ∈ t.entries := by
    rw [← slotEntries_snd]; exact List.mem_map.2 ⟨x, hx, rfl⟩
  exact WF.mem_entries h this

/-- slot-carrying own entry of a node -/
def ownS (s : Nat) (p : Pfx w) (v : Option T) : KL w T :=
  match v with
  | some x => [(s, p, x)]
  | none => []

theorem slotEntries_node (s : Nat) (p : Pfx w) (v : Option T) (l r : Tree w T) :
    (Tree.node s p v l r).slotEntries = ownS s p v ++ l.slotEntries ++ r.slotEntries := by
  cases v <;> rfl

theorem mem_ownS {s : Nat} {p : Pfx w} {v : Option T} {x : Nat × Pfx w × T} (h : x ∈ ownS s p v) : keyOf x = p.net := by
  cases v with
  | none => simp [ownS] at h
  | some y => simp [ownS] at h; subst h; rfl

/-- keys on different sides of `k`, or strictly below vs. at `k`, never coincide -/
theorem key_ne_of_sides {k : List Bool} {c : Bool} {A : KL w L} {B : KL w R}
    (ha : Under (k ++ [c]) A) (hb : Under (k ++ [!c]) B) : ∀ a ∈ A, ∀ b ∈ B, keyOf a ≠ keyOf b :=
  fun a ha' b hb' => List.ne_of_sides (by cases c <;> simp) (ha a ha') (hb b hb')

theorem key_ne_of_below {k : List Bool} {c : Bool} {A : KL w L} (ha : Under (k ++ [c]) A) :
    ∀ a ∈ A, keyOf a ≠ k := fun a ha' => List.ne_of_snoc_prefix (ha a ha')

/-! ### intersection -/

theorem interS_nil_left (B : KL w R) : interS ([] : KL w L) B = [] := rfl

theorem interS_append (A1 A2 : KL w L) (B : KL w R) : interS (A1 ++ A2) B = interS A1 B ++ interS A2 B := by
  simp [interS, List.filterMap_append]

theorem interS_congr {A : KL w L} {B B' : KL w R}
    (h : ∀ a ∈ A, lookupK B (keyOf a) = lookupK B' (keyOf a)) : interS A B = interS A B' := by
  unfold interS
  induction A with
  | nil => rfl
  | cons a as ih =>
    simp only [List.filterMap_cons]
    rw [h a (List.mem_cons_self ..), ih (fun x hx => h x (List.mem_cons_of_mem _ hx))]

theorem interS_eq_nil {A : KL w L} {B : KL w R} (h : ∀ a ∈ A, ∀ b ∈ B, keyOf a ≠ keyOf b) : interS A B = [] := by
  unfold interS
  rw [List.filterMap_eq_nil_iff]
  intro a ha
  rw [lookupK_none (fun b hb e => h a ha b hb e.symm)]; rfl

end SetOps
