import PT.Lemmas.Inv
import PT.Lemmas.Order
import PT.Lemmas.Children
import PT.Lemmas.ViewWrites
/-!
# Operation alphabet, reachable states, and facts about the fold-defined operations
-/
namespace PMap
variable {w : Nat} {V : Type}
open Tree Pfx

/-! ### `remove_children` -/

theorem removeChildren_eq_of_len_ne {m : PMap w V} {q : Pfx w} (hq : q.len ≠ 0) :
    m.removeChildren q = match m.root.rmChildren q with
      | .done t rem => ⟨t, m.free ++ rem.freeOrder, m.alloc, m.count - rem.entries.length⟩
      | _ => m := by
  unfold removeChildren; simp only [hq, ite_false]; cases m.root.rmChildren q <;> rfl

theorem removeChildren_inv {m : PMap w V} (h : m.Inv) (q : Pfx w) : (m.removeChildren q).Inv := by
  by_cases hq : q.len = 0
  · unfold removeChildren; simp only [hq, ite_true]; exact clear_inv m
  · rw [removeChildren_eq_of_len_ne hq]
    cases hr : m.root.rmChildren q with
    | notFound => exact h
    | here => exact h
    | done t rem =>
      obtain ⟨p, v, l, r, hroot, hp⟩ := h.tree.root
      have hspec := (rmChildren_spec h.tree.wf (h.tree.rootCovers q)).2 t rem hr
      have hcnt := rmChildren_counts m.root q t rem hr
      obtain ⟨l', r', ht⟩ : ∃ l' r', t = .node 0 p v l' r' := by
        rw [hroot] at hr; exact rmChildren_root 0 p v l r q t rem hr
      refine ⟨⟨⟨p, v, l', r', ht, hp⟩, hspec.1⟩, ?_, fun a ha => ?_, fun a ha => ?_⟩
      · show m.count - rem.entries.length = t.card
        rw [h.count, hcnt.1]; unfold Tree.card; omega
      · have := h.slots_lt a ha
        simp only [List.count_append, freeOrder_count] at this ⊢
        rw [hcnt.2 a] at this; omega
      · have := h.slots_ge a ha
        simp only [List.count_append, freeOrder_count] at this ⊢
        rw [hcnt.2 a] at this; omega

/-- `remove_children(q)` removes exactly the entries covered by `q` (itself included) and leaves
all others with their representation and value; a zero-length prefix empties the map -/
theorem removeChildren_mem {m : PMap w V} (h : m.TreeWF) (q : Pfx w) (e : Pfx w × V) :
    e ∈ (m.removeChildren q).entries ↔ e ∈ m.entries ∧ ¬ q.net <+: e.1.net := by
  by_cases hq : q.len = 0
  · unfold removeChildren; simp only [hq, ite_true]
    have : q.net = [] := by
      have := Pfx.net_length q; rw [hq] at this; exact List.length_eq_zero_iff.1 this
    simp [clear, empty_entries, this]
  · rw [removeChildren_eq_of_len_ne hq]
    have hspec := rmChildren_spec h.wf (h.rootCovers q)
    cases hr : m.root.rmChildren q with
    | notFound =>
      constructor
      · intro he; exact ⟨he, hspec.1 hr e he⟩
      · intro he; exact he.1
    | here =>
      obtain ⟨s, p, v, l, r, hroot, hpq⟩ := rmChildren_here hr
      have := h.root_pfx p (by rw [hroot]; rfl)
      rw [hpq] at this
      have hl := Pfx.net_length q
      rw [this] at hl; simp at hl; exact absurd hl.symm hq
    | done t rem => exact (hspec.2 t rem hr).2.1 e

/-- the mutator alphabet covered by the invariant theorems (value-only writes are `modify`;
`Entry::insert` = `insert`; `or_insert*`, `VacantEntry::insert*` = `orInsert`;
`OccupiedEntry::remove` = `removeKeepTree`; `viewSet q cs x` / `viewRemove q cs` = `view_mut_at(q)`,
`left()`/`right()` steps `cs`, then `TrieViewMut::set(x)` / `remove()` — a no-op when the view does not
exist) -/
inductive Op (w : Nat) (V : Type) where
  | insert (q : Pfx w) (x : V)
  | orInsert (q : Pfx w) (x : V)
  | modify (q : Pfx w) (f : V → V)
  | remove (q : Pfx w)
  | removeKeepTree (q : Pfx w)
  | removeChildren (q : Pfx w)
  | retain (f : Pfx w → V → Bool) (stop : Option Nat)
  | clear
  | collect (xs : List (Pfx w × V))
  | viewSet (q : Pfx w) (cs : List Bool) (x : V)
  | viewRemove (q : Pfx w) (cs : List Bool)

def Op.apply (m : PMap w V) : Op w V → PMap w V
  | .insert q x => (m.insert q x).1
  | .orInsert q x => (m.orInsert q x).1
  | .modify q f => m.modify q f
  | .remove q => (m.remove q).1
  | .removeKeepTree q => (m.removeKeepTree q).1
  | .removeChildren q => m.removeChildren q
  | .retain f stop => m.retain f stop
  | .clear => m.clear
  | .collect xs => PMap.collect xs
  | .viewSet q cs x => m.viewSetAt q cs x
  | .viewRemove q cs => m.viewRemoveAt q cs

/-- the state after a history -/
def run (ops : List (Op w V)) (m : PMap w V) : PMap w V := ops.foldl Op.apply m

theorem apply_inv {m : PMap w V} (h : m.Inv) (op : Op w V) : (op.apply m).Inv := by
  cases op with
  | insert q x => exact insert_inv h q x
  | orInsert q x => exact orInsert_inv h q x
  | modify q f => exact modify_inv h q f
  | remove q => exact remove_inv h q
  | removeKeepTree q => exact removeKeepTree_inv h q
  | removeChildren q => exact removeChildren_inv h q
  | retain f stop => exact retain_inv h f stop
  | clear => exact clear_inv m
  | collect xs => exact collect_inv xs
  | viewSet q cs x => exact viewSetAt_inv h q cs x
  | viewRemove q cs => exact viewRemoveAt_inv h q cs

/-- every state reachable from the empty map by any finite history satisfies the invariant -/
theorem run_inv (ops : List (Op w V)) : (run ops (empty : PMap w V)).Inv := by
  unfold run
  suffices ∀ (m : PMap w V), m.Inv → (ops.foldl Op.apply m).Inv from this _ empty_inv
  induction ops with
  | nil => intro m h; exact h
  | cons op ops ih => intro m h; exact ih _ (apply_inv h op)

/-! ### `retain`: which entries survive -/

theorem retain_mem_aux (f : Pfx w → V → Bool) (calls : List (Pfx w × V)) :
    ∀ (m : PMap w V), m.TreeWF → ∀ e,
      e ∈ (calls.foldl (retainStep f) m).entries ↔
        e ∈ m.entries ∧ ∀ c ∈ calls, f c.1 c.2 = false → e.1.net ≠ c.1.net := by
  induction calls with
  | nil => intro m _ e; simp
  | cons c cs ih =>
    intro m h e
    simp only [List.foldl_cons]
    have hstep : retainStep f m c = if f c.1 c.2 = true then m else (m.remove c.1).1 := rfl
    rw [hstep]
    by_cases hf : f c.1 c.2 = true
    · simp only [hf, ite_true]
      rw [ih m h e]
      constructor
      · rintro ⟨h1, h2⟩
        refine ⟨h1, fun c' hc' hf' => ?_⟩
        rcases List.mem_cons.1 hc' with rfl | hc'
        · rw [hf] at hf'; simp at hf'
        · exact h2 c' hc' hf'
      · rintro ⟨h1, h2⟩
        exact ⟨h1, fun c' hc' hf' => h2 c' (List.mem_cons_of_mem _ hc') hf'⟩
    · have hf' : f c.1 c.2 = false := by simpa using hf
      simp only [hf', Bool.false_eq_true, ite_false]
      rw [ih _ (remove_treeWF h c.1) e]
      have hm : e ∈ (m.remove c.1).1.entries ↔ e ∈ m.entries ∧ e.1.net ≠ c.1.net :=
        remove_mem h.wf c.1 false e
      rw [hm]
      constructor
      · rintro ⟨⟨h1, h3⟩, h2⟩
        refine ⟨h1, fun c' hc' hfc => ?_⟩
        rcases List.mem_cons.1 hc' with rfl | hc'
        · exact h3
        · exact h2 c' hc' hfc
      · rintro ⟨h1, h2⟩
        exact ⟨⟨h1, h2 c (List.mem_cons_self ..) hf'⟩, fun c' hc' hfc => h2 c' (List.mem_cons_of_mem _ hc') hfc⟩

theorem postorder_node (s : Nat) (p : Pfx w) (v : Option V) (l r : Tree w V) :
    (node s p v l r).postorder = l.postorder ++ r.postorder ++ own p v := by
  cases v <;> rfl

theorem mem_postorder_iff (t : Tree w V) (e : Pfx w × V) : e ∈ t.postorder ↔ e ∈ t.entries := by
  induction t with
  | nil => simp [Tree.postorder, Tree.entries]
  | node s p v l r ihl ihr =>
    rw [mem_entries_node, postorder_node]
    simp only [List.mem_append, ihl, ihr]
    constructor
    · rintro ((h | h) | h); exact .inr (.inl h); exact .inr (.inr h); exact .inl h
    · rintro (h | h | h); exact .inr h; exact .inl (.inl h); exact .inl (.inr h)

theorem postorder_perm (t : Tree w V) : t.postorder.Perm t.entries := by
  induction t with
  | nil => exact List.Perm.refl _
  | node s p v l r ihl ihr =>
    rw [entries_node, postorder_node]
    have h1 : (l.postorder ++ r.postorder ++ own p v).Perm (own p v ++ (l.postorder ++ r.postorder)) :=
      List.perm_append_comm
    refine h1.trans ?_
    rw [List.append_assoc]
    exact List.Perm.append_left _ (List.Perm.append ihl ihr)

/-- a completed `retain f` keeps exactly the entries for which `f` holds -/
theorem retain_mem {m : PMap w V} (h : m.TreeWF) (f : Pfx w → V → Bool) (e : Pfx w × V) :
    e ∈ (m.retain f).entries ↔ e ∈ m.entries ∧ f e.1 e.2 = true := by
  unfold retain retainCalls
  rw [retain_mem_aux f _ m h e]
  constructor
  · rintro ⟨h1, h2⟩
    refine ⟨h1, ?_⟩
    cases hf : f e.1 e.2 with
    | true => rfl
    | false => exact absurd rfl (h2 e ((mem_postorder_iff _ _).2 h1) hf)
  · rintro ⟨h1, h2⟩
    refine ⟨h1, fun c hc hfc heq => ?_⟩
    have hc' := (mem_postorder_iff _ _).1 hc
    have := WF.key_inj h.wf h1 hc' heq
    subst this
    rw [h2] at hfc; simp at hfc

/-! ### `collect` -/

theorem collect_mem_aux (xs : List (Pfx w × V)) :
    ∀ (m : PMap w V), m.TreeWF → (xs.map (fun e => e.1.net)).Nodup →
      (∀ e ∈ m.entries, ∀ c ∈ xs, e.1.net ≠ c.1.net) → ∀ e,
      e ∈ (xs.foldl (fun m e => (m.insert e.1 e.2).1) m).entries ↔ e ∈ m.entries ∨ e ∈ xs := by
  induction xs with
  | nil => intro m _ _ _ e; simp
  | cons c cs ih =>
    intro m h hnd hdis e
    simp only [List.foldl_cons]
    simp only [List.map_cons, List.nodup_cons, List.mem_map, not_exists, not_and] at hnd
    have hm : ∀ e, e ∈ (m.insert c.1 c.2).1.entries ↔ e = (c.1, c.2) ∨ (e ∈ m.entries ∧ e.1.net ≠ c.1.net) :=
      fun e => insert_mem h.wf c.1 c.2 _ _ (h.rootCovers c.1) h.root_ne_nil e
    rw [ih _ (insert_treeWF h c.1 c.2) hnd.2 ?_ e, hm e]
    · constructor
      · rintro ((h1 | h1) | h1)
        · exact .inr (by rw [h1]; exact List.mem_cons_self ..)
        · exact .inl h1.1
        · exact .inr (List.mem_cons_of_mem _ h1)
      · rintro (h1 | h1)
        · exact .inl (.inr ⟨h1, hdis e h1 c (List.mem_cons_self ..)⟩)
        · rcases List.mem_cons.1 h1 with rfl | h1
          · exact .inl (.inl rfl)
          · exact .inr h1
    · intro e' he' c' hc'
      rcases (hm e').1 he' with rfl | he'
      · exact fun heq => hnd.1 c' hc' heq.symm
      · exact hdis e' he'.1 c' (List.mem_cons_of_mem _ hc')

/-- building a map from a list with pairwise distinct keys stores exactly that list's entries -/
theorem collect_mem (xs : List (Pfx w × V)) (hnd : (xs.map (fun e => e.1.net)).Nodup) (e : Pfx w × V) :
    e ∈ (collect xs).entries ↔ e ∈ xs := by
  unfold collect
  rw [collect_mem_aux xs _ empty_treeWF hnd (by simp [empty_entries]) e]
  simp [empty_entries]

end PMap
