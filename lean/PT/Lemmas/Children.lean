import PT.Lemmas.Card
import PT.Lemmas.Order
/-!
# `remove_children` and `children`: the subtree selected by a covering prefix
-/
namespace Tree
variable {w : Nat} {V : Type}
open Pfx

/-- entries of the node: own, one child, the other child -/
theorem mem_entries_children {s : Nat} {p : Pfx w} {v : Option V} {l r : Tree w V} (b : Bool) {e : Pfx w × V} :
    e ∈ (node s p v l r).entries ↔ e ∈ own p v ∨ e ∈ (child l r b).entries ∨ e ∈ (child l r (!b)).entries := by
  rw [mem_entries_node]
  cases b <;> simp only [child_false, child_true, Bool.not_false, Bool.not_true]
  constructor
  · rintro (h | h | h); exact .inl h; exact .inr (.inr h); exact .inr (.inl h)
  · rintro (h | h | h); exact .inl h; exact .inr (.inr h); exact .inr (.inl h)

/-- at a node `p` that strictly covers `q`, neither the node's own entry nor anything in the child
on the other side is covered by `q` -/
theorem not_covered_outside {k : List Bool} {s : Nat} {p : Pfx w} {v : Option V} {l r : Tree w V}
    (hwf : WF k (node s p v l r)) {q : Pfx w} (hp : p.net <+: q.net) (hne : p.net ≠ q.net) :
    (∀ e ∈ own p v, ¬ q.net <+: e.1.net) ∧
    (∀ e ∈ (child l r (!toRight p q)).entries, ¬ q.net <+: e.1.net) := by
  have hside := side_prefix hp hne
  refine ⟨fun e he hq => ?_, fun e he hq => ?_⟩
  · rw [(mem_own.1 he).2] at hq
    exact hne (hp.eq_of_length_le hq.length_le)
  · have h1 := WF.mem_child_entries hwf (!toRight p q) he
    exact List.not_prefix_of_sides (by cases toRight p q <;> simp) hside h1 hq

/-- a child that neither covers `q` nor is covered by it holds nothing covered by `q` -/
theorem not_covered_of_incomparable {k : List Bool} {cs : Nat} {cp : Pfx w} {cv : Option V} {cl cr : Tree w V}
    (hwf : WF k (node cs cp cv cl cr)) {q : Pfx w} (h1 : ¬ cp.net <+: q.net) (h2 : ¬ q.net <+: cp.net) :
    ∀ e ∈ (node cs cp cv cl cr).entries, ¬ q.net <+: e.1.net := by
  intro e he hq
  have hc := WF.mem_entries (WF.self hwf) he
  rcases Nat.le_total cp.net.length q.net.length with h | h
  · exact h1 (List.prefix_of_prefix_length_le hc hq h)
  · exact h2 (List.prefix_of_prefix_length_le hq hc h)

theorem all_covered_of_root {k : List Bool} {cs : Nat} {cp : Pfx w} {cv : Option V} {cl cr : Tree w V}
    (hwf : WF k (node cs cp cv cl cr)) {q : Pfx w} (h : q.net <+: cp.net) :
    ∀ e ∈ (node cs cp cv cl cr).entries, q.net <+: e.1.net :=
  fun e he => h.trans (WF.mem_entries (WF.self hwf) he)

/-! ### `remove_children` -/

theorem rmChildren_enter {s : Nat} {p : Pfx w} {v : Option V} {l r : Tree w V} {q : Pfx w} {b : Bool}
    (hd : dirIns p l r q = .enter b) :
    rmChildren (node s p v l r) q = rcAfter s p v l r b (rmChildren (child l r b) q) := by
  cases b <;> simp [rmChildren, hd]

theorem rmChildren_here {t : Tree w V} {q : Pfx w} (h : rmChildren t q = .here) :
    ∃ s p v l r, t = node s p v l r ∧ p.net = q.net := by
  cases t with
  | nil => simp [rmChildren] at h
  | node s p v l r =>
    cases hd : dirIns p l r q with
    | reached => exact ⟨s, p, v, l, r, rfl, dirIns_reached hd⟩
    | enter b =>
      rw [rmChildren_enter hd] at h
      unfold rcAfter at h; split at h <;> simp at h
    | newLeaf b => simp [rmChildren, hd] at h
    | newChild b c => simp [rmChildren, hd] at h
    | newBranch bp b c => simp [rmChildren, hd] at h

/-- what `remove_children(q)` does to a well-formed subtree whose root covers `q` -/
theorem rmChildren_spec {k : List Bool} {t : Tree w V} (hwf : WF k t) {q : Pfx w} (hc : RootCovers t q) :
    (rmChildren t q = .notFound → ∀ e ∈ t.entries, ¬ q.net <+: e.1.net) ∧
    (∀ t' rem, rmChildren t q = .done t' rem →
      WF k t' ∧ (∀ e, e ∈ t'.entries ↔ e ∈ t.entries ∧ ¬ q.net <+: e.1.net) ∧
      (∀ e, e ∈ rem.entries ↔ e ∈ t.entries ∧ q.net <+: e.1.net)) := by
  induction t generalizing k with
  | nil => simp [rmChildren, entries]
  | node s p v l r ihl ihr =>
    have hp : p.net <+: q.net := hc p rfl
    cases hd : dirIns p l r q with
    | reached => simp [rmChildren, hd]
    | enter b =>
      obtain ⟨hne, hb, cs, cp, cv, cl, cr, hch, hcq⟩ := dirIns_enter hd
      obtain ⟨hown, hoth⟩ := not_covered_outside hwf hp hne
      rw [← hb] at hoth
      have hcw : WF (p.net ++ [b]) (child l r b) := WF.of_child hwf b
      have hcc : RootCovers (child l r b) q := by rw [hch]; exact RootCovers.node hcq
      have ih : (rmChildren (child l r b) q = .notFound → ∀ e ∈ (child l r b).entries, ¬ q.net <+: e.1.net) ∧
          (∀ t' rem, rmChildren (child l r b) q = .done t' rem →
            WF (p.net ++ [b]) t' ∧ (∀ e, e ∈ t'.entries ↔ e ∈ (child l r b).entries ∧ ¬ q.net <+: e.1.net) ∧
            (∀ e, e ∈ rem.entries ↔ e ∈ (child l r b).entries ∧ q.net <+: e.1.net)) := by
        cases b
        · exact ihl hcw hcc
        · exact ihr hcw hcc
      rw [rmChildren_enter hd]
      cases hr : rmChildren (child l r b) q with
      | notFound =>
        refine ⟨fun _ e he => ?_, fun t' rem h => by simp [rcAfter] at h⟩
        rcases (mem_entries_children b).1 he with h | h | h
        · exact hown e h
        · exact ih.1 hr e h
        · exact hoth e h
      | here =>
        obtain ⟨cs', cp', cv', cl', cr', hch', hpq⟩ := rmChildren_here hr
        have hall : ∀ e ∈ (child l r b).entries, q.net <+: e.1.net := by
          rw [hch'] at hcw ⊢
          exact all_covered_of_root hcw (hpq ▸ List.prefix_refl _)
        refine ⟨fun h => by simp [rcAfter] at h, fun t' rem h => ?_⟩
        simp only [rcAfter, RcRes.done.injEq] at h
        obtain ⟨rfl, rfl⟩ := h
        refine ⟨?_, fun e => ?_, fun e => ?_⟩
        · cases b
          · exact ⟨hwf.1, trivial, hwf.2.2⟩
          · exact ⟨hwf.1, hwf.2.1, trivial⟩
        · rw [mem_entries_setChild, mem_entries_children b]
          simp only [entries, List.not_mem_nil, false_or]
          constructor
          · rintro (h | h)
            · exact ⟨.inl h, hown e h⟩
            · exact ⟨.inr (.inr h), hoth e h⟩
          · rintro ⟨h | h | h, hn⟩
            · exact .inl h
            · exact absurd (hall e h) hn
            · exact .inr h
        · rw [mem_entries_children b]
          constructor
          · intro h; exact ⟨.inr (.inl h), hall e h⟩
          · rintro ⟨h | h | h, hq⟩
            · exact absurd hq (hown e h)
            · exact h
            · exact absurd hq (hoth e h)
      | done c' rem' =>
        obtain ⟨hw', hm', hr'⟩ := ih.2 c' rem' hr
        refine ⟨fun h => by simp [rcAfter] at h, fun t' rem h => ?_⟩
        simp only [rcAfter, RcRes.done.injEq] at h
        obtain ⟨rfl, rfl⟩ := h
        refine ⟨?_, fun e => ?_, fun e => ?_⟩
        · cases b
          · exact ⟨hwf.1, hw', hwf.2.2⟩
          · exact ⟨hwf.1, hwf.2.1, hw'⟩
        · rw [mem_entries_setChild, mem_entries_children b, hm' e]
          constructor
          · rintro (h | h | h)
            · exact ⟨.inl h, hown e h⟩
            · exact ⟨.inr (.inl h.1), h.2⟩
            · exact ⟨.inr (.inr h), hoth e h⟩
          · rintro ⟨h | h | h, hn⟩
            · exact .inl h
            · exact .inr (.inl ⟨h, hn⟩)
            · exact .inr (.inr h)
        · rw [hr' e, mem_entries_children b]
          constructor
          · rintro ⟨h, hq⟩; exact ⟨.inr (.inl h), hq⟩
          · rintro ⟨h | h | h, hq⟩
            · exact absurd hq (hown e h)
            · exact ⟨h, hq⟩
            · exact absurd hq (hoth e h)
    | newLeaf b =>
      obtain ⟨hne, hb, hch⟩ := dirIns_newLeaf hd
      obtain ⟨hown, hoth⟩ := not_covered_outside hwf hp hne
      rw [← hb] at hoth
      refine ⟨fun _ e he => ?_, fun t' rem h => by simp [rmChildren, hd] at h⟩
      rcases (mem_entries_children b).1 he with h | h | h
      · exact hown e h
      · rw [hch] at h; simp [entries] at h
      · exact hoth e h
    | newBranch bp b pr =>
      obtain ⟨hne, hb, cs, cp, cv, cl, cr, hch, h1, h2, _, _⟩ := dirIns_newBranch hd
      obtain ⟨hown, hoth⟩ := not_covered_outside hwf hp hne
      rw [← hb] at hoth
      have hcw : WF (p.net ++ [b]) (node cs cp cv cl cr) := hch ▸ WF.of_child hwf b
      refine ⟨fun _ e he => ?_, fun t' rem h => by simp [rmChildren, hd] at h⟩
      rcases (mem_entries_children b).1 he with h | h | h
      · exact hown e h
      · rw [hch] at h; exact not_covered_of_incomparable hcw h1 h2 e h
      · exact hoth e h
    | newChild b c =>
      obtain ⟨hne, hb, cs, cp, cv, cl, cr, hch, h1, h2, _⟩ := dirIns_newChild hd
      obtain ⟨hown, hoth⟩ := not_covered_outside hwf hp hne
      rw [← hb] at hoth
      have hcw : WF (p.net ++ [b]) (node cs cp cv cl cr) := hch ▸ WF.of_child hwf b
      have hall : ∀ e ∈ (child l r b).entries, q.net <+: e.1.net := by
        rw [hch]; exact all_covered_of_root hcw h2
      refine ⟨fun h => by simp [rmChildren, hd] at h, fun t' rem h => ?_⟩
      simp only [rmChildren, hd, RcRes.done.injEq] at h
      obtain ⟨rfl, rfl⟩ := h
      refine ⟨?_, fun e => ?_, fun e => ?_⟩
      · cases b
        · exact ⟨hwf.1, trivial, hwf.2.2⟩
        · exact ⟨hwf.1, hwf.2.1, trivial⟩
      · rw [mem_entries_setChild, mem_entries_children b]
        simp only [entries, List.not_mem_nil, false_or]
        constructor
        · rintro (h | h)
          · exact ⟨.inl h, hown e h⟩
          · exact ⟨.inr (.inr h), hoth e h⟩
        · rintro ⟨h | h | h, hn⟩
          · exact .inl h
          · exact absurd (hall e h) hn
          · exact .inr h
      · rw [mem_entries_children b]
        constructor
        · intro h; exact ⟨.inr (.inl h), hall e h⟩
        · rintro ⟨h | h | h, hq⟩
          · exact absurd hq (hown e h)
          · exact h
          · exact absurd hq (hoth e h)

/-- counting: the detached subtree and the remaining tree partition entries and slots -/
theorem rmChildren_counts (t : Tree w V) (q : Pfx w) (t' rem : Tree w V) (h : rmChildren t q = .done t' rem) :
    t.card = t'.card + rem.card ∧ ∀ a, t.slots.count a = t'.slots.count a + rem.slots.count a := by
  induction t generalizing t' rem with
  | nil => simp [rmChildren] at h
  | node s p v l r ihl ihr =>
    cases hd : dirIns p l r q with
    | reached => simp [rmChildren, hd] at h
    | newLeaf b => simp [rmChildren, hd] at h
    | newBranch bp b c => simp [rmChildren, hd] at h
    | newChild b c =>
      simp only [rmChildren, hd, RcRes.done.injEq] at h
      obtain ⟨rfl, rfl⟩ := h
      refine ⟨?_, fun a => ?_⟩
      · rw [card_setChild, card_node_children s p v l r b]; simp; omega
      · rw [count_slots_setChild, count_slots_children a s p v l r b]; simp [slots]; omega
    | enter b =>
      rw [rmChildren_enter hd] at h
      cases hr : rmChildren (child l r b) q with
      | notFound => simp [hr, rcAfter] at h
      | here =>
        simp only [hr, rcAfter, RcRes.done.injEq] at h
        obtain ⟨rfl, rfl⟩ := h
        refine ⟨?_, fun a => ?_⟩
        · rw [card_setChild, card_node_children s p v l r b]; simp; omega
        · rw [count_slots_setChild, count_slots_children a s p v l r b]; simp [slots]; omega
      | done c' rem' =>
        simp only [hr, rcAfter, RcRes.done.injEq] at h
        obtain ⟨rfl, rfl⟩ := h
        have ih : (child l r b).card = c'.card + rem'.card ∧
            ∀ a, (child l r b).slots.count a = c'.slots.count a + rem'.slots.count a := by
          cases b
          · exact ihl c' rem' hr
          · exact ihr c' rem' hr
        refine ⟨?_, fun a => ?_⟩
        · rw [card_setChild, card_node_children s p v l r b, ih.1]; omega
        · rw [count_slots_setChild, count_slots_children a s p v l r b, ih.2 a]; omega

/-- the root node stays in place -/
theorem rmChildren_root (s : Nat) (p : Pfx w) (v : Option V) (l r : Tree w V) (q : Pfx w) (t' rem : Tree w V)
    (h : rmChildren (node s p v l r) q = .done t' rem) : ∃ l' r', t' = node s p v l' r' := by
  cases hd : dirIns p l r q with
  | reached => simp [rmChildren, hd] at h
  | newLeaf b => simp [rmChildren, hd] at h
  | newBranch bp b c => simp [rmChildren, hd] at h
  | newChild b c =>
    simp only [rmChildren, hd, RcRes.done.injEq] at h
    obtain ⟨rfl, rfl⟩ := h
    cases b <;> exact ⟨_, _, rfl⟩
  | enter b =>
    rw [rmChildren_enter hd] at h
    cases hr : rmChildren (child l r b) q with
    | notFound => simp [hr, rcAfter] at h
    | here =>
      simp only [hr, rcAfter, RcRes.done.injEq] at h
      obtain ⟨rfl, rfl⟩ := h
      cases b <;> exact ⟨_, _, rfl⟩
    | done c' rem' =>
      simp only [hr, rcAfter, RcRes.done.injEq] at h
      obtain ⟨rfl, rfl⟩ := h
      cases b <;> exact ⟨_, _, rfl⟩

/-! ### `children`: `lpm_children_iter_start` -/

theorem childrenStart_eqv {s : Nat} {p : Pfx w} {v : Option V} {l r : Tree w V} {q : Pfx w}
    (h : p.eqv q = true) : childrenStart (node s p v l r) q = node s p v l r := by
  simp [childrenStart, h]

theorem childrenStart_nil {s : Nat} {p : Pfx w} {v : Option V} {l r : Tree w V} {q : Pfx w}
    (h : ¬ p.eqv q = true) (hc : child l r (toRight p q) = nil) : childrenStart (node s p v l r) q = nil := by
  simp [childrenStart, h, hc]

theorem childrenStart_enter {s : Nat} {p : Pfx w} {v : Option V} {l r : Tree w V} {q : Pfx w}
    {cs : Nat} {cp : Pfx w} {cv : Option V} {cl cr : Tree w V}
    (h : ¬ p.eqv q = true) (hc : child l r (toRight p q) = node cs cp cv cl cr) (h1 : cp.contains q = true) :
    childrenStart (node s p v l r) q = childrenStart (child l r (toRight p q)) q := by
  cases hb : toRight p q
  · rw [hb] at hc; simp only [child_false] at hc ⊢
    rw [childrenStart]
    simp [h, hb, hc, h1]
  · rw [hb] at hc; simp only [child_true] at hc ⊢
    rw [childrenStart]
    simp [h, hb, hc, h1]

theorem childrenStart_take {s : Nat} {p : Pfx w} {v : Option V} {l r : Tree w V} {q : Pfx w}
    {cs : Nat} {cp : Pfx w} {cv : Option V} {cl cr : Tree w V}
    (h : ¬ p.eqv q = true) (hc : child l r (toRight p q) = node cs cp cv cl cr) (h1 : ¬ cp.contains q = true)
    (h2 : q.contains cp = true) : childrenStart (node s p v l r) q = node cs cp cv cl cr := by
  simp [childrenStart, h, hc, h1, h2]

theorem childrenStart_none {s : Nat} {p : Pfx w} {v : Option V} {l r : Tree w V} {q : Pfx w}
    {cs : Nat} {cp : Pfx w} {cv : Option V} {cl cr : Tree w V}
    (h : ¬ p.eqv q = true) (hc : child l r (toRight p q) = node cs cp cv cl cr) (h1 : ¬ cp.contains q = true)
    (h2 : ¬ q.contains cp = true) : childrenStart (node s p v l r) q = nil := by
  simp [childrenStart, h, hc, h1, h2]

/-- the subtree from which `children(q)` iterates holds exactly the entries covered by `q` -/
theorem childrenStart_mem {k : List Bool} {t : Tree w V} (hwf : WF k t) {q : Pfx w} (hc : RootCovers t q)
    (e : Pfx w × V) :
    e ∈ (childrenStart t q).entries ↔ e ∈ t.entries ∧ q.net <+: e.1.net := by
  induction t generalizing k with
  | nil => simp [childrenStart, entries]
  | node s p v l r ihl ihr =>
    have hp : p.net <+: q.net := hc p rfl
    by_cases he : p.eqv q = true
    · have hpq := (eqv_iff p q).1 he
      rw [childrenStart_eqv he]
      constructor
      · intro h; exact ⟨h, hpq ▸ WF.mem_entries (WF.self hwf) h⟩
      · intro h; exact h.1
    · have hne : p.net ≠ q.net := fun h => he ((eqv_iff p q).2 h)
      obtain ⟨hown, hoth⟩ := not_covered_outside hwf hp hne
      cases hch : child l r (toRight p q) with
      | nil =>
        rw [childrenStart_nil he hch]
        constructor
        · intro h; simp [entries] at h
        · rintro ⟨h, hq⟩
          exfalso
          rcases (mem_entries_children (toRight p q)).1 h with h | h | h
          · exact hown e h hq
          · rw [hch] at h; simp [entries] at h
          · exact hoth e h hq
      | node cs cp cv cl cr =>
        have hcw : WF (p.net ++ [toRight p q]) (node cs cp cv cl cr) := hch ▸ WF.of_child hwf _
        by_cases h1 : cp.contains q = true
        · have h1' := (contains_iff cp q).1 h1
          rw [childrenStart_enter he hch h1]
          have ih : e ∈ (childrenStart (child l r (toRight p q)) q).entries ↔
              e ∈ (child l r (toRight p q)).entries ∧ q.net <+: e.1.net := by
            have hrc : RootCovers (child l r (toRight p q)) q := by rw [hch]; exact RootCovers.node h1'
            cases hb : toRight p q
            · rw [hb] at hrc; exact ihl (WF.of_child hwf false) hrc
            · rw [hb] at hrc; exact ihr (WF.of_child hwf true) hrc
          rw [ih]
          constructor
          · rintro ⟨h, hq⟩; exact ⟨(mem_entries_children (s := s) (toRight p q)).2 (.inr (.inl h)), hq⟩
          · rintro ⟨h, hq⟩
            rcases (mem_entries_children (toRight p q)).1 h with h | h | h
            · exact absurd hq (hown e h)
            · exact ⟨h, hq⟩
            · exact absurd hq (hoth e h)
        · have h1' : ¬ cp.net <+: q.net := fun h => h1 ((contains_iff cp q).2 h)
          by_cases h2 : q.contains cp = true
          · have h2' := (contains_iff q cp).1 h2
            rw [childrenStart_take he hch h1 h2]
            constructor
            · intro h
              exact ⟨(mem_entries_children (s := s) (toRight p q)).2 (.inr (.inl (hch ▸ h))), all_covered_of_root hcw h2' e h⟩
            · rintro ⟨h, hq⟩
              rcases (mem_entries_children (toRight p q)).1 h with h | h | h
              · exact absurd hq (hown e h)
              · rw [hch] at h; exact h
              · exact absurd hq (hoth e h)
          · have h2' : ¬ q.net <+: cp.net := fun h => h2 ((contains_iff q cp).2 h)
            rw [childrenStart_none he hch h1 h2]
            constructor
            · intro h; simp [entries] at h
            · rintro ⟨h, hq⟩
              exfalso
              rcases (mem_entries_children (toRight p q)).1 h with h | h | h
              · exact hown e h hq
              · rw [hch] at h; exact not_covered_of_incomparable hcw h1' h2' e h hq
              · exact hoth e h hq

/-- the start subtree is itself well-formed (it is a subtree) -/
theorem childrenStart_wf {k : List Bool} {t : Tree w V} (hwf : WF k t) (q : Pfx w) :
    WF k (childrenStart t q) := by
  induction t generalizing k with
  | nil => trivial
  | node s p v l r ihl ihr =>
    by_cases he : p.eqv q = true
    · rw [childrenStart_eqv he]; exact hwf
    · cases hch : child l r (toRight p q) with
      | nil => rw [childrenStart_nil he hch]; trivial
      | node cs cp cv cl cr =>
        by_cases h1 : cp.contains q = true
        · rw [childrenStart_enter he hch h1]
          cases hb : toRight p q
          · exact WF.up hwf.1 (ihl hwf.2.1)
          · exact WF.up hwf.1 (ihr hwf.2.2)
        · by_cases h2 : q.contains cp = true
          · rw [childrenStart_take he hch h1 h2]
            have := WF.of_child hwf (toRight p q)
            rw [hch] at this
            exact WF.up hwf.1 this
          · rw [childrenStart_none he hch h1 h2]; trivial

end Tree
