import PT.Lemmas.Reach
/-!
# The model refines the specification layer (`PT/Spec.lean`) that the driver evaluates

The driver prints, next to every model answer (`M`), the answer computed from the abstract map by
the functions of `PT/Spec.lean` (`S`).  These lemmas show that, on states satisfying the invariant,
the two coincide: the entry list of the model *is* the abstract map, every mutator edits it as the
specification's operation does, every observer returns the specification's answer.
-/
namespace Spec
variable {w : Nat} {V : Type}

/-- key-sorted, strictly -/
@[reducible] def Sorted (s : SMap w V) : Prop := s.Pairwise (fun a b => keyLt (key a.1) (key b.1) = true)

theorem sameKey_iff (p q : Pfx w) : sameKey p q = true ↔ p.net = q.net := by
  unfold sameKey key; simp

theorem covers_iff (a b : Pfx w) : covers a b = true ↔ a.net <+: b.net := by
  unfold covers key; exact List.isPrefixOf_iff_prefix

theorem covers_eq_contains (a b : Pfx w) : covers a b = a.contains b := by
  rw [Bool.eq_iff_iff, covers_iff, Pfx.contains_iff]

theorem mem_insertSorted (e : Pfx w × V) (s : SMap w V) (x : Pfx w × V) :
    x ∈ insertSorted e s ↔ x = e ∨ x ∈ s := by
  induction s with
  | nil => simp [insertSorted]
  | cons y ys ih =>
    unfold insertSorted
    split
    · simp
    · simp only [List.mem_cons, ih]
      constructor
      · rintro (h | h | h); exact .inr (.inl h); exact .inl h; exact .inr (.inr h)
      · rintro (h | h | h); exact .inr (.inl h); exact .inl h; exact .inr (.inr h)

theorem keyLt_total {a b : Key} (hne : a ≠ b) (h : keyLt a b = false) : keyLt b a = true := by
  induction a generalizing b with
  | nil => cases b <;> simp_all [keyLt]
  | cons x xs ih =>
    cases b with
    | nil => rfl
    | cons y ys =>
      simp only [keyLt] at h ⊢
      by_cases hxy : x = y
      · subst hxy
        simp only [beq_self_eq_true, ite_true] at h ⊢
        exact ih (fun e => hne (by rw [e])) h
      · have h1 : (x == y) = false := by simpa using hxy
        have h2 : (y == x) = false := by simpa using fun e : y = x => hxy e.symm
        simp only [h1, h2] at h ⊢
        cases x <;> cases y <;> simp_all

theorem sorted_insertSorted (e : Pfx w × V) (s : SMap w V) (hs : Sorted s)
    (hne : ∀ x ∈ s, key x.1 ≠ key e.1) : Sorted (insertSorted e s) := by
  induction s with
  | nil => simp [insertSorted, Sorted]
  | cons y ys ih =>
    unfold Sorted at hs ⊢
    rw [List.pairwise_cons] at hs
    unfold insertSorted
    split
    · next hlt =>
      refine List.pairwise_cons.2 ⟨fun x hx => ?_, List.pairwise_cons.2 hs⟩
      rcases List.mem_cons.1 hx with rfl | hx
      · exact hlt
      · exact keyLt_trans hlt (hs.1 x hx)
    · next hlt =>
      have hye : keyLt (key y.1) (key e.1) = true :=
        keyLt_total (hne y (List.mem_cons_self ..)).symm (by simpa using hlt)
      refine List.pairwise_cons.2 ⟨fun x hx => ?_, ih hs.2 (fun x hx => hne x (List.mem_cons_of_mem _ hx))⟩
      rcases (mem_insertSorted e ys x).1 hx with rfl | hx
      · exact hye
      · exact hs.1 x hx

theorem sorted_filter {s : SMap w V} (hs : Sorted s) (f : Pfx w × V → Bool) : Sorted (s.filter f) :=
  List.Pairwise.filter f hs

/-- two key-sorted lists with the same members are equal -/
theorem eq_of_sorted {s t : SMap w V} (hs : Sorted s) (ht : Sorted t) (h : ∀ x, x ∈ s ↔ x ∈ t) : s = t :=
  List.eq_of_sorted_of_mem_iff (lt := fun a b => keyLt (key a.1) (key b.1) = true)
    (fun a => by simp [keyLt_irrefl]) (fun a b c => keyLt_trans) _ _ hs ht h

/-- on a key-sorted list with unique keys, `lookup` finds exactly the entry with the key -/
theorem lookup_eq_some_iff {s : SMap w V} (hs : Sorted s) (q : Pfx w) (e : Pfx w × V) :
    lookup s q = some e ↔ e ∈ s ∧ e.1.net = q.net := by
  unfold lookup
  constructor
  · intro h
    have hp : sameKey e.1 q = true := List.find?_some (p := fun e : Pfx w × V => sameKey e.1 q) h
    exact ⟨List.mem_of_find?_eq_some h, (sameKey_iff e.1 q).1 hp⟩
  · rintro ⟨hm, hk⟩
    induction s with
    | nil => simp at hm
    | cons y ys ih =>
      unfold Sorted at hs
      rw [List.pairwise_cons] at hs
      rw [List.find?_cons]
      rcases List.mem_cons.1 hm with rfl | hm
      · simp [(sameKey_iff _ _).2 hk]
      · have hlt := hs.1 e hm
        have : sameKey y.1 q = false := by
          rw [Bool.eq_false_iff]; intro hh
          have := (sameKey_iff _ _).1 hh
          unfold key at hlt
          rw [this, ← hk, keyLt_irrefl] at hlt; simp at hlt
        simp only [this]
        exact ih hs.2 hm

/-- the longest / shortest of a list sorted by strictly increasing length -/
theorem fold_longest_eq_getLast (xs : List (Pfx w × V)) (h : xs.Pairwise (fun a b => a.1.len < b.1.len)) :
    ∀ init : Option (Pfx w × V), (∀ b, init = some b → ∀ x ∈ xs, b.1.len < x.1.len) →
    xs.foldl pickLonger init = (match xs.getLast? with | some e => some e | none => init) := by
  induction xs with
  | nil => intro init _; rfl
  | cons x xs ih =>
    intro init hinit
    rw [List.pairwise_cons] at h
    simp only [List.foldl_cons]
    have step : pickLonger init x = some x := by
      cases init with
      | none => rfl
      | some b => simp [pickLonger, hinit b rfl x (List.mem_cons_self ..)]
    rw [step, ih h.2 (some x) (fun b hb y hy => by simp at hb; subst hb; exact h.1 y hy)]
    cases hx : xs.getLast? with
    | none =>
      have : xs = [] := List.getLast?_eq_none_iff.1 hx
      subst this; rfl
    | some e =>
      rw [List.getLast?_cons]
      simp [hx]

theorem fold_shortest_eq_head (xs : List (Pfx w × V)) (h : xs.Pairwise (fun a b => a.1.len < b.1.len)) :
    xs.foldl pickShorter none = xs.head? := by
  cases xs with
  | nil => rfl
  | cons x xs =>
    rw [List.pairwise_cons] at h
    simp only [List.foldl_cons, List.head?_cons]
    have : ∀ (ys : List (Pfx w × V)), (∀ y ∈ ys, x.1.len < y.1.len) →
        ys.foldl pickShorter (some x) = some x := by
      intro ys
      induction ys with
      | nil => intro _; rfl
      | cons y ys ih =>
        intro hy
        simp only [List.foldl_cons]
        have hn : ¬ y.1.len < x.1.len := by have := hy y (List.mem_cons_self ..); omega
        have : pickShorter (some x) y = some x := by simp [pickShorter, hn]
        rw [this]
        exact ih (fun z hz => hy z (List.mem_cons_of_mem _ hz))
    exact this xs h.1

end Spec

namespace PMap
variable {w : Nat} {V : Type}
open Tree Pfx

theorem entries_sorted' {m : PMap w V} (h : m.TreeWF) : Spec.Sorted m.entries := entries_sorted h.wf

/-- `get` = the specification's lookup -/
theorem get_refines {m : PMap w V} (h : m.TreeWF) (q : Pfx w) :
    m.get q = (Spec.lookup m.entries q).map (·.2) := by
  cases hg : m.get q with
  | some x =>
    obtain ⟨p, hp, hk⟩ := (get_iff h.wf q x).1 hg
    rw [(Spec.lookup_eq_some_iff (entries_sorted' h) q (p, x)).2 ⟨hp, hk⟩]; rfl
  | none =>
    cases hl : Spec.lookup m.entries q with
    | none => rfl
    | some e =>
      obtain ⟨he, hk⟩ := (Spec.lookup_eq_some_iff (entries_sorted' h) q e).1 hl
      exact absurd hk ((get_none_iff h.wf q).1 hg e he)

theorem getKeyValue_refines {m : PMap w V} (h : m.TreeWF) (q : Pfx w) :
    m.getKeyValue q = Spec.lookup m.entries q := by
  cases hl : Spec.lookup m.entries q with
  | some e =>
    obtain ⟨he, hk⟩ := (Spec.lookup_eq_some_iff (entries_sorted' h) q e).1 hl
    exact (getKeyValue_iff h.wf q e.1 e.2).2 ⟨he, hk⟩
  | none =>
    cases hg : m.getKeyValue q with
    | none => rfl
    | some e =>
      have := (getKeyValue_iff h.wf q e.1 e.2).1 hg
      rw [(Spec.lookup_eq_some_iff (entries_sorted' h) q e).2 this] at hl; simp at hl

/-- `insert` = the specification's `update` -/
theorem insert_refines {m : PMap w V} (h : m.TreeWF) (q : Pfx w) (x : V) :
    (m.insert q x).1.entries = Spec.update m.entries q x := by
  apply Spec.eq_of_sorted (entries_sorted' (insert_treeWF h q x))
  · unfold Spec.update Spec.erase
    apply Spec.sorted_insertSorted _ _ (Spec.sorted_filter (entries_sorted' h) _)
    intro y hy
    have := (List.mem_filter.1 hy).2
    intro e
    have : Spec.sameKey y.1 q = true := by unfold Spec.sameKey; simp [e]
    simp_all
  · intro e
    have hm : e ∈ (m.insert q x).1.entries ↔ e = (q, x) ∨ (e ∈ m.entries ∧ e.1.net ≠ q.net) :=
      insert_mem h.wf q x _ _ (h.rootCovers q) h.root_ne_nil e
    rw [hm]
    unfold Spec.update Spec.erase
    rw [Spec.mem_insertSorted, List.mem_filter]
    have : (!Spec.sameKey e.1 q) = true ↔ e.1.net ≠ q.net := by
      rw [Bool.not_eq_true', Bool.eq_false_iff, ne_eq, Spec.sameKey_iff]
    rw [this]

/-- `remove` / `remove_keep_tree` / `OccupiedEntry::remove` = the specification's `erase` -/
theorem remove_refines {m : PMap w V} (h : m.TreeWF) (q : Pfx w) :
    (m.remove q).1.entries = Spec.erase m.entries q := by
  apply Spec.eq_of_sorted (entries_sorted' (remove_treeWF h q)) (Spec.sorted_filter (entries_sorted' h) _)
  intro e
  have hm : e ∈ (m.remove q).1.entries ↔ e ∈ m.entries ∧ e.1.net ≠ q.net := remove_mem h.wf q false e
  rw [hm]
  rw [List.mem_filter]
  have : (!Spec.sameKey e.1 q) = true ↔ e.1.net ≠ q.net := by
    rw [Bool.not_eq_true', Bool.eq_false_iff, ne_eq, Spec.sameKey_iff]
  rw [this]

theorem removeKeepTree_refines {m : PMap w V} (h : m.TreeWF) (q : Pfx w) :
    (m.removeKeepTree q).1.entries = Spec.erase m.entries q := by
  apply Spec.eq_of_sorted (entries_sorted' (removeKeepTree_treeWF h q)) (Spec.sorted_filter (entries_sorted' h) _)
  intro e
  have hm : e ∈ (m.removeKeepTree q).1.entries ↔ e ∈ m.entries ∧ e.1.net ≠ q.net := takeValue_mem h.wf q e
  rw [hm]
  rw [List.mem_filter]
  have : (!Spec.sameKey e.1 q) = true ↔ e.1.net ≠ q.net := by
    rw [Bool.not_eq_true', Bool.eq_false_iff, ne_eq, Spec.sameKey_iff]
  rw [this]

/-- `remove_children` = the specification's `removeChildren` -/
theorem removeChildren_refines {m : PMap w V} (h : m.Inv) (q : Pfx w) :
    (m.removeChildren q).entries = Spec.removeChildren m.entries q := by
  apply Spec.eq_of_sorted (entries_sorted' (removeChildren_inv h q).tree) (Spec.sorted_filter (entries_sorted' h.tree) _)
  intro e
  rw [removeChildren_mem h.tree q e]
  rw [List.mem_filter]
  have : (!Spec.covers q e.1) = true ↔ ¬ q.net <+: e.1.net := by
    rw [Bool.not_eq_true', Bool.eq_false_iff, ne_eq, Spec.covers_iff]
  rw [this]

/-- `retain` = the specification's `retain` (filter) -/
theorem retain_refines {m : PMap w V} (h : m.Inv) (f : Pfx w → V → Bool) :
    (m.retain f).entries = Spec.retain m.entries f := by
  apply Spec.eq_of_sorted (entries_sorted' (retain_inv h f none).tree) (Spec.sorted_filter (entries_sorted' h.tree) _)
  intro e
  rw [retain_mem h.tree f e]
  rw [List.mem_filter]

/-- `collect` = the specification's `collect` (fold of `update`), for any input list -/
theorem collect_refines (xs : List (Pfx w × V)) : (collect xs).entries = Spec.collect xs := by
  unfold collect Spec.collect
  suffices ∀ (m : PMap w V), m.TreeWF →
      (xs.foldl (fun m e => (m.insert e.1 e.2).1) m).entries = xs.foldl (fun s e => Spec.update s e.1 e.2) m.entries from
    this _ empty_treeWF
  induction xs with
  | nil => intro m _; rfl
  | cons e es ih =>
    intro m hm
    simp only [List.foldl_cons]
    rw [ih _ (insert_treeWF hm e.1 e.2), insert_refines hm]

/-- `cover` = the specification's `cover` -/
theorem cover_refines {m : PMap w V} (h : m.TreeWF) (q : Pfx w) : m.cover q = Spec.cover m.entries q := by
  unfold PMap.cover
  rw [cover_eq_covering h.wf h.root_pfx q]
  unfold covering Spec.cover
  congr 1
  funext e
  rw [Spec.covers_eq_contains]

/-- `get_lpm` = the specification's `lpm` (arg-max of the length over the covering entries) -/
theorem getLpm_refines {m : PMap w V} (h : m.TreeWF) (q : Pfx w) : m.getLpm q = Spec.lpm m.entries q := by
  unfold PMap.getLpm Spec.lpm
  rw [Tree.getLpm_eq h.wf q none (h.rootCovers q), ← cover_refines h, PMap.cover, cover_eq_covering h.wf h.root_pfx q]
  rw [Spec.fold_longest_eq_getLast _ (covering_sorted h.wf q) none (by simp)]
  cases (covering m.root q).getLast? <;> rfl

/-- `get_spm` = the specification's `spm` -/
theorem getSpm_refines {m : PMap w V} (h : m.TreeWF) (q : Pfx w) : m.getSpm q = Spec.spm m.entries q := by
  unfold PMap.getSpm Spec.spm
  rw [Tree.getSpm_eq, ← cover_refines h, PMap.cover, cover_eq_covering h.wf h.root_pfx q]
  rw [Spec.fold_shortest_eq_head _ (covering_sorted h.wf q)]

/-- `children` = the specification's `children` -/
theorem children_refines {m : PMap w V} (h : m.TreeWF) (q : Pfx w) :
    m.childrenIter q = Spec.children m.entries q := by
  unfold PMap.childrenIter Spec.children Spec.under
  rw [iterAll_root]
  apply Spec.eq_of_sorted (entries_sorted (childrenStart_wf h.wf q)) (Spec.sorted_filter (entries_sorted' h) _)
  intro e
  rw [childrenStart_mem h.wf (h.rootCovers q), List.mem_filter]
  have : (Spec.key q).isPrefixOf (Spec.key e.1) = true ↔ q.net <+: e.1.net := List.isPrefixOf_iff_prefix
  rw [this]; rfl

/-- the iteration listing is the abstract map -/
theorem iter_refines (m : PMap w V) : m.iter = m.entries := iterAll_root m.root

end PMap

namespace PMap
variable {w : Nat} {V : Type}
open Tree Pfx

/-- value writes by key (`get_mut`, `and_modify`, …) = the specification's `modify` -/
theorem modify_refines {m : PMap w V} (h : m.TreeWF) (q : Pfx w) (f : V → V) :
    (m.modify q f).entries = Spec.modify m.entries q f := by
  apply Spec.eq_of_sorted (entries_sorted' (modify_treeWF h q f))
  · unfold Spec.modify
    show List.Pairwise _ (List.map _ m.entries)
    rw [List.pairwise_map]
    refine (entries_sorted' h).imp (fun {a b} hab => ?_)
    have ka : ∀ e : Pfx w × V, (if Spec.sameKey e.1 q then (e.1, f e.2) else e).1 = e.1 := by
      intro e; split <;> rfl
    rw [ka a, ka b]; exact hab
  · intro e
    have hm : e ∈ (m.modify q f).entries ↔
        (e ∈ m.entries ∧ e.1.net ≠ q.net) ∨ (∃ x, (e.1, x) ∈ m.entries ∧ e.1.net = q.net ∧ e.2 = f x) :=
      modifyValue_mem h.wf q f e
    rw [hm]
    unfold Spec.modify
    rw [List.mem_map]
    constructor
    · rintro (⟨h1, h2⟩ | ⟨x, h1, h2, h3⟩)
      · refine ⟨e, h1, ?_⟩
        have : Spec.sameKey e.1 q = false := by rw [Bool.eq_false_iff, ne_eq, Spec.sameKey_iff]; exact h2
        simp [this]
      · refine ⟨(e.1, x), h1, ?_⟩
        have : Spec.sameKey e.1 q = true := (Spec.sameKey_iff _ _).2 h2
        simp [this, ← h3]
    · rintro ⟨e0, h0, he⟩
      by_cases hk : Spec.sameKey e0.1 q = true
      · simp only [hk, ite_true] at he
        subst he
        exact .inr ⟨e0.2, h0, (Spec.sameKey_iff _ _).1 hk, rfl⟩
      · simp only [hk] at he
        subst he
        exact .inl ⟨h0, fun hh => hk ((Spec.sameKey_iff _ _).2 hh)⟩

/-- `set` on a view positioned at a real node with stored prefix `np` = the specification's `update` at `np` -/
theorem viewSet_refines {m : PMap w V} (h : m.TreeWF) {v : View w} (hg : View.Good m.root v) (x : V) :
    (m.viewSet v x).1.entries =
      (match v.virt, (v.node m.root).pfx? with
       | none, some np => Spec.update m.entries np x
       | _, _ => m.entries) := by
  have hmem := fun e => viewSet_mem h hg x e
  have hwf : (m.viewSet v x).1.TreeWF := by
    unfold viewSet; cases v.virt
    · exact setAt_treeWF h _ _ _ _ _
    · exact h
  cases hv : v.virt with
  | some q => unfold viewSet; rw [hv]
  | none =>
    cases hp : (v.node m.root).pfx? with
    | none => obtain ⟨kk, s, np, ov, l, r, hs, _, _⟩ := hg; simp [View.node, hs, Tree.pfx?] at hp
    | some np =>
      simp only [hv, hp] at hmem ⊢
      apply Spec.eq_of_sorted (entries_sorted' hwf)
      · unfold Spec.update Spec.erase
        apply Spec.sorted_insertSorted _ _ (Spec.sorted_filter (entries_sorted' h) _)
        intro y hy
        simp only [List.mem_filter, Bool.not_eq_true', Bool.eq_false_iff, ne_eq, Spec.sameKey_iff] at hy
        exact fun hk => hy.2 hk
      · intro e
        rw [hmem e]
        unfold Spec.update Spec.erase
        rw [Spec.mem_insertSorted]
        simp only [List.mem_filter, Bool.not_eq_true', Bool.eq_false_iff, ne_eq, Spec.sameKey_iff]
        constructor
        · rintro (h1 | h1)
          · exact .inr h1
          · exact .inl h1
        · rintro (h1 | h1)
          · exact .inr h1
          · exact .inl h1

/-- `remove` on a view positioned at a real node with stored prefix `np` = the specification's `erase` at `np` -/
theorem viewRemove_refines {m : PMap w V} (h : m.TreeWF) {v : View w} (hg : View.Good m.root v) :
    (m.viewRemove v).1.entries =
      (match v.virt, (v.node m.root).pfx? with
       | none, some np => Spec.erase m.entries np
       | _, _ => m.entries) := by
  have hmem := fun e => viewRemove_mem h hg e
  have hwf : (m.viewRemove v).1.TreeWF := by
    unfold viewRemove; cases v.virt
    · exact setAt_treeWF h _ _ _ _ _
    · exact h
  cases hv : v.virt with
  | some q => unfold viewRemove; rw [hv]
  | none =>
    cases hp : (v.node m.root).pfx? with
    | none => obtain ⟨kk, s, np, ov, l, r, hs, _, _⟩ := hg; simp [View.node, hs, Tree.pfx?] at hp
    | some np =>
      simp only [hv, hp] at hmem ⊢
      apply Spec.eq_of_sorted (entries_sorted' hwf) (Spec.sorted_filter (entries_sorted' h) _)
      intro e
      rw [hmem e]
      simp only [Spec.erase, List.mem_filter, Bool.not_eq_true', Bool.eq_false_iff, ne_eq, Spec.sameKey_iff]

/-- the stored prefix of the real node at which `view_mut_at(q)` + navigation `cs` arrives
(`none`: no such view, or a virtual position, where `set` fails and `remove` has nothing to take) -/
def viewTarget (m : PMap w V) (q : Pfx w) (cs : List Bool) : Option (Pfx w) :=
  match m.viewAtNav q cs with
  | some v => (match v.virt, (v.node m.root).pfx? with
    | none, some np => some np
    | _, _ => none)
  | none => none

/-- the specification-level transformer of each mutator.  It is a function of the abstract map and
the call alone, except for writes through views: a view may sit on a value-less node, which the
abstract map cannot see, so the key they address (`viewTarget`) is read off the concrete state `m`. -/
def specApply (m : PMap w V) (s : Spec.SMap w V) : Op w V → Spec.SMap w V
  | .insert q x => Spec.update s q x
  | .orInsert q x => if (Spec.lookup s q).isSome then s else Spec.update s q x
  | .modify q f => Spec.modify s q f
  | .remove q => Spec.erase s q
  | .removeKeepTree q => Spec.erase s q
  | .removeChildren q => Spec.removeChildren s q
  | .retain f _ => Spec.retain s f
  | .clear => []
  | .collect xs => Spec.collect xs
  | .viewSet q cs x => (match m.viewTarget q cs with | some np => Spec.update s np x | none => s)
  | .viewRemove q cs => (match m.viewTarget q cs with | some np => Spec.erase s np | none => s)

/-- a `retain` that ran to completion (its predicate did not panic) -/
def Op.Complete : Op w V → Prop
  | .retain _ stop => stop = none
  | _ => True

theorem apply_refines {m : PMap w V} (h : m.Inv) (op : Op w V) (hc : op.Complete) :
    (op.apply m).entries = specApply m m.entries op := by
  cases op with
  | insert q x => exact insert_refines h.tree q x
  | orInsert q x =>
    simp only [Op.apply, specApply, orInsert]
    have hg := get_refines h.tree q
    unfold PMap.get at hg
    cases hl : Spec.lookup m.entries q with
    | none => rw [hl] at hg; simp only [Option.map_none] at hg; simp [hg, insert_refines h.tree q x]
    | some e => rw [hl] at hg; simp only [Option.map_some] at hg; simp [hg]
  | modify q f => exact modify_refines h.tree q f
  | remove q => exact remove_refines h.tree q
  | removeKeepTree q => exact removeKeepTree_refines h.tree q
  | removeChildren q => exact removeChildren_refines h q
  | retain f stop =>
    have : stop = none := hc
    subst this
    exact retain_refines h f
  | clear => rfl
  | collect xs => exact collect_refines xs
  | viewSet q cs x =>
    simp only [Op.apply, specApply, viewSetAt, viewTarget]
    cases hv : m.viewAtNav q cs with
    | none => rfl
    | some v =>
      simp only []
      rw [viewSet_refines h.tree (viewAtNav_good h.tree hv) x]
      cases v.virt <;> cases (v.node m.root).pfx? <;> rfl
  | viewRemove q cs =>
    simp only [Op.apply, specApply, viewRemoveAt, viewTarget]
    cases hv : m.viewAtNav q cs with
    | none => rfl
    | some v =>
      simp only []
      rw [viewRemove_refines h.tree (viewAtNav_good h.tree hv)]
      cases v.virt <;> cases (v.node m.root).pfx? <;> rfl

/-- the abstract map after a history: every call is applied to the abstract map (the concrete state
is threaded along only to resolve the key addressed by view writes) -/
def specRun : List (Op w V) → PMap w V → Spec.SMap w V → Spec.SMap w V
  | [], _, s => s
  | op :: ops, m, s => specRun ops (op.apply m) (specApply m s op)

/-- after any finite history (of completed operations) the entries of the map are the abstract map
to which the same calls were applied -/
theorem history_refines (ops : List (Op w V)) (hc : ∀ op ∈ ops, op.Complete) :
    (run ops (empty : PMap w V)).entries = specRun ops empty [] := by
  unfold run
  suffices ∀ (m : PMap w V), m.Inv → (ops.foldl Op.apply m).entries = specRun ops m m.entries from
    this _ empty_inv
  induction ops with
  | nil => intro m _; rfl
  | cons op ops ih =>
    intro m hm
    simp only [List.foldl_cons, specRun]
    rw [ih (fun o ho => hc o (List.mem_cons_of_mem _ ho)) _ (apply_inv hm op),
      apply_refines hm op (hc op (List.mem_cons_self ..))]

end PMap
