import PT.Lemmas.Bits
import PT.MapOps
/-!
# Well-formedness of the trie and the geometry of descents

`WF k t`: every prefix stored in `t` extends the key `k`, and below a node with prefix `p` the left
subtree lives under `net p ++ [false]`, the right one under `net p ++ [true]` (children strictly
longer, covered, on the side of the next bit).  The map's root satisfies `WF [] root`.
-/

namespace List
theorem prefix_snoc_of_ne {a b : List Bool} (h : a <+: b) (hne : a ≠ b) :
    a ++ [b[a.length]?.getD false] <+: b := by
  obtain ⟨t, rfl⟩ := h
  cases t with
  | nil => simp at hne
  | cons x t => simp

/-- two keys that extend `b` by different bits are incomparable -/
theorem not_prefix_of_sides {b a c : List Bool} {x y : Bool} (hxy : x ≠ y)
    (ha : b ++ [x] <+: a) (hc : b ++ [y] <+: c) : ¬ a <+: c := by
  intro hac
  have h1 : b ++ [x] <+: c := ha.trans hac
  have := List.prefix_of_prefix_length_le h1 hc (by simp)
  have := List.IsPrefix.eq_of_length this (by simp)
  simp at this
  exact hxy this

theorem ne_of_sides {b a c : List Bool} {x y : Bool} (hxy : x ≠ y)
    (ha : b ++ [x] <+: a) (hc : b ++ [y] <+: c) : a ≠ c := by
  intro h
  exact not_prefix_of_sides hxy ha hc (h ▸ List.prefix_refl _)

/-- a key strictly below `b` is not a prefix of `b` -/
theorem not_prefix_of_snoc {b a : List Bool} {x : Bool} (ha : b ++ [x] <+: a) : ¬ a <+: b := by
  intro h
  have := (ha.trans h).length_le
  simp at this
  omega

theorem ne_of_snoc_prefix {b a : List Bool} {x : Bool} (ha : b ++ [x] <+: a) : a ≠ b := by
  intro h
  exact not_prefix_of_snoc ha (h ▸ List.prefix_refl _)
end List

namespace Pfx
variable {w : Nat}

theorem toRight_eq (p q : Pfx w) : toRight p q = (q.net[p.len]?).getD false := by
  unfold toRight; exact isBitSet_eq q p.len

/-- the side bit of `q` below `p`, as a key extension -/
theorem side_prefix {p q : Pfx w} (hc : p.net <+: q.net) (hne : p.net ≠ q.net) :
    p.net ++ [toRight p q] <+: q.net := by
  have := List.prefix_snoc_of_ne hc hne
  rwa [net_length, ← toRight_eq] at this

/-- if `q` extends `p` by the bit `b`, then `b` is the side of `q` below `p` -/
theorem toRight_of_prefix {p q : Pfx w} {b : Bool} (h : p.net ++ [b] <+: q.net) : toRight p q = b := by
  rw [toRight_eq]
  obtain ⟨t, ht⟩ := h
  rw [← ht, ← net_length p]
  simp

theorem net_ne_of_len_ne {p q : Pfx w} (h : p.len ≠ q.len) : p.net ≠ q.net := by
  intro e; apply h; rw [← net_length p, ← net_length q, e]

end Pfx

namespace Tree
variable {w : Nat} {V : Type}
open Pfx

def WF : List Bool → Tree w V → Prop
  | _, nil => True
  | k, node _ p _ l r => k <+: p.net ∧ WF (p.net ++ [false]) l ∧ WF (p.net ++ [true]) r

theorem WF.mono {k k' : List Bool} {t : Tree w V} (h : WF k t) (hk : k' <+: k) : WF k' t := by
  cases t with
  | nil => trivial
  | node s p v l r => exact ⟨hk.trans h.1, h.2.1, h.2.2⟩

/-- a node is well-formed at its own key -/
theorem WF.self {k : List Bool} {s : Nat} {p : Pfx w} {v : Option V} {l r : Tree w V}
    (h : WF k (node s p v l r)) : WF p.net (node s p v l r) :=
  ⟨List.prefix_refl _, h.2.1, h.2.2⟩

theorem WF.of_child {k : List Bool} {s : Nat} {p : Pfx w} {v : Option V} {l r : Tree w V}
    (h : WF k (node s p v l r)) (b : Bool) : WF (p.net ++ [b]) (child l r b) := by
  cases b
  · exact h.2.1
  · exact h.2.2

/-- every entry of a well-formed subtree lives under the subtree's key -/
theorem WF.mem_entries {k : List Bool} {t : Tree w V} (h : WF k t) {e : Pfx w × V}
    (he : e ∈ t.entries) : k <+: e.1.net := by
  induction t generalizing k with
  | nil => simp [entries] at he
  | node s p v l r ihl ihr =>
    simp only [entries, List.mem_append] at he
    rcases he with (he | he) | he
    · cases v with
      | none => simp at he
      | some x => simp at he; subst he; exact h.1
    · exact h.1.trans ((List.prefix_append _ _).trans (ihl h.2.1 he))
    · exact h.1.trans ((List.prefix_append _ _).trans (ihr h.2.2 he))

theorem WF.mem_child_entries {k : List Bool} {s : Nat} {p : Pfx w} {v : Option V} {l r : Tree w V}
    (h : WF k (node s p v l r)) (b : Bool) {e : Pfx w × V} (he : e ∈ (child l r b).entries) :
    p.net ++ [b] <+: e.1.net := WF.mem_entries (WF.of_child h b) he

/-- root prefix of a well-formed subtree extends the key -/
theorem WF.pfx {k : List Bool} {t : Tree w V} (h : WF k t) {p : Pfx w} (hp : t.pfx? = some p) :
    k <+: p.net := by
  cases t with
  | nil => simp [pfx?] at hp
  | node s p' v l r => simp [pfx?] at hp; subst hp; exact h.1

/-! ### characterisation of `get_direction` -/

theorem getDir_of_eqv {p : Pfx w} {l r : Tree w V} {q : Pfx w} (h : p.eqv q = true) :
    getDir p l r q = .reached := by simp [getDir, h]

theorem getDir_of_not_eqv {p : Pfx w} {l r : Tree w V} {q : Pfx w} (h : ¬ p.eqv q = true) :
    getDir p l r q = dirChild q (toRight p q) (child l r (toRight p q)).pfx? := by simp [getDir, h]

theorem dirIns_of_eqv {p : Pfx w} {l r : Tree w V} {q : Pfx w} (h : p.eqv q = true) :
    dirIns p l r q = .reached := by simp [dirIns, h]

theorem dirIns_of_not_eqv {p : Pfx w} {l r : Tree w V} {q : Pfx w} (h : ¬ p.eqv q = true) :
    dirIns p l r q = dirInsChild q (toRight p q) (child l r (toRight p q)).pfx? := by simp [dirIns, h]

theorem getDir_reached {p : Pfx w} {l r : Tree w V} {q : Pfx w} (h : getDir p l r q = .reached) :
    p.net = q.net := by
  by_cases he : p.eqv q = true
  · exact (eqv_iff p q).1 he
  · rw [getDir_of_not_eqv he] at h
    unfold dirChild at h
    split at h
    · split at h <;> simp at h
    · simp at h

theorem getDir_of_net_eq {p : Pfx w} {l r : Tree w V} {q : Pfx w} (h : p.net = q.net) :
    getDir p l r q = .reached := by
  unfold getDir; simp [(eqv_iff p q).2 h]

theorem getDir_enter {p : Pfx w} {l r : Tree w V} {q : Pfx w} {b : Bool}
    (h : getDir p l r q = .enter b) :
    p.net ≠ q.net ∧ b = toRight p q ∧
      ∃ s cp cv cl cr, child l r b = node s cp cv cl cr ∧ cp.net <+: q.net := by
  by_cases he : p.eqv q = true
  · simp [getDir_of_eqv he] at h
  · have hne : p.net ≠ q.net := fun e => he ((eqv_iff p q).2 e)
    rw [getDir_of_not_eqv he] at h
    cases hc : child l r (toRight p q) with
    | nil => simp [hc, pfx?, dirChild] at h
    | node s cp cv cl cr =>
      simp only [hc, pfx?, dirChild] at h
      by_cases h1 : cp.contains q = true
      · simp only [h1, ite_true, Dir.enter.injEq] at h
        subst h
        exact ⟨hne, rfl, s, cp, cv, cl, cr, hc, (contains_iff cp q).1 h1⟩
      · simp [h1] at h

theorem getDir_missing {p : Pfx w} {l r : Tree w V} {q : Pfx w} (h : getDir p l r q = .missing) :
    p.net ≠ q.net ∧ ∀ s cp cv cl cr, child l r (toRight p q) = node s cp cv cl cr → ¬ cp.net <+: q.net := by
  by_cases he : p.eqv q = true
  · simp [getDir_of_eqv he] at h
  · have hne : p.net ≠ q.net := fun e => he ((eqv_iff p q).2 e)
    refine ⟨hne, ?_⟩
    intro s cp cv cl cr hc hcov
    rw [getDir_of_not_eqv he] at h
    simp only [hc, pfx?, dirChild] at h
    have := (contains_iff cp q).2 hcov
    simp [this] at h

/-- the direction taken towards a key `q'` that lives strictly below `p` on side `b` -/
theorem getDir_of_under {k : List Bool} {s : Nat} {p : Pfx w} {v : Option V} {l r : Tree w V}
    (hwf : WF k (node s p v l r)) {q : Pfx w} {b : Bool} {e : Pfx w × V}
    (he : e ∈ (child l r b).entries) (hq : e.1.net = q.net) :
    getDir p l r q = .enter b := by
  have hunder : p.net ++ [b] <+: q.net := hq ▸ WF.mem_child_entries hwf b he
  have hne : p.net ≠ q.net := (List.ne_of_snoc_prefix hunder).symm
  have hb : toRight p q = b := toRight_of_prefix hunder
  have he' : ¬ p.eqv q = true := fun h => hne ((eqv_iff p q).1 h)
  rw [getDir_of_not_eqv he', hb]
  cases hc : child l r b with
  | nil => rw [hc] at he; simp [entries] at he
  | node cs cp cv cl cr =>
    have hcwf : WF (p.net ++ [b]) (node cs cp cv cl cr) := hc ▸ WF.of_child hwf b
    have : cp.net <+: q.net := hq ▸ (WF.mem_entries (WF.self hcwf) (hc ▸ he))
    simp [pfx?, dirChild, (contains_iff cp q).2 this]

/-! ### characterisation of `get_direction_for_insert` -/

theorem dirIns_reached {p : Pfx w} {l r : Tree w V} {q : Pfx w} (h : dirIns p l r q = .reached) :
    p.net = q.net := by
  by_cases he : p.eqv q = true
  · exact (eqv_iff p q).1 he
  · rw [dirIns_of_not_eqv he] at h
    unfold dirInsChild at h
    split at h
    · simp at h
    · split at h
      · simp at h
      · split at h <;> simp at h

theorem dirIns_of_net_eq {p : Pfx w} {l r : Tree w V} {q : Pfx w} (h : p.net = q.net) :
    dirIns p l r q = .reached := by
  unfold dirIns; simp [(eqv_iff p q).2 h]

theorem dirIns_enter {p : Pfx w} {l r : Tree w V} {q : Pfx w} {b : Bool}
    (h : dirIns p l r q = .enter b) :
    p.net ≠ q.net ∧ b = toRight p q ∧
      ∃ s cp cv cl cr, child l r b = node s cp cv cl cr ∧ cp.net <+: q.net := by
  by_cases he : p.eqv q = true
  · simp [dirIns_of_eqv he] at h
  · have hne : p.net ≠ q.net := fun e => he ((eqv_iff p q).2 e)
    rw [dirIns_of_not_eqv he] at h
    cases hc : child l r (toRight p q) with
    | nil => simp [hc, pfx?, dirInsChild] at h
    | node s cp cv cl cr =>
      cases h1 : cp.contains q
      · cases h2 : q.contains cp <;> simp [hc, pfx?, dirInsChild, h1, h2] at h
      · simp [hc, pfx?, dirInsChild, h1] at h
        subst h
        exact ⟨hne, rfl, s, cp, cv, cl, cr, hc, (contains_iff cp q).1 h1⟩

theorem dirIns_newLeaf {p : Pfx w} {l r : Tree w V} {q : Pfx w} {b : Bool}
    (h : dirIns p l r q = .newLeaf b) :
    p.net ≠ q.net ∧ b = toRight p q ∧ child l r b = nil := by
  by_cases he : p.eqv q = true
  · simp [dirIns_of_eqv he] at h
  · have hne : p.net ≠ q.net := fun e => he ((eqv_iff p q).2 e)
    rw [dirIns_of_not_eqv he] at h
    cases hc : child l r (toRight p q) with
    | nil =>
      simp [hc, pfx?, dirInsChild] at h
      subst h
      exact ⟨hne, rfl, hc⟩
    | node s cp cv cl cr =>
      cases h1 : cp.contains q
      · cases h2 : q.contains cp <;> simp [hc, pfx?, dirInsChild, h1, h2] at h
      · simp [hc, pfx?, dirInsChild, h1] at h

theorem dirIns_newChild {p : Pfx w} {l r : Tree w V} {q : Pfx w} {b cr : Bool}
    (h : dirIns p l r q = .newChild b cr) :
    p.net ≠ q.net ∧ b = toRight p q ∧
      ∃ s cp cv cl crr, child l r b = node s cp cv cl crr ∧ ¬ cp.net <+: q.net ∧ q.net <+: cp.net ∧
        cr = toRight q cp := by
  by_cases he : p.eqv q = true
  · simp [dirIns_of_eqv he] at h
  · have hne : p.net ≠ q.net := fun e => he ((eqv_iff p q).2 e)
    rw [dirIns_of_not_eqv he] at h
    cases hc : child l r (toRight p q) with
    | nil => simp [hc, pfx?, dirInsChild] at h
    | node s cp cv cl crr =>
      cases h1 : cp.contains q
      · have h1' : ¬ cp.net <+: q.net := fun hh => by
          have := (contains_iff cp q).2 hh; simp [h1] at this
        cases h2 : q.contains cp
        · simp [hc, pfx?, dirInsChild, h1, h2] at h
        · simp [hc, pfx?, dirInsChild, h1, h2] at h
          obtain ⟨hb, hcr⟩ := h
          subst hb hcr
          exact ⟨hne, rfl, s, cp, cv, cl, crr, hc, h1', (contains_iff q cp).1 h2, rfl⟩
      · simp [hc, pfx?, dirInsChild, h1] at h

theorem dirIns_newBranch {p : Pfx w} {l r : Tree w V} {q : Pfx w} {b pr : Bool} {bp : Pfx w}
    (h : dirIns p l r q = .newBranch bp b pr) :
    p.net ≠ q.net ∧ b = toRight p q ∧
      ∃ s cp cv cl crr, child l r b = node s cp cv cl crr ∧ ¬ cp.net <+: q.net ∧ ¬ q.net <+: cp.net ∧
        bp = q.lcp cp ∧ pr = toRight bp q := by
  by_cases he : p.eqv q = true
  · simp [dirIns_of_eqv he] at h
  · have hne : p.net ≠ q.net := fun e => he ((eqv_iff p q).2 e)
    rw [dirIns_of_not_eqv he] at h
    cases hc : child l r (toRight p q) with
    | nil => simp [hc, pfx?, dirInsChild] at h
    | node s cp cv cl crr =>
      cases h1 : cp.contains q
      · have h1' : ¬ cp.net <+: q.net := fun hh => by
          have := (contains_iff cp q).2 hh; simp [h1] at this
        cases h2 : q.contains cp
        · have h2' : ¬ q.net <+: cp.net := fun hh => by
            have := (contains_iff q cp).2 hh; simp [h2] at this
          simp [hc, pfx?, dirInsChild, h1, h2] at h
          obtain ⟨hbp, hb, hpr⟩ := h
          subst hbp hb hpr
          exact ⟨hne, rfl, s, cp, cv, cl, crr, hc, h1', h2', rfl, rfl⟩
        · simp [hc, pfx?, dirInsChild, h1, h2] at h
      · simp [hc, pfx?, dirInsChild, h1] at h

/-! ### small facts about `child` / `setChild` -/

@[simp] theorem child_true (l r : Tree w V) : child l r true = r := rfl
@[simp] theorem child_false (l r : Tree w V) : child l r false = l := rfl
@[simp] theorem setChild_true (s : Nat) (p : Pfx w) (v : Option V) (l r c : Tree w V) :
    setChild s p v l r true c = node s p v l c := rfl
@[simp] theorem setChild_false (s : Nat) (p : Pfx w) (v : Option V) (l r c : Tree w V) :
    setChild s p v l r false c = node s p v c r := rfl

/-- own entry of a node -/
def own (p : Pfx w) (v : Option V) : List (Pfx w × V) :=
  match v with
  | some x => [(p, x)]
  | none => []

theorem entries_node (s : Nat) (p : Pfx w) (v : Option V) (l r : Tree w V) :
    (node s p v l r).entries = own p v ++ l.entries ++ r.entries := by
  cases v <;> rfl

theorem mem_own {p : Pfx w} {v : Option V} {e : Pfx w × V} : e ∈ own p v ↔ v = some e.2 ∧ e.1 = p := by
  cases v with
  | none => simp [own]
  | some x =>
    simp only [own, List.mem_singleton, Option.some.injEq]
    constructor
    · rintro rfl; exact ⟨rfl, rfl⟩
    · rintro ⟨h1, h2⟩; cases e; simp_all

theorem mem_entries_node {s : Nat} {p : Pfx w} {v : Option V} {l r : Tree w V} {e : Pfx w × V} :
    e ∈ (node s p v l r).entries ↔ e ∈ own p v ∨ e ∈ l.entries ∨ e ∈ r.entries := by
  rw [entries_node]; simp [List.mem_append, or_assoc]

theorem mem_entries_setChild {s : Nat} {p : Pfx w} {v : Option V} {l r c : Tree w V} {b : Bool}
    {e : Pfx w × V} :
    e ∈ (setChild s p v l r b c).entries ↔ e ∈ own p v ∨ e ∈ c.entries ∨ e ∈ (child l r (!b)).entries := by
  cases b
  · simp only [setChild_false, mem_entries_node, Bool.not_false, child_true]
  · simp only [setChild_true, mem_entries_node, Bool.not_true, child_false]
    constructor
    · rintro (h | h | h)
      · exact .inl h
      · exact .inr (.inr h)
      · exact .inr (.inl h)
    · rintro (h | h | h)
      · exact .inl h
      · exact .inr (.inr h)
      · exact .inr (.inl h)

end Tree
