import PT.Lemmas.Inter
/-!
# `difference` / `difference_mut` / `covering_difference(_mut)` against their specifications
-/
namespace SetOps
variable {w : Nat} {L R : Type}
open Tree Pfx

theorem coverK_append (B1 B2 : KL w R) (p : Pfx w) : coverK (B1 ++ B2) p = coverK B1 p ++ coverK B2 p := by
  simp [coverK, List.filter_append]

theorem coverK_eq_nil {B : KL w R} {p : Pfx w} (h : ∀ b ∈ B, ¬ keyOf b <+: p.net) : coverK B p = [] := by
  unfold coverK
  rw [List.filter_eq_nil_iff]
  intro b hb hc
  exact h b hb ((Pfx.contains_iff _ _).1 hc)

theorem lpmK_nil (p : Pfx w) : lpmK ([] : KL w R) p = none := rfl

theorem lpmK_of_cover_nil {B : KL w R} {p : Pfx w} (h : coverK B p = []) : lpmK B p = none := by
  unfold lpmK; rw [h]; rfl

theorem diffS_append (A1 A2 : KL w L) (B : KL w R) (base : Lpm w R) :
    diffS (A1 ++ A2) B base = diffS A1 B base ++ diffS A2 B base := by
  simp [diffS, List.filterMap_append]

theorem covDiffS_append (A1 A2 : KL w L) (B : KL w R) :
    covDiffS (A1 ++ A2) B = covDiffS A1 B ++ covDiffS A2 B := by
  simp [covDiffS, List.filterMap_append]

theorem diffS_nil_left (B : KL w R) (base : Lpm w R) : diffS ([] : KL w L) B base = [] := rfl
theorem covDiffS_nil_left (B : KL w R) : covDiffS ([] : KL w L) B = [] := rfl

theorem diffS_congr {A : KL w L} {B B' : KL w R} {base base' : Lpm w R}
    (h : ∀ a ∈ A, lookupK B (keyOf a) = none → lookupK B' (keyOf a) = none ∧
      orE (lpmK B a.2.1) base = orE (lpmK B' a.2.1) base')
    (h' : ∀ a ∈ A, (lookupK B (keyOf a)).isSome = (lookupK B' (keyOf a)).isSome) :
    diffS A B base = diffS A B' base' := by
  unfold diffS
  induction A with
  | nil => rfl
  | cons a as ih =>
    simp only [List.filterMap_cons]
    have ha := h a (List.mem_cons_self ..)
    have ha' := h' a (List.mem_cons_self ..)
    rw [ih (fun x hx => h x (List.mem_cons_of_mem _ hx)) (fun x hx => h' x (List.mem_cons_of_mem _ hx))]
    cases hl : lookupK B (keyOf a) with
    | none =>
      obtain ⟨h1, h2⟩ := ha hl
      simp only [h1, h2]
    | some b =>
      rw [hl] at ha'
      cases hl' : lookupK B' (keyOf a) with
      | none => rw [hl'] at ha'; simp at ha'
      | some b' => rfl

theorem covDiffS_congr {A : KL w L} {B B' : KL w R}
    (h : ∀ a ∈ A, (coverK B a.2.1).isEmpty = (coverK B' a.2.1).isEmpty) : covDiffS A B = covDiffS A B' := by
  unfold covDiffS
  induction A with
  | nil => rfl
  | cons a as ih =>
    simp only [List.filterMap_cons]
    rw [h a (List.mem_cons_self ..), ih (fun x hx => h x (List.mem_cons_of_mem _ hx))]

/-! ### geometry of covering between two well-formed subtrees -/

/-- nothing on the other side of `k` covers a key below `k ++ [c]` -/
theorem coverK_other_side {k : List Bool} {c : Bool} {B : KL w R} (hb : Under (k ++ [!c]) B) {p : Pfx w}
    (hp : k ++ [c] <+: p.net) : coverK B p = [] :=
  coverK_eq_nil (fun b hb' hcov =>
    List.not_prefix_of_sides (x := !c) (y := c) (by cases c <;> simp) (hb b hb') hp hcov)

/-- nothing strictly below `k` covers `k` or anything above it -/
theorem coverK_below {k : List Bool} {c : Bool} {B : KL w R} (hb : Under (k ++ [c]) B) {p : Pfx w}
    (hp : p.net <+: k) : coverK B p = [] :=
  coverK_eq_nil (fun b hb' hcov => by
    have := ((hb b hb').trans hcov).trans hp |>.length_le
    simp at this; omega)

/-- entries under an incomparable root neither equal nor cover a key -/
theorem coverK_incomparable {kb : List Bool} {B : KL w R} (hb : Under kb B) {p : Pfx w} {ka : List Bool}
    (hp : ka <+: p.net) (h1 : ¬ ka <+: kb) (h2 : ¬ kb <+: ka) : coverK B p = [] :=
  coverK_eq_nil (fun b hb' hcov => by
    have hk := (hb b hb').trans hcov
    rcases Nat.le_total ka.length kb.length with h | h
    · exact h1 (List.prefix_of_prefix_length_le hp hk h)
    · exact h2 (List.prefix_of_prefix_length_le hk hp h))

theorem lookupK_of_cover_nil {B : KL w R} {p : Pfx w} (h : coverK B p = []) : lookupK B p.net = none := by
  apply lookupK_none
  intro b hb e
  have : b ∈ coverK B p := List.mem_filter.2 ⟨hb, (Pfx.contains_iff _ _).2 (e ▸ List.prefix_refl _)⟩
  rw [h] at this; simp at this

/-- covering entries of `p` in a node's entry list, when `p` lies below the node on side `c` -/
theorem coverK_side {s : Nat} {pr : Pfx w} {v : Option R} {l r : Tree w R} (h : HasWF (.node s pr v l r))
    (c : Bool) {p : Pfx w} (hp : pr.net ++ [c] <+: p.net) :
    coverK (Tree.node s pr v l r).slotEntries p = ownS s pr v ++ coverK (child l r c).slotEntries p := by
  obtain ⟨_, hl, hr⟩ := under_root h
  rw [slotEntries_node, coverK_append, coverK_append]
  have hown : coverK (ownS s pr v) p = ownS s pr v := by
    cases v with
    | none => rfl
    | some y =>
      simp [coverK, ownS, (Pfx.contains_iff pr p).2 ((List.prefix_append _ _).trans hp)]
  rw [hown]
  cases c
  · rw [coverK_other_side (k := pr.net) (c := false) hr hp]; simp
  · rw [coverK_other_side (k := pr.net) (c := true) hl hp]; simp

/-- the value of the root of a subtree, as an annotation -/
def ownLpm (t : Tree w R) : Lpm w R := t.pv

theorem orLpm_eq (t : Tree w R) (ann : Lpm w R) : orLpm t ann = orE (ownLpm t) ann := by
  unfold orLpm orE ownLpm; cases t.pv <;> rfl

theorem orE_assoc {α : Type} (a b c : Option α) : orE (orE a b) c = orE a (orE b c) := by
  cases a <;> rfl

theorem orE_none_left {α : Type} (a : Option α) : orE none a = a := rfl
theorem orE_none_right {α : Type} (a : Option α) : orE a none = a := by cases a <;> rfl

theorem getLast?_append_or {α : Type} (xs ys : List α) :
    (xs ++ ys).getLast? = orE ys.getLast? xs.getLast? := by
  rw [List.getLast?_append]; cases ys.getLast? <;> cases xs.getLast? <;> rfl

/-- the match below a node on side `c`: the child's match, else the node's own value -/
theorem lpmK_side {s : Nat} {pr : Pfx w} {v : Option R} {l r : Tree w R} (h : HasWF (.node s pr v l r))
    (c : Bool) {p : Pfx w} (hp : pr.net ++ [c] <+: p.net) :
    lpmK (Tree.node s pr v l r).slotEntries p =
      orE (lpmK (child l r c).slotEntries p) (ownLpm (Tree.node s pr v l r)) := by
  unfold lpmK
  rw [coverK_side h c hp, getLast?_append_or]
  cases (coverK (child l r c).slotEntries p).getLast? with
  | some b => rfl
  | none => cases v <;> rfl

/-! ### the difference machine -/

def dL : DIdx w L R → Tree w L
  | .both l _ => l
  | .firstL l _ => l
  | .firstR l _ => l
  | .onlyL l => l

def dR : DIdx w L R → Tree w R
  | .both _ r => r
  | .firstL _ r => r
  | .firstR _ r => r
  | .onlyL _ => .nil

def dSem (e : DEntry w L R) : List (DItem w L R) := diffS (dL e.1).slotEntries (dR e.1).slotEntries e.2

def dMu (e : DEntry w L R) : Nat := 2 * ((dL e.1).size + (dR e.1).size)

def dOk (e : DEntry w L R) : Prop :=
  HasWF (dL e.1) ∧ HasWF (dR e.1) ∧ dL e.1 ≠ .nil ∧
  match e.1 with
  | .both l r => r ≠ .nil ∧ rootNet l = rootNet r ∧ orLpm r e.2 = e.2
  | .firstL l r => r ≠ .nil ∧ rootNet l <+: rootNet r ∧ rootNet l ≠ rootNet r
  | .firstR l r => r ≠ .nil ∧ rootNet r <+: rootNet l ∧ rootNet l ≠ rootNet r ∧ orLpm r e.2 = e.2
  | .onlyL _ => True

theorem hasWF_nil {T : Type} : HasWF (Tree.nil : Tree w T) := ⟨[], trivial⟩

theorem orLpm_idem {T : Type} (t : Tree w T) (ann : Lpm w T) : orLpm t (orLpm t ann) = orLpm t ann := by
  unfold orLpm; cases t.pv <;> rfl

/-- entries of `B` play no role for keys they neither equal nor cover -/
theorem diffS_drop {A : KL w L} {B : KL w R} {ann : Lpm w R} (h : ∀ a ∈ A, coverK B a.2.1 = []) :
    diffS A B ann = diffS A ([] : KL w R) ann := by
  apply diffS_congr
  · intro a ha _
    exact ⟨lookupK_nil _, by rw [lpmK_of_cover_nil (h a ha), lpmK_nil]⟩
  · intro a ha
    have : lookupK B (keyOf a) = none := lookupK_of_cover_nil (h a ha)
    rw [this, lookupK_nil]

/-- folding the root value of `b` into the inherited annotation changes nothing for keys under `b`'s
root: there the root value (if any) is itself a covering entry of `b` -/
theorem diffS_fold {A : KL w L} {sb : Nat} {pb : Pfx w} {vb : Option R} {lb rb : Tree w R} (ann : Lpm w R)
    (hA : ∀ a ∈ A, pb.net <+: keyOf a) :
    diffS A (Tree.node sb pb vb lb rb).slotEntries (orLpm (Tree.node sb pb vb lb rb) ann) =
      diffS A (Tree.node sb pb vb lb rb).slotEntries ann := by
  apply diffS_congr
  · intro a ha hl
    refine ⟨hl, ?_⟩
    cases vb with
    | none => rfl
    | some y =>
      have hmem : (sb, pb, y) ∈ coverK (Tree.node sb pb (some y) lb rb).slotEntries a.2.1 := by
        apply List.mem_filter.2
        refine ⟨by simp [slotEntries], ?_⟩
        exact (Pfx.contains_iff pb a.2.1).2 (hA a ha)
      unfold lpmK
      cases hg : (coverK (Tree.node sb pb (some y) lb rb).slotEntries a.2.1).getLast? with
      | none => rw [List.getLast?_eq_none_iff] at hg; rw [hg] at hmem; simp at hmem
      | some b => rfl
  · intro a _; rfl

section unfold
variable {sa : Nat} {pa : Pfx w} {va : Option L} {la ra : Tree w L}
  {sb : Nat} {pb : Pfx w} {vb : Option R} {lb rb : Tree w R}

theorem dNext_both (hl : pa.len = pb.len) (hm : Pfx.maskEq pa pb = true) :
    dNext (.node sa pa va la ra) (.node sb pb vb lb rb) = [.both (.node sa pa va la ra) (.node sb pb vb lb rb)] := by
  simp [dNext, hl, hm]

theorem dNext_len_eq_only (hl : pa.len = pb.len) (hm : ¬ Pfx.maskEq pa pb = true) :
    dNext (.node sa pa va la ra) (.node sb pb vb lb rb) = [.onlyL (.node sa pa va la ra)] := by
  simp [dNext, hl, hm]

theorem dNext_firstL (hl : pa.len ≠ pb.len) (h1 : pa.contains pb = true) :
    dNext (.node sa pa va la ra) (.node sb pb vb lb rb) = [.firstL (.node sa pa va la ra) (.node sb pb vb lb rb)] := by
  simp [dNext, hl, h1]

theorem dNext_firstR (hl : pa.len ≠ pb.len) (h1 : ¬ pa.contains pb = true) (h2 : pb.contains pa = true) :
    dNext (.node sa pa va la ra) (.node sb pb vb lb rb) = [.firstR (.node sa pa va la ra) (.node sb pb vb lb rb)] := by
  simp [dNext, hl, h1, h2]

theorem dNext_incomparable (hl : pa.len ≠ pb.len) (h1 : ¬ pa.contains pb = true) (h2 : ¬ pb.contains pa = true) :
    dNext (.node sa pa va la ra) (.node sb pb vb lb rb) = [.onlyL (.node sa pa va la ra)] := by
  simp [dNext, hl, h1, h2]
end unfold

/-- what is needed about a single extended entry -/
theorem dNext_single {a : Tree w L} {b : Tree w R} {ann : Lpm w R} (c : DEntry w L R) (hok : dOk c)
    (hsem : dSem c = diffS a.slotEntries b.slotEntries ann) (hmu : dMu c ≤ 2 * (a.size + b.size)) :
    (∀ x ∈ [c], dOk x) ∧ [c].flatMap dSem = diffS a.slotEntries b.slotEntries ann ∧ [c].reverse = [c] ∧
    Machine.wt dMu [c] ≤ 2 * (a.size + b.size) + 1 := by
  refine ⟨by simpa using hok, by simp [hsem], rfl, ?_⟩
  simp [Machine.wt_cons, Machine.wt_nil]; omega

/-- an `OnlyL` entry stands for the difference with a `b` that neither stores nor covers anything
of `a` -/
theorem dNext_onlyL {a : Tree w L} (b : Tree w R) (ann : Lpm w R) (hwa : HasWF a) (hna : a ≠ .nil)
    (h : ∀ x ∈ a.slotEntries, coverK b.slotEntries x.2.1 = []) :
    (∀ x ∈ [((.onlyL a : DIdx w L R), ann)], dOk x) ∧
    [((.onlyL a : DIdx w L R), ann)].flatMap dSem = diffS a.slotEntries b.slotEntries ann ∧
    [((.onlyL a : DIdx w L R), ann)].reverse = [((.onlyL a : DIdx w L R), ann)] ∧
    Machine.wt dMu [((.onlyL a : DIdx w L R), ann)] ≤ 2 * (a.size + b.size) + 1 := by
  apply dNext_single
  · exact ⟨hwa, hasWF_nil, hna, trivial⟩
  · show diffS a.slotEntries (Tree.nil : Tree w R).slotEntries ann = _
    rw [diffS_drop h]; rfl
  · simp [dMu, dL, dR, Tree.size]; omega

/-- `next_indices` of difference.rs, with the annotation extension -/
theorem dNext_spec (a : Tree w L) (b : Tree w R) (ann : Lpm w R) (hwa : HasWF a) (hwb : HasWF b) :
    (∀ c ∈ dExtend ann (dNext a b), dOk c) ∧
    (dExtend ann (dNext a b)).flatMap dSem = diffS a.slotEntries b.slotEntries ann ∧
    (dExtend ann (dNext a b)).reverse = dExtend ann (dNext a b) ∧
    Machine.wt dMu (dExtend ann (dNext a b)) ≤ 2 * (a.size + b.size) + 1 := by
  cases a with
  | nil =>
    have : dNext (.nil : Tree w L) b = [] := by cases b <;> rfl
    rw [this]
    exact ⟨by simp [dExtend], by simp [dExtend, slotEntries, diffS_nil_left], rfl, by simp [dExtend, Machine.wt_nil]⟩
  | node sa pa va la ra =>
    obtain ⟨ua, _, _⟩ := under_root hwa
    cases b with
    | nil =>
      have : dNext (Tree.node sa pa va la ra) (.nil : Tree w R) = [.onlyL (.node sa pa va la ra)] := rfl
      rw [this]
      exact dNext_onlyL .nil ann hwa (by simp) (fun x _ => by simp [slotEntries, coverK])
    | node sb pb vb lb rb =>
      obtain ⟨ub, _, _⟩ := under_root hwb
      by_cases hl : pa.len = pb.len
      · by_cases hm : Pfx.maskEq pa pb = true
        · have hnet := (maskEq_iff_net hl).1 hm
          rw [dNext_both hl hm]
          apply dNext_single
          · exact ⟨hwa, hwb, by simp [dL], by simp, by simp [rootNet, pfx?, hnet], orLpm_idem _ _⟩
          · exact diffS_fold ann (fun x hx => hnet ▸ ua x hx)
          · simp [dMu, dL, dR]
        · rw [dNext_len_eq_only hl hm]
          have hne : pa.net ≠ pb.net := fun e => hm ((maskEq_iff_net hl).2 e)
          apply dNext_onlyL _ ann hwa (by simp)
          intro x hx
          refine coverK_incomparable ub (ua x hx) ?_ ?_
          · intro h; exact hne (h.eq_of_length (by simp [Pfx.net_length, hl]))
          · intro h; exact hne (h.eq_of_length (by simp [Pfx.net_length, hl])).symm
      · have hne : pa.net ≠ pb.net := Pfx.net_ne_of_len_ne hl
        by_cases h1 : pa.contains pb = true
        · have h1' := (Pfx.contains_iff pa pb).1 h1
          rw [dNext_firstL hl h1]
          apply dNext_single
          · exact ⟨hwa, hwb, by simp [dL], by simp, by simp [rootNet, pfx?, h1'], by simp [rootNet, pfx?, hne]⟩
          · rfl
          · simp [dMu, dL, dR]
        · by_cases h2 : pb.contains pa = true
          · have h2' := (Pfx.contains_iff pb pa).1 h2
            rw [dNext_firstR hl h1 h2]
            apply dNext_single
            · exact ⟨hwa, hwb, by simp [dL], by simp, by simp [rootNet, pfx?, h2'], by simp [rootNet, pfx?, hne],
                orLpm_idem _ _⟩
            · exact diffS_fold ann (fun x hx => h2'.trans (ua x hx))
            · simp [dMu, dL, dR]
          · rw [dNext_incomparable hl h1 h2]
            apply dNext_onlyL _ ann hwa (by simp)
            intro x hx
            refine coverK_incomparable ub (ua x hx) ?_ ?_
            · intro h; exact h1 ((Pfx.contains_iff pa pb).2 h)
            · intro h; exact h2 ((Pfx.contains_iff pb pa).2 h)

theorem dExtend_append (ann : Lpm w R) (xs ys : List (DIdx w L R)) :
    dExtend ann (xs ++ ys) = dExtend ann xs ++ dExtend ann ys := by simp [dExtend]

theorem dExtend_onlyL (ann : Lpm w R) (t : Tree w L) :
    dExtend ann [(.onlyL t : DIdx w L R)] = [(.onlyL t, ann)] := rfl

theorem dExtend_cons_onlyL (ann : Lpm w R) (t : Tree w L) (xs : List (DIdx w L R)) :
    dExtend ann ((.onlyL t : DIdx w L R) :: xs) = (.onlyL t, ann) :: dExtend ann xs := rfl

theorem dExtend_nil (ann : Lpm w R) : dExtend ann ([] : List (DIdx w L R)) = [] := rfl

theorem dSem_onlyL (t : Tree w L) (ann : Lpm w R) :
    dSem ((.onlyL t : DIdx w L R), ann) = diffS t.slotEntries ([] : KL w R) ann := rfl

theorem dOk_onlyL {t : Tree w L} (ann : Lpm w R) (h : HasWF t) (hn : t ≠ .nil) : dOk ((.onlyL t : DIdx w L R), ann) :=
  ⟨h, hasWF_nil, hn, trivial⟩

theorem dMu_onlyL (t : Tree w L) (ann : Lpm w R) : dMu ((.onlyL t : DIdx w L R), ann) = 2 * t.size := by
  simp [dMu, dL, dR, Tree.size]

/-- the own entry of a node of `a` against a `B` that neither stores nor covers its key -/
theorem diffS_own_free {sl : Nat} {pl : Pfx w} {vl : Option L} {ll lr : Tree w L} {B : KL w R} (ann : Lpm w R)
    (h : coverK B pl = []) :
    diffS (ownS sl pl vl) B ann = (dItemOf ann (Tree.node sl pl vl ll lr)).toList := by
  cases vl with
  | none => rfl
  | some x =>
    have h1 : lookupK B (keyOf (sl, pl, x)) = none := lookupK_of_cover_nil h
    simp [ownS, diffS, h1, lpmK_of_cover_nil h, orE, dItemOf]

/-- pushed `OnlyL` children, in pop order -/
theorem onlyChildren_spec (ann : Lpm w R) (ll lr : Tree w L) (hl : HasWF ll) (hr : HasWF lr) :
    (∀ c ∈ dExtend ann (onlyChildren (.onlyL : Tree w L → DIdx w L R) ll lr), dOk c) ∧
    (dExtend ann (onlyChildren (.onlyL : Tree w L → DIdx w L R) ll lr)).reverse.flatMap dSem =
      diffS ll.slotEntries ([] : KL w R) ann ++ diffS lr.slotEntries ([] : KL w R) ann ∧
    Machine.wt dMu (dExtend ann (onlyChildren (.onlyL : Tree w L → DIdx w L R) ll lr)) ≤ 2 * (ll.size + lr.size) + 2 := by
  unfold onlyChildren
  cases ll with
  | nil =>
    cases lr with
    | nil => simp [dExtend, slotEntries, diffS_nil_left, Machine.wt_nil]
    | node s p v a b =>
      refine ⟨?_, ?_, ?_⟩
      · simp only [List.append_nil, dExtend_onlyL, List.mem_singleton, forall_eq]
        exact dOk_onlyL ann hr (by simp)
      · simp [dExtend_onlyL, dSem_onlyL, slotEntries, diffS_nil_left]
      · simp [dExtend_onlyL, Machine.wt_cons, Machine.wt_nil, dMu_onlyL]; omega
  | node s p v a b =>
    cases lr with
    | nil =>
      refine ⟨?_, ?_, ?_⟩
      · simp only [List.nil_append, dExtend_onlyL, List.mem_singleton, forall_eq]
        exact dOk_onlyL ann hl (by simp)
      · simp [dExtend_onlyL, dSem_onlyL, slotEntries, diffS_nil_left]
      · simp [dExtend_onlyL, Machine.wt_cons, Machine.wt_nil, dMu_onlyL]; omega
    | node s' p' v' a' b' =>
      refine ⟨?_, ?_, ?_⟩
      · intro c hc
        simp only [List.singleton_append, dExtend_cons_onlyL, dExtend_nil, List.mem_cons, List.not_mem_nil, or_false] at hc
        rcases hc with rfl | rfl
        · exact dOk_onlyL ann hr (by simp)
        · exact dOk_onlyL ann hl (by simp)
      · simp [dExtend_cons_onlyL, dExtend_nil, dSem_onlyL]
      · simp [dExtend_cons_onlyL, dExtend_nil, Machine.wt_cons, Machine.wt_nil, dMu_onlyL]; omega

/-- the annotation seen below a node of `b` on side `c`, when the node's own value is already folded
into the inherited annotation -/
theorem lpm_side_fold {s : Nat} {pr : Pfx w} {v : Option R} {l r : Tree w R} (h : HasWF (.node s pr v l r))
    (c : Bool) {p : Pfx w} (hp : pr.net ++ [c] <+: p.net) {ann : Lpm w R}
    (hfold : orLpm (Tree.node s pr v l r) ann = ann) :
    orE (lpmK (Tree.node s pr v l r).slotEntries p) ann = orE (lpmK (child l r c).slotEntries p) ann := by
  rw [lpmK_side h c hp, orE_assoc, ← orLpm_eq, hfold]

/-- below a node of `b` on side `c` only that side's child matters -/
theorem diffS_side {A : KL w L} {s : Nat} {pr : Pfx w} {v : Option R} {l r : Tree w R}
    (h : HasWF (.node s pr v l r)) (c : Bool) (hA : Under (pr.net ++ [c]) A) {ann : Lpm w R}
    (hfold : orLpm (Tree.node s pr v l r) ann = ann) :
    diffS A (Tree.node s pr v l r).slotEntries ann = diffS A (child l r c).slotEntries ann := by
  apply diffS_congr
  · intro a ha hl
    exact ⟨by rw [← lookupK_side h c (hA a ha)]; exact hl, lpm_side_fold h c (hA a ha) hfold⟩
  · intro a ha; rw [lookupK_side h c (hA a ha)]

theorem dStep_ok (e : DEntry w L R) (h : dOk e) :
    (∀ c ∈ (dStep e).2, dOk c) ∧
    dSem e = (dStep e).1.toList ++ (dStep e).2.reverse.flatMap dSem ∧
    Machine.wt dMu (dStep e).2 ≤ dMu e := by
  obtain ⟨idx, ann⟩ := e
  obtain ⟨hwl, hwr, hnl, hrel⟩ := h
  cases idx with
  | both l r =>
    simp only [dL, dR] at hwl hwr hnl
    obtain ⟨hnr, hnet, hfold⟩ := hrel
    cases l with
    | nil => exact absurd rfl hnl
    | node sl pl vl ll lr =>
      cases r with
      | nil => exact absurd rfl hnr
      | node sr pr vr rl rr =>
        have hnetk : pl.net = pr.net := hnet
        clear hnet
        simp only at hfold
        obtain ⟨hwll, hwlr⟩ := hwl.child
        obtain ⟨hwrl, hwrr⟩ := hwr.child
        obtain ⟨a1, a2, a3, a4⟩ := dNext_spec lr rr ann hwlr hwrr
        obtain ⟨b1, b2, b3, b4⟩ := dNext_spec ll rl ann hwll hwrl
        have hmu : dMu (DIdx.both (Tree.node sl pl vl ll lr) (Tree.node sr pr vr rl rr), ann) =
            2 * ((Tree.node sl pl vl ll lr).size + (Tree.node sr pr vr rl rr).size) := rfl
        have hsl := size_node_eq sl pl vl ll lr
        have hsr := size_node_eq sr pr vr rl rr
        obtain ⟨ul, ull, ulr⟩ := under_root hwl
        obtain ⟨ur, url, urr⟩ := under_root hwr
        have hs : dStep (.both (.node sl pl vl ll lr) (.node sr pr vr rl rr), ann) =
            ((if vr.isNone then dItemOf ann (.node sl pl vl ll lr) else none),
              dExtend ann (dNext lr rr) ++ dExtend ann (dNext ll rl)) := rfl
        rw [hs]
        refine ⟨fun c hc => ?_, ?_, ?_⟩
        · rcases List.mem_append.1 hc with hc | hc
          · exact a1 c hc
          · exact b1 c hc
        · simp only [List.reverse_append, a3, b3, List.flatMap_append, a2, b2]
          show diffS (Tree.node sl pl vl ll lr).slotEntries (Tree.node sr pr vr rl rr).slotEntries ann = _
          rw [slotEntries_node sl, diffS_append, diffS_append]
          rw [diffS_side (A := ll.slotEntries) hwr false (by rw [← hnetk]; exact ull) hfold,
            diffS_side (A := lr.slotEntries) hwr true (by rw [← hnetk]; exact ulr) hfold, List.append_assoc]
          simp only [child_false, child_true]
          congr 1
          have hpre : pl.net <+: pr.net := hnetk ▸ List.prefix_refl _
          cases vr with
          | some y =>
            cases vl with
            | none => rfl
            | some x =>
              have hk : keyOf (sl, pl, x) = pr.net := hnetk
              have : lookupK (Tree.node sr pr (some y) rl rr).slotEntries (keyOf (sl, pl, x)) = some (sr, pr, y) := by
                rw [hk]; simp [slotEntries, lookupK, keyOf]
              simp [ownS, diffS, this]
          | none =>
            have hc : coverK (Tree.node sr pr none rl rr).slotEntries pl = [] := by
              rw [slotEntries_node, coverK_append, coverK_append, coverK_below url hpre, coverK_below urr hpre]
              rfl
            have := diffS_own_free (ll := ll) (lr := lr) (vl := vl) (sl := sl) ann hc
            rw [this]; rfl
        · rw [Machine.wt_append, hmu]
          omega
  | firstL l r =>
    simp only [dL, dR] at hwl hwr hnl
    obtain ⟨hnr, hpre, hne⟩ := hrel
    cases l with
    | nil => exact absurd rfl hnl
    | node sl pl vl ll lr =>
      cases r with
      | nil => exact absurd rfl hnr
      | node sr pr vr rl rr =>
        have hpre : pl.net <+: pr.net := hpre
        have hne : pl.net ≠ pr.net := hne
        have hside := Pfx.side_prefix hpre hne
        obtain ⟨hwll, hwlr⟩ := hwl.child
        obtain ⟨ul, ull, ulr⟩ := under_root hwl
        obtain ⟨ur, _, _⟩ := under_root hwr
        have urs : Under (pl.net ++ [Pfx.toRight pl pr]) (Tree.node sr pr vr rl rr).slotEntries := ur.mono hside
        have hs : dStep (.firstL (.node sl pl vl ll lr) (.node sr pr vr rl rr), ann) =
            (dItemOf ann (.node sl pl vl ll lr), dExtend ann (dFirstA pl ll lr (.node sr pr vr rl rr))) := rfl
        rw [hs]
        have hown := diffS_own_free (ll := ll) (lr := lr) (vl := vl) (sl := sl) ann
          (coverK_below urs (List.prefix_refl _))
        have hsem : dSem (.firstL (.node sl pl vl ll lr) (.node sr pr vr rl rr), ann) =
            (dItemOf ann (Tree.node sl pl vl ll lr)).toList ++
            (diffS ll.slotEntries (Tree.node sr pr vr rl rr).slotEntries ann ++
             diffS lr.slotEntries (Tree.node sr pr vr rl rr).slotEntries ann) := by
          show diffS (Tree.node sl pl vl ll lr).slotEntries (Tree.node sr pr vr rl rr).slotEntries ann = _
          rw [slotEntries_node sl, diffS_append, diffS_append, hown, List.append_assoc]
        rw [hsem]
        have hsz := size_node_eq sl pl vl ll lr
        unfold dFirstA
        cases ll with
        | nil =>
          cases lr with
          | nil => simp [dExtend_nil, slotEntries, diffS_nil_left, Machine.wt_nil]
          | node s2 p2 v2 a2 b2 =>
            obtain ⟨c1, c2, c3, c4⟩ := dNext_spec (.node s2 p2 v2 a2 b2) (.node sr pr vr rl rr) ann hwlr hwr
            refine ⟨c1, by simp [c3, c2, slotEntries, diffS_nil_left], ?_⟩
            simp only [dMu, dL, dR]; omega
        | node s1 p1 v1 a1 b1 =>
          cases lr with
          | nil =>
            obtain ⟨c1, c2, c3, c4⟩ := dNext_spec (.node s1 p1 v1 a1 b1) (.node sr pr vr rl rr) ann hwll hwr
            refine ⟨c1, by simp [c3, c2, slotEntries, diffS_nil_left], ?_⟩
            simp only [dMu, dL, dR]; omega
          | node s2 p2 v2 a2 b2 =>
            have htr : toRightOf pl (Tree.node sr pr vr rl rr) = Pfx.toRight pl pr := rfl
            simp only [htr]
            cases hc : Pfx.toRight pl pr
            · rw [hc] at urs
              obtain ⟨c1, c2, c3, c4⟩ := dNext_spec (.node s1 p1 v1 a1 b1) (.node sr pr vr rl rr) ann hwll hwr
              have hz : diffS (Tree.node s2 p2 v2 a2 b2).slotEntries (Tree.node sr pr vr rl rr).slotEntries ann =
                  diffS (Tree.node s2 p2 v2 a2 b2).slotEntries ([] : KL w R) ann :=
                diffS_drop (fun x hx => coverK_other_side (k := pl.net) (c := true) urs (ulr x hx))
              refine ⟨?_, ?_, ?_⟩
              · intro c hc'
                simp only [Bool.false_eq_true, ite_false] at hc'
                have : c = (.onlyL (.node s2 p2 v2 a2 b2), ann) ∨ c ∈ dExtend ann (dNext (.node s1 p1 v1 a1 b1) (.node sr pr vr rl rr)) := by
                  simpa [dExtend] using hc'
                rcases this with rfl | h'
                · exact dOk_onlyL ann hwlr (by simp)
                · exact c1 c h'
              · simp only [Bool.false_eq_true, ite_false]
                have : dExtend ann ((.onlyL (.node s2 p2 v2 a2 b2) : DIdx w L R) :: dNext (.node s1 p1 v1 a1 b1) (.node sr pr vr rl rr)) =
                    (.onlyL (.node s2 p2 v2 a2 b2), ann) :: dExtend ann (dNext (.node s1 p1 v1 a1 b1) (.node sr pr vr rl rr)) := rfl
                rw [this, List.reverse_cons, c3, List.flatMap_append, c2, hz]
                simp [dSem_onlyL]
              · simp only [Bool.false_eq_true, ite_false]
                have : dExtend ann ((.onlyL (.node s2 p2 v2 a2 b2) : DIdx w L R) :: dNext (.node s1 p1 v1 a1 b1) (.node sr pr vr rl rr)) =
                    (.onlyL (.node s2 p2 v2 a2 b2), ann) :: dExtend ann (dNext (.node s1 p1 v1 a1 b1) (.node sr pr vr rl rr)) := rfl
                rw [this, Machine.wt_cons, dMu_onlyL]
                simp only [dMu, dL, dR]; omega
            · rw [hc] at urs
              obtain ⟨c1, c2, c3, c4⟩ := dNext_spec (.node s2 p2 v2 a2 b2) (.node sr pr vr rl rr) ann hwlr hwr
              have hz : diffS (Tree.node s1 p1 v1 a1 b1).slotEntries (Tree.node sr pr vr rl rr).slotEntries ann =
                  diffS (Tree.node s1 p1 v1 a1 b1).slotEntries ([] : KL w R) ann :=
                diffS_drop (fun x hx => coverK_other_side (k := pl.net) (c := false) urs (ull x hx))
              refine ⟨?_, ?_, ?_⟩
              · intro c hc'
                simp only [ite_true, dExtend_append, dExtend_onlyL, List.mem_append, List.mem_singleton] at hc'
                rcases hc' with h' | rfl
                · exact c1 c h'
                · exact dOk_onlyL ann hwll (by simp)
              · simp only [ite_true, dExtend_append, dExtend_onlyL, List.reverse_append, c3, List.flatMap_append, c2, hz]
                simp [dSem_onlyL]
              · simp only [ite_true, dExtend_append, dExtend_onlyL, Machine.wt_append, Machine.wt_cons, Machine.wt_nil, dMu_onlyL]
                simp only [dMu, dL, dR]; omega
  | firstR l r =>
    simp only [dL, dR] at hwl hwr hnl
    obtain ⟨hnr, hpre, hne, hfold⟩ := hrel
    cases l with
    | nil => exact absurd rfl hnl
    | node sl pl vl ll lr =>
      cases r with
      | nil => exact absurd rfl hnr
      | node sr pr vr rl rr =>
        have hpre : pr.net <+: pl.net := hpre
        have hne : pl.net ≠ pr.net := hne
        simp only at hfold
        have hside := Pfx.side_prefix hpre (fun e => hne e.symm)
        obtain ⟨hwrl, hwrr⟩ := hwr.child
        obtain ⟨ul, _, _⟩ := under_root hwl
        obtain ⟨ur, url, urr⟩ := under_root hwr
        have uls : Under (pr.net ++ [Pfx.toRight pr pl]) (Tree.node sl pl vl ll lr).slotEntries := ul.mono hside
        have hs : dStep (.firstR (.node sl pl vl ll lr) (.node sr pr vr rl rr), ann) =
            (none, dExtend ann (dFirstB (.node sl pl vl ll lr) pr rl rr)) := rfl
        rw [hs]
        have hsem : dSem (.firstR (.node sl pl vl ll lr) (.node sr pr vr rl rr), ann) =
            diffS (Tree.node sl pl vl ll lr).slotEntries (child rl rr (Pfx.toRight pr pl)).slotEntries ann :=
          diffS_side hwr _ uls hfold
        rw [hsem]
        have hsz := size_node_eq sr pr vr rl rr
        unfold dFirstB
        cases rl with
        | nil =>
          cases rr with
          | nil =>
            refine ⟨?_, ?_, ?_⟩
            · simp only [dExtend_onlyL, List.mem_singleton, forall_eq]; exact dOk_onlyL ann hwl (by simp)
            · cases Pfx.toRight pr pl <;> simp [dExtend_onlyL, dSem_onlyL, slotEntries]
            · simp [dExtend_onlyL, Machine.wt_cons, Machine.wt_nil, dMu, dL, dR, Tree.size]; omega
          | node s2 p2 v2 a2 b2 =>
            obtain ⟨c1, c2, c3, c4⟩ := dNext_spec (.node sl pl vl ll lr) (.node s2 p2 v2 a2 b2) ann hwl hwrr
            refine ⟨c1, ?_, ?_⟩
            · simp only [Option.toList, List.nil_append, c3, c2]
              cases hc : Pfx.toRight pr pl
              · rw [hc] at uls
                simp only [child_false, slotEntries]
                exact (diffS_drop (fun x hx => coverK_other_side (k := pr.net) (c := false) urr (uls x hx))).symm
              · rfl
            · simp only [dMu, dL, dR]; omega
        | node s1 p1 v1 a1 b1 =>
          cases rr with
          | nil =>
            obtain ⟨c1, c2, c3, c4⟩ := dNext_spec (.node sl pl vl ll lr) (.node s1 p1 v1 a1 b1) ann hwl hwrl
            refine ⟨c1, ?_, ?_⟩
            · simp only [Option.toList, List.nil_append, c3, c2]
              cases hc : Pfx.toRight pr pl
              · rfl
              · rw [hc] at uls
                simp only [child_true, slotEntries]
                exact (diffS_drop (fun x hx => coverK_other_side (k := pr.net) (c := true) url (uls x hx))).symm
            · simp only [dMu, dL, dR]; omega
          | node s2 p2 v2 a2 b2 =>
            have htr : toRightOf pr (Tree.node sl pl vl ll lr) = Pfx.toRight pr pl := rfl
            simp only [htr]
            cases hc : Pfx.toRight pr pl
            · obtain ⟨c1, c2, c3, c4⟩ := dNext_spec (.node sl pl vl ll lr) (.node s1 p1 v1 a1 b1) ann hwl hwrl
              refine ⟨by simpa using c1, by simp [c3, c2], ?_⟩
              simp only [Bool.false_eq_true, ite_false, dMu, dL, dR]; omega
            · obtain ⟨c1, c2, c3, c4⟩ := dNext_spec (.node sl pl vl ll lr) (.node s2 p2 v2 a2 b2) ann hwl hwrr
              refine ⟨by simpa using c1, by simp [c3, c2], ?_⟩
              simp only [ite_true, dMu, dL, dR]; omega
  | onlyL l =>
    simp only [dL, dR] at hwl hwr hnl
    cases l with
    | nil => exact absurd rfl hnl
    | node sl pl vl ll lr =>
      obtain ⟨hwll, hwlr⟩ := hwl.child
      obtain ⟨o1, o2, o3⟩ := onlyChildren_spec ann ll lr hwll hwlr
      have hs : dStep (.onlyL (.node sl pl vl ll lr), ann) =
          (dItemOf ann (.node sl pl vl ll lr), dExtend ann (onlyChildren .onlyL ll lr)) := rfl
      rw [hs]
      refine ⟨o1, ?_, ?_⟩
      · rw [o2]
        show diffS (Tree.node sl pl vl ll lr).slotEntries (Tree.nil : Tree w R).slotEntries ann = _
        rw [slotEntries_node sl, diffS_append, diffS_append, List.append_assoc]
        congr 1
        exact diffS_own_free (ll := ll) (lr := lr) ann rfl
      · have hsz := size_node_eq sl pl vl ll lr
        simp only [dMu, dL, dR, Tree.size] at o3 ⊢; omega

/-- `a.difference(b)` (and `difference_mut`): exactly the entries of `a` whose key is not stored in
`b`, each once, in the order of `a`'s entry list, with `a`'s stored prefix and value, and annotated
with the longest prefix stored in `b` that covers the item (`None` when `b` stores none) -/
theorem difference_eq (a : Tree w L) (b : Tree w R) (hwa : HasWF a) (hwb : HasWF b) :
    difference a b = diffS a.slotEntries b.slotEntries none := by
  unfold difference
  obtain ⟨c1, c2, c3, c4⟩ := dNext_spec a b none hwa hwb
  rw [c3, Machine.run_eq dStep dMu dSem dOk dStep_ok (fuelFor a b) _ c1 (by unfold fuelFor; omega), c2]

/-! ### the covering-difference machine -/

def cSem (e : DIdx w L R) : List (DItem w L R) := covDiffS (dL e).slotEntries (dR e).slotEntries

def cMu (e : DIdx w L R) : Nat := 2 * ((dL e).size + (dR e).size)

def cOk (e : DIdx w L R) : Prop :=
  HasWF (dL e) ∧ HasWF (dR e) ∧ dL e ≠ .nil ∧
  match e with
  | .both l r => r ≠ .nil ∧ rootNet l = rootNet r
  | .firstL l r => r ≠ .nil ∧ rootNet l <+: rootNet r ∧ rootNet l ≠ rootNet r
  | .firstR l r => r ≠ .nil ∧ rootNet r <+: rootNet l ∧ rootNet l ≠ rootNet r
  | .onlyL _ => True

theorem covDiffS_drop {A : KL w L} {B : KL w R} (h : ∀ a ∈ A, coverK B a.2.1 = []) :
    covDiffS A B = covDiffS A ([] : KL w R) :=
  covDiffS_congr (fun a ha => by rw [h a ha]; rfl)

theorem covDiffS_covered {A : KL w L} {B : KL w R} (h : ∀ a ∈ A, coverK B a.2.1 ≠ []) : covDiffS A B = [] := by
  unfold covDiffS
  rw [List.filterMap_eq_nil_iff]
  intro a ha
  have := h a ha
  cases hc : coverK B a.2.1 with
  | nil => exact absurd hc this
  | cons x xs => simp

theorem covDiffS_own_free {sl : Nat} {pl : Pfx w} {vl : Option L} {ll lr : Tree w L} {B : KL w R}
    (h : coverK B pl = []) :
    covDiffS (ownS sl pl vl) B = (dItemOf none (Tree.node sl pl vl ll lr)).toList := by
  cases vl with
  | none => rfl
  | some x => simp [ownS, covDiffS, h, dItemOf]

/-- below a value-less node of `b` on side `c` only that side's child can cover -/
theorem covDiffS_side {A : KL w L} {s : Nat} {pr : Pfx w} {l r : Tree w R}
    (h : HasWF (.node s pr none l r)) (c : Bool) (hA : Under (pr.net ++ [c]) A) :
    covDiffS A (Tree.node s pr none l r).slotEntries = covDiffS A (child l r c).slotEntries :=
  covDiffS_congr (fun a ha => by rw [coverK_side h c (hA a ha)]; rfl)

/-- a valued root of `b` covers every key under it -/
theorem covered_by_root {A : KL w L} {s : Nat} {pr : Pfx w} {y : R} {l r : Tree w R}
    (hA : ∀ a ∈ A, pr.net <+: keyOf a) : ∀ a ∈ A, coverK (Tree.node s pr (some y) l r).slotEntries a.2.1 ≠ [] := by
  intro a ha hc
  have : (s, pr, y) ∈ coverK (Tree.node s pr (some y) l r).slotEntries a.2.1 :=
    List.mem_filter.2 ⟨by simp [slotEntries], (Pfx.contains_iff pr a.2.1).2 (hA a ha)⟩
  rw [hc] at this; simp at this

theorem cOk_onlyL {t : Tree w L} (h : HasWF t) (hn : t ≠ .nil) : cOk ((.onlyL t : DIdx w L R)) :=
  ⟨h, hasWF_nil, hn, trivial⟩

theorem cSem_onlyL (t : Tree w L) : cSem ((.onlyL t : DIdx w L R)) = covDiffS t.slotEntries ([] : KL w R) := rfl

theorem cMu_onlyL (t : Tree w L) : cMu ((.onlyL t : DIdx w L R)) = 2 * t.size := by
  simp [cMu, dL, dR, Tree.size]

theorem cNext_single {a : Tree w L} {b : Tree w R} (c : DIdx w L R) (hok : cOk c)
    (hsem : cSem c = covDiffS a.slotEntries b.slotEntries) (hmu : cMu c ≤ 2 * (a.size + b.size)) :
    (∀ x ∈ [c], cOk x) ∧ [c].flatMap cSem = covDiffS a.slotEntries b.slotEntries ∧ [c].reverse = [c] ∧
    Machine.wt cMu [c] ≤ 2 * (a.size + b.size) + 1 := by
  refine ⟨by simpa using hok, by simp [hsem], rfl, ?_⟩
  simp [Machine.wt_cons, Machine.wt_nil]; omega

theorem cNext_onlyL {a : Tree w L} (b : Tree w R) (hwa : HasWF a) (hna : a ≠ .nil)
    (h : ∀ x ∈ a.slotEntries, coverK b.slotEntries x.2.1 = []) :
    (∀ x ∈ [(.onlyL a : DIdx w L R)], cOk x) ∧
    [(.onlyL a : DIdx w L R)].flatMap cSem = covDiffS a.slotEntries b.slotEntries ∧
    [(.onlyL a : DIdx w L R)].reverse = [(.onlyL a : DIdx w L R)] ∧
    Machine.wt cMu [(.onlyL a : DIdx w L R)] ≤ 2 * (a.size + b.size) + 1 := by
  apply cNext_single
  · exact cOk_onlyL hwa hna
  · rw [cSem_onlyL, covDiffS_drop h]
  · rw [cMu_onlyL]; omega

theorem cNext_spec (a : Tree w L) (b : Tree w R) (hwa : HasWF a) (hwb : HasWF b) :
    (∀ c ∈ dNext a b, cOk c) ∧
    (dNext a b).flatMap cSem = covDiffS a.slotEntries b.slotEntries ∧
    (dNext a b).reverse = dNext a b ∧
    Machine.wt cMu (dNext a b) ≤ 2 * (a.size + b.size) + 1 := by
  cases a with
  | nil =>
    have : dNext (.nil : Tree w L) b = [] := by cases b <;> rfl
    rw [this]
    exact ⟨by simp, by simp [slotEntries, covDiffS_nil_left], rfl, by simp [Machine.wt_nil]⟩
  | node sa pa va la ra =>
    obtain ⟨ua, _, _⟩ := under_root hwa
    cases b with
    | nil =>
      have : dNext (Tree.node sa pa va la ra) (.nil : Tree w R) = [.onlyL (.node sa pa va la ra)] := rfl
      rw [this]
      exact cNext_onlyL .nil hwa (by simp) (fun x _ => by simp [slotEntries, coverK])
    | node sb pb vb lb rb =>
      obtain ⟨ub, _, _⟩ := under_root hwb
      by_cases hl : pa.len = pb.len
      · by_cases hm : Pfx.maskEq pa pb = true
        · have hnet := (maskEq_iff_net hl).1 hm
          rw [dNext_both hl hm]
          exact cNext_single _ ⟨hwa, hwb, by simp [dL], by simp, by simp [rootNet, pfx?, hnet]⟩ rfl
            (by simp [cMu, dL, dR])
        · rw [dNext_len_eq_only hl hm]
          have hne : pa.net ≠ pb.net := fun e => hm ((maskEq_iff_net hl).2 e)
          apply cNext_onlyL _ hwa (by simp)
          intro x hx
          refine coverK_incomparable ub (ua x hx) ?_ ?_
          · intro h; exact hne (h.eq_of_length (by simp [Pfx.net_length, hl]))
          · intro h; exact hne (h.eq_of_length (by simp [Pfx.net_length, hl])).symm
      · have hne : pa.net ≠ pb.net := Pfx.net_ne_of_len_ne hl
        by_cases h1 : pa.contains pb = true
        · have h1' := (Pfx.contains_iff pa pb).1 h1
          rw [dNext_firstL hl h1]
          exact cNext_single _ ⟨hwa, hwb, by simp [dL], by simp, by simp [rootNet, pfx?, h1'], by simp [rootNet, pfx?, hne]⟩
            rfl (by simp [cMu, dL, dR])
        · by_cases h2 : pb.contains pa = true
          · have h2' := (Pfx.contains_iff pb pa).1 h2
            rw [dNext_firstR hl h1 h2]
            exact cNext_single _ ⟨hwa, hwb, by simp [dL], by simp, by simp [rootNet, pfx?, h2'], by simp [rootNet, pfx?, hne]⟩
              rfl (by simp [cMu, dL, dR])
          · rw [dNext_incomparable hl h1 h2]
            apply cNext_onlyL _ hwa (by simp)
            intro x hx
            refine coverK_incomparable ub (ua x hx) ?_ ?_
            · intro h; exact h1 ((Pfx.contains_iff pa pb).2 h)
            · intro h; exact h2 ((Pfx.contains_iff pb pa).2 h)

theorem cOnlyChildren_spec (ll lr : Tree w L) (hl : HasWF ll) (hr : HasWF lr) :
    (∀ c ∈ onlyChildren (.onlyL : Tree w L → DIdx w L R) ll lr, cOk c) ∧
    (onlyChildren (.onlyL : Tree w L → DIdx w L R) ll lr).reverse.flatMap cSem =
      covDiffS ll.slotEntries ([] : KL w R) ++ covDiffS lr.slotEntries ([] : KL w R) ∧
    Machine.wt cMu (onlyChildren (.onlyL : Tree w L → DIdx w L R) ll lr) ≤ 2 * (ll.size + lr.size) + 2 := by
  unfold onlyChildren
  cases ll with
  | nil =>
    cases lr with
    | nil => simp [slotEntries, covDiffS_nil_left, Machine.wt_nil]
    | node s p v a b =>
      refine ⟨?_, ?_, ?_⟩
      · simp only [List.append_nil, List.mem_singleton, forall_eq]; exact cOk_onlyL hr (by simp)
      · simp [cSem_onlyL, slotEntries, covDiffS_nil_left]
      · simp [Machine.wt_cons, Machine.wt_nil, cMu_onlyL]; omega
  | node s p v a b =>
    cases lr with
    | nil =>
      refine ⟨?_, ?_, ?_⟩
      · simp only [List.nil_append, List.mem_singleton, forall_eq]; exact cOk_onlyL hl (by simp)
      · simp [cSem_onlyL, slotEntries, covDiffS_nil_left]
      · simp [Machine.wt_cons, Machine.wt_nil, cMu_onlyL]; omega
    | node s' p' v' a' b' =>
      refine ⟨?_, ?_, ?_⟩
      · intro c hc
        simp only [List.singleton_append, List.mem_cons, List.not_mem_nil, or_false] at hc
        rcases hc with rfl | rfl
        · exact cOk_onlyL hr (by simp)
        · exact cOk_onlyL hl (by simp)
      · simp [cSem_onlyL]
      · simp [Machine.wt_cons, Machine.wt_nil, cMu_onlyL]; omega

theorem cStep_ok (e : DIdx w L R) (h : cOk e) :
    (∀ c ∈ (cStep e).2, cOk c) ∧
    cSem e = (cStep e).1.toList ++ (cStep e).2.reverse.flatMap cSem ∧
    Machine.wt cMu (cStep e).2 ≤ cMu e := by
  obtain ⟨hwl, hwr, hnl, hrel⟩ := h
  cases e with
  | both l r =>
    simp only [dL, dR] at hwl hwr hnl
    obtain ⟨hnr, hnet⟩ := hrel
    cases l with
    | nil => exact absurd rfl hnl
    | node sl pl vl ll lr =>
      cases r with
      | nil => exact absurd rfl hnr
      | node sr pr vr rl rr =>
        have hnetk : pl.net = pr.net := hnet
        clear hnet
        obtain ⟨ul, ull, ulr⟩ := under_root hwl
        obtain ⟨ur, url, urr⟩ := under_root hwr
        cases vr with
        | some y =>
          have hs : cStep (.both (.node sl pl vl ll lr) (.node sr pr (some y) rl rr)) = (none, []) := rfl
          rw [hs]
          refine ⟨by simp, ?_, by simp [Machine.wt_nil]⟩
          simp only [Option.toList, List.reverse_nil, List.flatMap_nil, List.append_nil]
          exact covDiffS_covered (covered_by_root (fun a ha => hnetk ▸ ul a ha))
        | none =>
          obtain ⟨hwll, hwlr⟩ := hwl.child
          obtain ⟨hwrl, hwrr⟩ := hwr.child
          obtain ⟨a1, a2, a3, a4⟩ := cNext_spec lr rr hwlr hwrr
          obtain ⟨b1, b2, b3, b4⟩ := cNext_spec ll rl hwll hwrl
          have hs : cStep (.both (.node sl pl vl ll lr) (.node sr pr none rl rr)) =
              (dItemOf none (.node sl pl vl ll lr), dNext lr rr ++ dNext ll rl) := rfl
          have hmu : cMu (DIdx.both (Tree.node sl pl vl ll lr) (Tree.node sr pr none rl rr)) =
              2 * ((Tree.node sl pl vl ll lr).size + (Tree.node sr pr none rl rr).size) := rfl
          have hsl := size_node_eq sl pl vl ll lr
          have hsr := size_node_eq sr pr (none : Option R) rl rr
          rw [hs]
          refine ⟨fun c hc => ?_, ?_, ?_⟩
          · rcases List.mem_append.1 hc with hc | hc
            · exact a1 c hc
            · exact b1 c hc
          · simp only [List.reverse_append, a3, b3, List.flatMap_append, a2, b2]
            show covDiffS (Tree.node sl pl vl ll lr).slotEntries (Tree.node sr pr none rl rr).slotEntries = _
            rw [slotEntries_node sl, covDiffS_append, covDiffS_append]
            rw [covDiffS_side (A := ll.slotEntries) hwr false (by rw [← hnetk]; exact ull),
              covDiffS_side (A := lr.slotEntries) hwr true (by rw [← hnetk]; exact ulr), List.append_assoc]
            simp only [child_false, child_true]
            congr 1
            have hpre : pl.net <+: pr.net := hnetk ▸ List.prefix_refl _
            have hc : coverK (Tree.node sr pr none rl rr).slotEntries pl = [] := by
              rw [slotEntries_node, coverK_append, coverK_append, coverK_below url hpre, coverK_below urr hpre]
              rfl
            exact covDiffS_own_free hc
          · rw [Machine.wt_append, hmu]; omega
  | firstL l r =>
    simp only [dL, dR] at hwl hwr hnl
    obtain ⟨hnr, hpre, hne⟩ := hrel
    cases l with
    | nil => exact absurd rfl hnl
    | node sl pl vl ll lr =>
      cases r with
      | nil => exact absurd rfl hnr
      | node sr pr vr rl rr =>
        have hpre : pl.net <+: pr.net := hpre
        have hne : pl.net ≠ pr.net := hne
        have hside := Pfx.side_prefix hpre hne
        obtain ⟨hwll, hwlr⟩ := hwl.child
        obtain ⟨ul, ull, ulr⟩ := under_root hwl
        obtain ⟨ur, _, _⟩ := under_root hwr
        have urs : Under (pl.net ++ [Pfx.toRight pl pr]) (Tree.node sr pr vr rl rr).slotEntries := ur.mono hside
        have hs : cStep (.firstL (.node sl pl vl ll lr) (.node sr pr vr rl rr)) =
            (dItemOf none (.node sl pl vl ll lr), dFirstA pl ll lr (.node sr pr vr rl rr)) := rfl
        rw [hs]
        have hown := covDiffS_own_free (ll := ll) (lr := lr) (vl := vl) (sl := sl)
          (coverK_below urs (List.prefix_refl _))
        have hsem : cSem (.firstL (.node sl pl vl ll lr) (.node sr pr vr rl rr)) =
            (dItemOf none (Tree.node sl pl vl ll lr)).toList ++
            (covDiffS ll.slotEntries (Tree.node sr pr vr rl rr).slotEntries ++
             covDiffS lr.slotEntries (Tree.node sr pr vr rl rr).slotEntries) := by
          show covDiffS (Tree.node sl pl vl ll lr).slotEntries (Tree.node sr pr vr rl rr).slotEntries = _
          rw [slotEntries_node sl, covDiffS_append, covDiffS_append, hown, List.append_assoc]
        rw [hsem]
        have hsz := size_node_eq sl pl vl ll lr
        unfold dFirstA
        cases ll with
        | nil =>
          cases lr with
          | nil => simp [slotEntries, covDiffS_nil_left, Machine.wt_nil]
          | node s2 p2 v2 a2 b2 =>
            obtain ⟨c1, c2, c3, c4⟩ := cNext_spec (.node s2 p2 v2 a2 b2) (.node sr pr vr rl rr) hwlr hwr
            refine ⟨c1, by simp [c3, c2, slotEntries, covDiffS_nil_left], ?_⟩
            simp only [cMu, dL, dR]; omega
        | node s1 p1 v1 a1 b1 =>
          cases lr with
          | nil =>
            obtain ⟨c1, c2, c3, c4⟩ := cNext_spec (.node s1 p1 v1 a1 b1) (.node sr pr vr rl rr) hwll hwr
            refine ⟨c1, by simp [c3, c2, slotEntries, covDiffS_nil_left], ?_⟩
            simp only [cMu, dL, dR]; omega
          | node s2 p2 v2 a2 b2 =>
            have htr : toRightOf pl (Tree.node sr pr vr rl rr) = Pfx.toRight pl pr := rfl
            simp only [htr]
            cases hc : Pfx.toRight pl pr
            · rw [hc] at urs
              obtain ⟨c1, c2, c3, c4⟩ := cNext_spec (.node s1 p1 v1 a1 b1) (.node sr pr vr rl rr) hwll hwr
              have hz : covDiffS (Tree.node s2 p2 v2 a2 b2).slotEntries (Tree.node sr pr vr rl rr).slotEntries =
                  covDiffS (Tree.node s2 p2 v2 a2 b2).slotEntries ([] : KL w R) :=
                covDiffS_drop (fun x hx => coverK_other_side (k := pl.net) (c := true) urs (ulr x hx))
              refine ⟨?_, ?_, ?_⟩
              · intro c hc'
                simp only [Bool.false_eq_true, ite_false, List.mem_cons] at hc'
                rcases hc' with rfl | h'
                · exact cOk_onlyL hwlr (by simp)
                · exact c1 c h'
              · simp only [Bool.false_eq_true, ite_false, List.reverse_cons, c3, List.flatMap_append, c2, hz]
                simp [cSem_onlyL]
              · simp only [Bool.false_eq_true, ite_false, Machine.wt_cons, cMu_onlyL]
                simp only [cMu, dL, dR]; omega
            · rw [hc] at urs
              obtain ⟨c1, c2, c3, c4⟩ := cNext_spec (.node s2 p2 v2 a2 b2) (.node sr pr vr rl rr) hwlr hwr
              have hz : covDiffS (Tree.node s1 p1 v1 a1 b1).slotEntries (Tree.node sr pr vr rl rr).slotEntries =
                  covDiffS (Tree.node s1 p1 v1 a1 b1).slotEntries ([] : KL w R) :=
                covDiffS_drop (fun x hx => coverK_other_side (k := pl.net) (c := false) urs (ull x hx))
              refine ⟨?_, ?_, ?_⟩
              · intro c hc'
                simp only [ite_true, List.mem_append, List.mem_singleton] at hc'
                rcases hc' with h' | rfl
                · exact c1 c h'
                · exact cOk_onlyL hwll (by simp)
              · simp only [ite_true, List.reverse_append, c3, List.flatMap_append, c2, hz]
                simp [cSem_onlyL]
              · simp only [ite_true, Machine.wt_append, Machine.wt_cons, Machine.wt_nil, cMu_onlyL]
                simp only [cMu, dL, dR]; omega
  | firstR l r =>
    simp only [dL, dR] at hwl hwr hnl
    obtain ⟨hnr, hpre, hne⟩ := hrel
    cases l with
    | nil => exact absurd rfl hnl
    | node sl pl vl ll lr =>
      cases r with
      | nil => exact absurd rfl hnr
      | node sr pr vr rl rr =>
        have hpre : pr.net <+: pl.net := hpre
        have hne : pl.net ≠ pr.net := hne
        have hside := Pfx.side_prefix hpre (fun e => hne e.symm)
        obtain ⟨hwrl, hwrr⟩ := hwr.child
        obtain ⟨ul, _, _⟩ := under_root hwl
        obtain ⟨ur, url, urr⟩ := under_root hwr
        have uls : Under (pr.net ++ [Pfx.toRight pr pl]) (Tree.node sl pl vl ll lr).slotEntries := ul.mono hside
        cases vr with
        | some y =>
          have hs : cStep (.firstR (.node sl pl vl ll lr) (.node sr pr (some y) rl rr)) = (none, []) := rfl
          rw [hs]
          refine ⟨by simp, ?_, by simp [Machine.wt_nil]⟩
          simp only [Option.toList, List.reverse_nil, List.flatMap_nil, List.append_nil]
          exact covDiffS_covered (covered_by_root (fun a ha => hpre.trans (ul a ha)))
        | none =>
          have hs : cStep (.firstR (.node sl pl vl ll lr) (.node sr pr none rl rr)) =
              (none, dFirstB (.node sl pl vl ll lr) pr rl rr) := rfl
          rw [hs]
          have hsem : cSem (.firstR (.node sl pl vl ll lr) (.node sr pr none rl rr)) =
              covDiffS (Tree.node sl pl vl ll lr).slotEntries (child rl rr (Pfx.toRight pr pl)).slotEntries :=
            covDiffS_side hwr _ uls
          rw [hsem]
          have hsz := size_node_eq sr pr (none : Option R) rl rr
          unfold dFirstB
          cases rl with
          | nil =>
            cases rr with
            | nil =>
              refine ⟨?_, ?_, ?_⟩
              · simp only [List.mem_singleton, forall_eq]; exact cOk_onlyL hwl (by simp)
              · cases Pfx.toRight pr pl <;> simp [cSem_onlyL, slotEntries]
              · simp [Machine.wt_cons, Machine.wt_nil, cMu_onlyL, cMu, dL, dR, Tree.size]; omega
            | node s2 p2 v2 a2 b2 =>
              obtain ⟨c1, c2, c3, c4⟩ := cNext_spec (.node sl pl vl ll lr) (.node s2 p2 v2 a2 b2) hwl hwrr
              refine ⟨c1, ?_, ?_⟩
              · simp only [Option.toList, List.nil_append, c3, c2]
                cases hc : Pfx.toRight pr pl
                · rw [hc] at uls
                  simp only [child_false, slotEntries]
                  exact (covDiffS_drop (fun x hx => coverK_other_side (k := pr.net) (c := false) urr (uls x hx))).symm
                · rfl
              · simp only [cMu, dL, dR]; omega
          | node s1 p1 v1 a1 b1 =>
            cases rr with
            | nil =>
              obtain ⟨c1, c2, c3, c4⟩ := cNext_spec (.node sl pl vl ll lr) (.node s1 p1 v1 a1 b1) hwl hwrl
              refine ⟨c1, ?_, ?_⟩
              · simp only [Option.toList, List.nil_append, c3, c2]
                cases hc : Pfx.toRight pr pl
                · rfl
                · rw [hc] at uls
                  simp only [child_true, slotEntries]
                  exact (covDiffS_drop (fun x hx => coverK_other_side (k := pr.net) (c := true) url (uls x hx))).symm
              · simp only [cMu, dL, dR]; omega
            | node s2 p2 v2 a2 b2 =>
              have htr : toRightOf pr (Tree.node sl pl vl ll lr) = Pfx.toRight pr pl := rfl
              simp only [htr]
              cases hc : Pfx.toRight pr pl
              · obtain ⟨c1, c2, c3, c4⟩ := cNext_spec (.node sl pl vl ll lr) (.node s1 p1 v1 a1 b1) hwl hwrl
                refine ⟨by simpa using c1, by simp [c3, c2], ?_⟩
                simp only [Bool.false_eq_true, ite_false, cMu, dL, dR]; omega
              · obtain ⟨c1, c2, c3, c4⟩ := cNext_spec (.node sl pl vl ll lr) (.node s2 p2 v2 a2 b2) hwl hwrr
                refine ⟨by simpa using c1, by simp [c3, c2], ?_⟩
                simp only [ite_true, cMu, dL, dR]; omega
  | onlyL l =>
    simp only [dL, dR] at hwl hwr hnl
    cases l with
    | nil => exact absurd rfl hnl
    | node sl pl vl ll lr =>
      obtain ⟨hwll, hwlr⟩ := hwl.child
      obtain ⟨o1, o2, o3⟩ := cOnlyChildren_spec (R := R) ll lr hwll hwlr
      have hs : cStep (.onlyL (.node sl pl vl ll lr) : DIdx w L R) =
          (dItemOf none (.node sl pl vl ll lr), onlyChildren .onlyL ll lr) := rfl
      rw [hs]
      refine ⟨o1, ?_, ?_⟩
      · rw [o2]
        show covDiffS (Tree.node sl pl vl ll lr).slotEntries (Tree.nil : Tree w R).slotEntries = _
        rw [slotEntries_node sl, covDiffS_append, covDiffS_append, List.append_assoc]
        congr 1
        exact covDiffS_own_free (ll := ll) (lr := lr) rfl
      · have hsz := size_node_eq sl pl vl ll lr
        simp only [cMu, dL, dR, Tree.size] at o3 ⊢; omega

/-- `a.covering_difference(b)` (and the `_mut` variant): exactly the entries of `a` whose prefix is
not covered by any prefix stored in `b` (an equal prefix covers), each once, in the order of `a`'s
entry list, with `a`'s stored prefix and value -/
theorem coveringDifference_eq (a : Tree w L) (b : Tree w R) (hwa : HasWF a) (hwb : HasWF b) :
    coveringDifference a b = covDiffS a.slotEntries b.slotEntries := by
  unfold coveringDifference
  obtain ⟨c1, c2, c3, c4⟩ := cNext_spec a b hwa hwb
  rw [c3, Machine.run_eq cStep cMu cSem cOk cStep_ok (fuelFor a b) _ c1 (by unfold fuelFor; omega), c2]

end SetOps
