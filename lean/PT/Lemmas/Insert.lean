import PT.Lemmas.Get
/-!
# `insert` (and the placement code of `VacantEntry::_insert`): well-formedness, entries, result, slots
-/
namespace Tree
variable {w : Nat} {V : Type}
open Pfx

/-- `get_direction` is `get_direction_for_insert` with the three placement outcomes merged -/
theorem getDir_eq_of_dirIns (p : Pfx w) (l r : Tree w V) (q : Pfx w) :
    getDir p l r q = (match dirIns p l r q with
      | .reached => .reached
      | .enter b => .enter b
      | _ => .missing) := by
  unfold getDir dirIns
  by_cases he : p.eqv q = true
  · simp [he]
  · simp only [he]
    cases (child l r (toRight p q)).pfx? with
    | none => simp [dirChild, dirInsChild]
    | some cp =>
      cases h1 : cp.contains q
      · cases h2 : q.contains cp <;> simp [dirChild, dirInsChild, h1, h2]
      · simp [dirChild, dirInsChild, h1]

/-- the root of the subtree (if any) covers `q`: the descent invariant -/
def RootCovers (t : Tree w V) (q : Pfx w) : Prop := ∀ p, t.pfx? = some p → p.net <+: q.net

theorem RootCovers.node {s : Nat} {p : Pfx w} {v : Option V} {l r : Tree w V} {q : Pfx w}
    (h : p.net <+: q.net) : RootCovers (node s p v l r) q := by
  intro p' hp'; simp [pfx?] at hp'; subst hp'; exact h

theorem leaf_wf {k : List Bool} (s : Nat) (q : Pfx w) (x : V) (h : k <+: q.net) : WF k (leaf s q x) :=
  ⟨h, trivial, trivial⟩

theorem leaf_entries (s : Nat) (q : Pfx w) (x : V) : (leaf s q x : Tree w V).entries = [(q, x)] := rfl

/-- facts about the branch node created by `NewBranch` -/
theorem branch_facts {q cp : Pfx w} {k : List Bool} (hq : k <+: q.net) (hc : k <+: cp.net)
    (h1 : ¬ cp.net <+: q.net) (h2 : ¬ q.net <+: cp.net) :
    k <+: (q.lcp cp).net ∧
    (q.lcp cp).net ++ [toRight (q.lcp cp) q] <+: q.net ∧
    (q.lcp cp).net ++ [!toRight (q.lcp cp) q] <+: cp.net := by
  have hl := lcp_prefix_left q cp
  have hr := lcp_prefix_right q cp
  have hnq : (q.lcp cp).net ≠ q.net := fun e => h2 (e ▸ hr)
  have hnc : (q.lcp cp).net ≠ cp.net := fun e => h1 (e ▸ hl)
  have sq := side_prefix hl hnq
  have sc := side_prefix hr hnc
  refine ⟨lcp_max q cp k hq hc, sq, ?_⟩
  have : toRight (q.lcp cp) cp = !toRight (q.lcp cp) q := by
    cases hx : toRight (q.lcp cp) cp <;> cases hy : toRight (q.lcp cp) q <;> simp
    all_goals
      rw [hx] at sc; rw [hy] at sq
      have := (lcp_max q cp _ sq sc).length_le
      simp at this
      omega
  rw [← this]; exact sc

theorem insert_wf {k : List Bool} {t : Tree w V} (hwf : WF k t) (q : Pfx w) (x : V) (s1 s2 : Nat)
    (hc : RootCovers t q) : WF k (insert t q x s1 s2).t := by
  induction t generalizing k with
  | nil => simp [insert]; trivial
  | node s p v l r ihl ihr =>
    have hp : p.net <+: q.net := hc p rfl
    unfold insert
    split
    · next hd =>
      have he := dirIns_reached hd
      exact ⟨he ▸ hwf.1, he ▸ hwf.2.1, he ▸ hwf.2.2⟩
    · next hd =>
      obtain ⟨hne, hb, cs, cp, cv, cl, cr, hch, hcq⟩ := dirIns_enter hd
      simp only [child_true] at hch
      exact ⟨hwf.1, hwf.2.1, ihr hwf.2.2 (by rw [hch]; exact RootCovers.node hcq)⟩
    · next hd =>
      obtain ⟨hne, hb, cs, cp, cv, cl, cr, hch, hcq⟩ := dirIns_enter hd
      simp only [child_false] at hch
      exact ⟨hwf.1, ihl hwf.2.1 (by rw [hch]; exact RootCovers.node hcq), hwf.2.2⟩
    · next b hd =>
      obtain ⟨hne, hb, hch⟩ := dirIns_newLeaf hd
      have hside := side_prefix hp hne
      rw [← hb] at hside
      cases b
      · exact ⟨hwf.1, leaf_wf _ _ _ hside, hwf.2.2⟩
      · exact ⟨hwf.1, hwf.2.1, leaf_wf _ _ _ hside⟩
    · next b cr hd =>
      obtain ⟨hne, hb, cs, cp, cv, cl, crr, hch, h1, h2, hcr⟩ := dirIns_newChild hd
      have hside := side_prefix hp hne
      rw [← hb] at hside
      have hcw : WF (p.net ++ [b]) (node cs cp cv cl crr) := hch ▸ WF.of_child hwf b
      have hnqc : q.net ≠ cp.net := fun e => h1 (e ▸ List.prefix_refl _)
      have hs2 := side_prefix h2 hnqc
      rw [← hcr] at hs2
      have hnew : WF (p.net ++ [b]) (mkChild s1 q x (child l r b) cr) := by
        rw [hch]
        unfold mkChild
        cases cr
        · exact ⟨hside, ⟨hs2, hcw.2.1, hcw.2.2⟩, trivial⟩
        · exact ⟨hside, trivial, ⟨hs2, hcw.2.1, hcw.2.2⟩⟩
      cases b
      · exact ⟨hwf.1, hnew, hwf.2.2⟩
      · exact ⟨hwf.1, hwf.2.1, hnew⟩
    · next bp b pr hd =>
      obtain ⟨hne, hb, cs, cp, cv, cl, crr, hch, h1, h2, hbp, hpr⟩ := dirIns_newBranch hd
      have hside := side_prefix hp hne
      rw [← hb] at hside
      have hcw : WF (p.net ++ [b]) (node cs cp cv cl crr) := hch ▸ WF.of_child hwf b
      subst hbp
      obtain ⟨f1, f2, f3⟩ := branch_facts hside hcw.1 h1 h2
      rw [← hpr] at f2 f3
      have hnew : WF (p.net ++ [b]) (mkBranch s1 (q.lcp cp) s2 q x (child l r b) pr) := by
        rw [hch]
        unfold mkBranch
        cases pr
        · exact ⟨f1, leaf_wf _ _ _ f2, ⟨f3, hcw.2.1, hcw.2.2⟩⟩
        · exact ⟨f1, ⟨f3, hcw.2.1, hcw.2.2⟩, leaf_wf _ _ _ f2⟩
      cases b
      · exact ⟨hwf.1, hnew, hwf.2.2⟩
      · exact ⟨hwf.1, hwf.2.1, hnew⟩

theorem mem_mkChild {s1 : Nat} {q : Pfx w} {x : V} {c : Tree w V} {cr : Bool} {e : Pfx w × V} :
    e ∈ (mkChild s1 q x c cr).entries ↔ e = (q, x) ∨ e ∈ c.entries := by
  unfold mkChild
  cases cr <;> simp [entries]

theorem mem_mkBranch {sb : Nat} {b : Pfx w} {sn : Nat} {q : Pfx w} {x : V} {c : Tree w V} {pr : Bool}
    {e : Pfx w × V} :
    e ∈ (mkBranch sb b sn q x c pr).entries ↔ e = (q, x) ∨ e ∈ c.entries := by
  unfold mkBranch
  cases pr <;> simp [entries, leaf, or_comm]

/-- the entries after `insert q x`: `(q, x)` (the representation passed is the one stored) plus
every old entry with a different key -/
theorem insert_mem {k : List Bool} {t : Tree w V} (hwf : WF k t) (q : Pfx w) (x : V) (s1 s2 : Nat)
    (hc : RootCovers t q) (hnn : t ≠ nil) (e : Pfx w × V) :
    e ∈ (insert t q x s1 s2).t.entries ↔ e = (q, x) ∨ (e ∈ t.entries ∧ e.1.net ≠ q.net) := by
  induction t generalizing k with
  | nil => exact absurd rfl hnn
  | node s p v l r ihl ihr =>
    have hp : p.net <+: q.net := hc p rfl
    have hunder : ∀ b, ∀ e' ∈ (child l r b).entries, p.net ++ [b] <+: e'.1.net :=
      fun b e' he' => WF.mem_child_entries hwf b he'
    unfold insert
    split
    · next hd =>
      have he := dirIns_reached hd
      have hbelow : ∀ b, ∀ e' ∈ (child l r b).entries, e'.1.net ≠ q.net :=
        fun b e' he' => he ▸ List.ne_of_snoc_prefix (hunder b e' he')
      simp only [mem_entries_node, mem_own]
      constructor
      · rintro (⟨h1, h2⟩ | h | h)
        · left; cases e; simp_all
        · exact .inr ⟨.inr (.inl h), hbelow false e h⟩
        · exact .inr ⟨.inr (.inr h), hbelow true e h⟩
      · rintro (rfl | ⟨h | h | h, hn⟩)
        · exact .inl ⟨rfl, rfl⟩
        · exact absurd (h.2 ▸ he) hn
        · exact .inr (.inl h)
        · exact .inr (.inr h)
    · next hd =>
      obtain ⟨hne, hb, cs, cp, cv, cl, cr, hch, hcq⟩ := dirIns_enter hd
      simp only [child_true] at hch
      have hside := side_prefix hp hne
      rw [← hb] at hside
      have ih := ihr hwf.2.2 (by rw [hch]; exact RootCovers.node hcq) (by rw [hch]; simp)
      simp only [InsRes.mapT, mem_entries_node, mem_own, ih]
      constructor
      · rintro (⟨h1, h2⟩ | h | h | h)
        · exact .inr ⟨.inl ⟨h1, h2⟩, h2 ▸ hne⟩
        · exact .inr ⟨.inr (.inl h), List.ne_of_sides (by simp) (hunder false e h) hside⟩
        · exact .inl h
        · exact .inr ⟨.inr (.inr h.1), h.2⟩
      · rintro (h | ⟨h | h | h, hn⟩)
        · exact .inr (.inr (.inl h))
        · exact .inl h
        · exact .inr (.inl h)
        · exact .inr (.inr (.inr ⟨h, hn⟩))
    · next hd =>
      obtain ⟨hne, hb, cs, cp, cv, cl, cr, hch, hcq⟩ := dirIns_enter hd
      simp only [child_false] at hch
      have hside := side_prefix hp hne
      rw [← hb] at hside
      have ih := ihl hwf.2.1 (by rw [hch]; exact RootCovers.node hcq) (by rw [hch]; simp)
      simp only [InsRes.mapT, mem_entries_node, mem_own, ih]
      constructor
      · rintro (⟨h1, h2⟩ | h | h)
        · exact .inr ⟨.inl ⟨h1, h2⟩, h2 ▸ hne⟩
        · rcases h with h | h
          · exact .inl h
          · exact .inr ⟨.inr (.inl h.1), h.2⟩
        · exact .inr ⟨.inr (.inr h), List.ne_of_sides (by simp) (hunder true e h) hside⟩
      · rintro (h | ⟨h | h | h, hn⟩)
        · exact .inr (.inl (.inl h))
        · exact .inl h
        · exact .inr (.inl (.inr ⟨h, hn⟩))
        · exact .inr (.inr h)
    · next b hd =>
      obtain ⟨hne, hb, hch⟩ := dirIns_newLeaf hd
      have hside := side_prefix hp hne
      rw [← hb] at hside
      have hother : ∀ e' ∈ (child l r (!b)).entries, e'.1.net ≠ q.net :=
        fun e' he' => List.ne_of_sides (by cases b <;> simp) (hunder (!b) e' he') hside
      have hnil : ∀ e', e' ∉ (child l r b).entries := by rw [hch]; simp [entries]
      simp only [mem_entries_setChild, leaf_entries, List.mem_singleton, mem_own]
      constructor
      · rintro (⟨h1, h2⟩ | h | h)
        · exact .inr ⟨by rw [mem_entries_node, mem_own]; exact .inl ⟨h1, h2⟩, h2 ▸ hne⟩
        · exact .inl h
        · refine .inr ⟨?_, hother e h⟩
          rw [mem_entries_node]; cases b
          · exact .inr (.inr h)
          · exact .inr (.inl h)
      · rintro (h | ⟨h, hn⟩)
        · exact .inr (.inl h)
        · rw [mem_entries_node, mem_own] at h
          rcases h with h | h | h
          · exact .inl h
          · cases b
            · exact absurd h (hnil e)
            · exact .inr (.inr h)
          · cases b
            · exact .inr (.inr h)
            · exact absurd h (hnil e)
    · next b cr hd =>
      obtain ⟨hne, hb, cs, cp, cv, cl, crr, hch, h1, h2, hcr⟩ := dirIns_newChild hd
      have hside := side_prefix hp hne
      rw [← hb] at hside
      have hother : ∀ e' ∈ (child l r (!b)).entries, e'.1.net ≠ q.net :=
        fun e' he' => List.ne_of_sides (by cases b <;> simp) (hunder (!b) e' he') hside
      have hcw : WF (p.net ++ [b]) (node cs cp cv cl crr) := hch ▸ WF.of_child hwf b
      have hsame : ∀ e' ∈ (child l r b).entries, e'.1.net ≠ q.net := by
        intro e' he' heq
        rw [hch] at he'
        exact h1 (heq ▸ WF.mem_entries (WF.self hcw) he')
      simp only [mem_entries_setChild, mem_mkChild, mem_own]
      constructor
      · rintro (⟨a1, a2⟩ | h | h)
        · exact .inr ⟨by rw [mem_entries_node, mem_own]; exact .inl ⟨a1, a2⟩, a2 ▸ hne⟩
        · rcases h with h | h
          · exact .inl h
          · refine .inr ⟨?_, hsame e h⟩
            rw [mem_entries_node]; cases b
            · exact .inr (.inl h)
            · exact .inr (.inr h)
        · refine .inr ⟨?_, hother e h⟩
          rw [mem_entries_node]; cases b
          · exact .inr (.inr h)
          · exact .inr (.inl h)
      · rintro (h | ⟨h, hn⟩)
        · exact .inr (.inl (.inl h))
        · rw [mem_entries_node, mem_own] at h
          rcases h with h | h | h
          · exact .inl h
          · cases b
            · exact .inr (.inl (.inr h))
            · exact .inr (.inr h)
          · cases b
            · exact .inr (.inr h)
            · exact .inr (.inl (.inr h))
    · next bp b pr hd =>
      obtain ⟨hne, hb, cs, cp, cv, cl, crr, hch, h1, h2, hbp, hpr⟩ := dirIns_newBranch hd
      have hside := side_prefix hp hne
      rw [← hb] at hside
      have hother : ∀ e' ∈ (child l r (!b)).entries, e'.1.net ≠ q.net :=
        fun e' he' => List.ne_of_sides (by cases b <;> simp) (hunder (!b) e' he') hside
      have hcw : WF (p.net ++ [b]) (node cs cp cv cl crr) := hch ▸ WF.of_child hwf b
      have hsame : ∀ e' ∈ (child l r b).entries, e'.1.net ≠ q.net := by
        intro e' he' heq
        rw [hch] at he'
        exact h1 (heq ▸ WF.mem_entries (WF.self hcw) he')
      simp only [mem_entries_setChild, mem_mkBranch, mem_own]
      constructor
      · rintro (⟨a1, a2⟩ | h | h)
        · exact .inr ⟨by rw [mem_entries_node, mem_own]; exact .inl ⟨a1, a2⟩, a2 ▸ hne⟩
        · rcases h with h | h
          · exact .inl h
          · refine .inr ⟨?_, hsame e h⟩
            rw [mem_entries_node]; cases b
            · exact .inr (.inl h)
            · exact .inr (.inr h)
        · refine .inr ⟨?_, hother e h⟩
          rw [mem_entries_node]; cases b
          · exact .inr (.inr h)
          · exact .inr (.inl h)
      · rintro (h | ⟨h, hn⟩)
        · exact .inr (.inl (.inl h))
        · rw [mem_entries_node, mem_own] at h
          rcases h with h | h | h
          · exact .inl h
          · cases b
            · exact .inr (.inl (.inr h))
            · exact .inr (.inr h)
          · cases b
            · exact .inr (.inr h)
            · exact .inr (.inl (.inr h))

/-- the value returned by `insert` is the value previously stored under the key -/
theorem insert_old (t : Tree w V) (q : Pfx w) (x : V) (s1 s2 : Nat) :
    (insert t q x s1 s2).old = get t q := by
  induction t with
  | nil => rfl
  | node s p v l r ihl ihr =>
    unfold insert get findNode
    rw [getDir_eq_of_dirIns]
    split
    · next hd => simp [hd]
    · next hd => simp only [hd, InsRes.mapT]; rw [ihr]; rfl
    · next hd => simp only [hd, InsRes.mapT]; rw [ihl]; rfl
    · next hd => simp [hd]
    · next hd => simp [hd]
    · next hd => simp [hd]

end Tree
