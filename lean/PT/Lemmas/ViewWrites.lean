import PT.Lemmas.Views
import PT.Lemmas.Inv
/-!
# `TrieViewMut::set` / `TrieViewMut::remove`: the value slot of the view's node is replaced

`setAt t path nv` = the tree after the value slot of the node at `path` became `nv`
(`viewSet`: `some x`; `viewRemove`: `none`).  Neither the prefix of that node nor any link changes.
-/
namespace Tree
variable {w : Nat} {V : Type}
open Pfx

def setAt (t : Tree w V) (path : List Bool) (nv : Option V) : Tree w V :=
  t.modifyAt path (fun t => t.withValue nv)

theorem setAt_nil (t : Tree w V) (nv : Option V) : setAt t [] nv = t.withValue nv := by
  unfold setAt; cases t <;> rfl

theorem setAt_nil_tree (path : List Bool) (nv : Option V) : setAt (nil : Tree w V) path nv = nil := by
  unfold setAt; cases path <;> rfl

theorem setAt_cons (s : Nat) (p : Pfx w) (v : Option V) (l r : Tree w V) (c : Bool) (cs : List Bool) (nv : Option V) :
    setAt (node s p v l r) (c :: cs) nv = setChild s p v l r c (setAt (child l r c) cs nv) := by
  unfold setAt setChild
  cases c <;> rfl

theorem setAt_isNil (t : Tree w V) (path : List Bool) (nv : Option V) : (setAt t path nv).isNil = t.isNil := by
  cases t with
  | nil => rw [setAt_nil_tree]
  | node s p v l r =>
    cases path with
    | nil => rfl
    | cons c cs => rw [setAt_cons]; unfold setChild; split <;> rfl

theorem setAt_pfx (t : Tree w V) (path : List Bool) (nv : Option V) : (setAt t path nv).pfx? = t.pfx? := by
  cases t with
  | nil => rw [setAt_nil_tree]
  | node s p v l r =>
    cases path with
    | nil => rfl
    | cons c cs => rw [setAt_cons]; unfold setChild; split <;> rfl

theorem setAt_wf {k : List Bool} {t : Tree w V} (h : WF k t) (path : List Bool) (nv : Option V) :
    WF k (setAt t path nv) := by
  induction path generalizing k t with
  | nil => rw [setAt_nil]; cases t <;> exact h
  | cons c cs ih =>
    cases t with
    | nil => rw [setAt_nil_tree]; trivial
    | node s p v l r =>
      rw [setAt_cons]
      unfold setChild
      cases c
      · exact ⟨h.1, ih h.2.1, h.2.2⟩
      · exact ⟨h.1, h.2.1, ih h.2.2⟩

theorem setAt_slots (t : Tree w V) (path : List Bool) (nv : Option V) : (setAt t path nv).slots = t.slots := by
  induction path generalizing t with
  | nil => rw [setAt_nil]; cases t <;> rfl
  | cons c cs ih =>
    cases t with
    | nil => rw [setAt_nil_tree]
    | node s p v l r =>
      rw [setAt_cons]
      unfold setChild
      cases c <;> simp [slots, ih, child]

/-- a node found at a path lies under the position of the subtree -/
theorem WF.sub_prefix {k : List Bool} {t : Tree w V} (h : WF k t) {path : List Bool}
    {s : Nat} {np : Pfx w} {ov : Option V} {l r : Tree w V} (hs : t.sub path = node s np ov l r) :
    k <+: np.net := by
  induction path generalizing k t with
  | nil => rw [sub_nil] at hs; subst hs; exact h.1
  | cons c cs ih =>
    cases t with
    | nil => rw [sub_nil_tree] at hs; cases hs
    | node s' p v l' r' =>
      rw [sub_cons_node] at hs
      have := ih (WF.of_child h c) hs
      exact h.1.trans ((List.prefix_append _ _).trans this)

/-- the entries after the value slot at `path` became `nv` -/
theorem setAt_mem {k : List Bool} {t : Tree w V} (h : WF k t) {path : List Bool}
    {s : Nat} {np : Pfx w} {ov : Option V} {l r : Tree w V} (hs : t.sub path = node s np ov l r)
    (nv : Option V) (e : Pfx w × V) :
    e ∈ (setAt t path nv).entries ↔ (e ∈ t.entries ∧ e.1.net ≠ np.net) ∨ (nv = some e.2 ∧ e.1 = np) := by
  induction path generalizing k t with
  | nil =>
    rw [sub_nil] at hs; subst hs
    rw [setAt_nil]
    simp only [withValue, entries_node, List.mem_append, mem_own]
    have hl : ∀ e ∈ l.entries, e.1.net ≠ np.net := fun e he hk => by
      have := (WF.mem_entries h.2.1 he).length_le; rw [hk] at this; simp at this; omega
    have hr : ∀ e ∈ r.entries, e.1.net ≠ np.net := fun e he hk => by
      have := (WF.mem_entries h.2.2 he).length_le; rw [hk] at this; simp at this; omega
    constructor
    · rintro ((h1 | h1) | h1)
      · exact .inr h1
      · exact .inl ⟨.inl (.inr h1), hl e h1⟩
      · exact .inl ⟨.inr h1, hr e h1⟩
    · rintro (⟨(h1 | h1) | h1, h2⟩ | h1)
      · exact absurd (by rw [h1.2]) h2
      · exact .inl (.inr h1)
      · exact .inr h1
      · exact .inl (.inl h1)
  | cons c cs ih =>
    cases t with
    | nil => rw [sub_nil_tree] at hs; cases hs
    | node s' p v l' r' =>
      rw [sub_cons_node] at hs
      have hcw := WF.of_child h c
      have hunder : p.net ++ [c] <+: np.net := WF.sub_prefix hcw hs
      have ih' := ih hcw hs
      rw [setAt_cons]
      have hown : ∀ e ∈ own p v, e.1.net ≠ np.net := fun e he hk => by
        rw [(mem_own.1 he).2] at hk
        have := hunder.length_le; rw [← hk] at this; simp at this; omega
      have hother : ∀ e ∈ (child l' r' (!c)).entries, e.1.net ≠ np.net := fun e he hk => by
        have h1 := WF.mem_child_entries h (!c) he
        rw [hk] at h1
        exact List.not_prefix_of_sides (x := c) (y := !c) (by cases c <;> simp) hunder h1 (List.prefix_refl _)
      have hnot : ∀ e, e ∈ own p v ∨ e ∈ (child l' r' (!c)).entries → ¬ (nv = some e.2 ∧ e.1 = np) → True :=
        fun _ _ _ => trivial
      unfold setChild
      cases c
      · simp only [Bool.false_eq_true, ite_false, entries_node, List.mem_append, child_false, Bool.not_false,
          child_true] at ih' hother ⊢
        rw [ih']
        constructor
        · rintro ((h1 | (⟨h1, h2⟩ | h1)) | h1)
          · exact .inl ⟨.inl (.inl h1), hown e h1⟩
          · exact .inl ⟨.inl (.inr h1), h2⟩
          · exact .inr h1
          · exact .inl ⟨.inr h1, hother e h1⟩
        · rintro (⟨(h1 | h1) | h1, h2⟩ | h1)
          · exact .inl (.inl h1)
          · exact .inl (.inr (.inl ⟨h1, h2⟩))
          · exact .inr h1
          · exact .inl (.inr (.inr h1))
      · simp only [ite_true, entries_node, List.mem_append, child_false, Bool.not_true, child_true] at ih' hother ⊢
        rw [ih']
        constructor
        · rintro ((h1 | h1) | (⟨h1, h2⟩ | h1))
          · exact .inl ⟨.inl (.inl h1), hown e h1⟩
          · exact .inl ⟨.inl (.inr h1), hother e h1⟩
          · exact .inl ⟨.inr h1, h2⟩
          · exact .inr h1
        · rintro (⟨(h1 | h1) | h1, h2⟩ | h1)
          · exact .inl (.inl h1)
          · exact .inl (.inr h1)
          · exact .inr (.inl ⟨h1, h2⟩)
          · exact .inr (.inr h1)

/-- the entry count after the value slot at `path` became `nv` -/
theorem setAt_card {t : Tree w V} {path : List Bool}
    {s : Nat} {np : Pfx w} {ov : Option V} {l r : Tree w V} (hs : t.sub path = node s np ov l r)
    (nv : Option V) :
    (setAt t path nv).card + (if ov.isSome then 1 else 0) = t.card + (if nv.isSome then 1 else 0) := by
  induction path generalizing t with
  | nil =>
    rw [sub_nil] at hs; subst hs
    rw [setAt_nil]
    simp only [withValue, card_node]
    omega
  | cons c cs ih =>
    cases t with
    | nil => rw [sub_nil_tree] at hs; cases hs
    | node s' p v l' r' =>
      rw [sub_cons_node] at hs
      have := ih hs
      rw [setAt_cons]
      unfold setChild
      cases c
      · simp only [Bool.false_eq_true, ite_false, card_node, child_false] at this ⊢; omega
      · simp only [ite_true, card_node, child_true] at this ⊢; omega

end Tree

namespace Tree
variable {w : Nat} {V : Type}

theorem setAt_root (s : Nat) (p : Pfx w) (v : Option V) (l r : Tree w V) (path : List Bool) (nv : Option V) :
    ∃ v' l' r', setAt (node s p v l r) path nv = node s p v' l' r' := by
  cases path with
  | nil => exact ⟨nv, l, r, rfl⟩
  | cons c cs =>
    rw [setAt_cons]; unfold setChild
    cases c
    · exact ⟨v, _, r, rfl⟩
    · exact ⟨v, l, _, rfl⟩

end Tree

namespace View
variable {w : Nat} {V : Type}

/-- a sequence of `left()` / `right()` steps; `none` as soon as one of them fails -/
def nav (t : Tree w V) (v : View w) : List Bool → Option (View w)
  | [] => some v
  | c :: cs => match side t v c with
    | some v' => nav t v' cs
    | none => none

theorem nav_good {t : Tree w V} {v v' : View w} (hg : Good t v) (cs : List Bool) (h : nav t v cs = some v') :
    Good t v' := by
  induction cs generalizing v with
  | nil => simp only [nav, Option.some.injEq] at h; exact h ▸ hg
  | cons c cs ih =>
    unfold nav at h
    split at h
    · next v1 hv1 =>
      obtain ⟨P, hP⟩ := good_pfx hg
      exact ih ((side_spec hg hP c).2 v1 hv1).1 h
    · cases h

end View

namespace PMap
variable {w : Nat} {V : Type}
open Tree View

theorem viewSet_root (m : PMap w V) (v : View w) (x : V) :
    (m.viewSet v x).1.root = (match v.virt with | some _ => m.root | none => setAt m.root v.path (some x)) := by
  unfold viewSet; cases v.virt <;> rfl

theorem viewRemove_root (m : PMap w V) (v : View w) :
    (m.viewRemove v).1.root = (match v.virt with | some _ => m.root | none => setAt m.root v.path none) := by
  unfold viewRemove; cases v.virt <;> rfl

theorem setAt_treeWF {m : PMap w V} (h : m.TreeWF) (path : List Bool) (nv : Option V) (f a c : _) :
    (⟨setAt m.root path nv, f, a, c⟩ : PMap w V).TreeWF := by
  obtain ⟨p, v, l, r, hr, hp⟩ := h.root
  refine ⟨?_, setAt_wf h.wf path nv⟩
  obtain ⟨v', l', r', he⟩ := setAt_root 0 p v l r path nv
  exact ⟨p, v', l', r', by simp only [hr, he], hp⟩

/-- `TrieViewMut::set` keeps the invariant (entry counter included) -/
theorem viewSet_inv {m : PMap w V} (h : m.Inv) {v : View w} (hg : Good m.root v) (x : V) :
    (m.viewSet v x).1.Inv := by
  obtain ⟨kk, s, np, ov, l, r, hs, _, _⟩ := hg
  unfold viewSet
  cases hv : v.virt with
  | some _ => exact h
  | none =>
    refine ⟨setAt_treeWF h.tree _ _ _ _ _, ?_, fun a ha => ?_, fun a ha => ?_⟩
    · have := setAt_card hs (some x)
      show (if (v.node m.root).value?.isSome then m.count else m.count + 1) = (setAt m.root v.path (some x)).card
      unfold View.node; rw [hs, h.count]
      simp only [value?, Option.isSome_some, ite_true] at this ⊢
      cases ov <;> simp at this ⊢ <;> omega
    · show (Tree.slots (setAt m.root v.path (some x)) ++ m.free).count a = 1
      rw [setAt_slots]; exact h.slots_lt a ha
    · show (Tree.slots (setAt m.root v.path (some x)) ++ m.free).count a = 0
      rw [setAt_slots]; exact h.slots_ge a ha

/-- `TrieViewMut::remove` keeps the invariant (entry counter included) -/
theorem viewRemove_inv {m : PMap w V} (h : m.Inv) {v : View w} (hg : Good m.root v) :
    (m.viewRemove v).1.Inv := by
  obtain ⟨kk, s, np, ov, l, r, hs, _, _⟩ := hg
  unfold viewRemove
  cases hv : v.virt with
  | some _ => exact h
  | none =>
    refine ⟨setAt_treeWF h.tree _ _ _ _ _, ?_, fun a ha => ?_, fun a ha => ?_⟩
    · have := setAt_card hs (none : Option V)
      show (if (v.node m.root).value?.isSome then m.count - 1 else m.count) = (setAt m.root v.path none).card
      unfold View.node; rw [hs, h.count]
      simp only [value?, Option.isSome_none, Bool.false_eq_true, ite_false] at this ⊢
      cases ov <;> simp at this ⊢ <;> omega
    · show (Tree.slots (setAt m.root v.path none) ++ m.free).count a = 1
      rw [setAt_slots]; exact h.slots_lt a ha
    · show (Tree.slots (setAt m.root v.path none) ++ m.free).count a = 0
      rw [setAt_slots]; exact h.slots_ge a ha

/-- the entries after `set(x)` on a view positioned at a real node with stored prefix `np`: the entry
under that key becomes `(np, x)` — the node's existing prefix — and nothing else changes; on a virtual
position nothing changes (the call returns `Err`) -/
theorem viewSet_mem {m : PMap w V} (h : m.TreeWF) {v : View w} (hg : Good m.root v) (x : V) (e : Pfx w × V) :
    e ∈ (m.viewSet v x).1.entries ↔
      (match v.virt, (v.node m.root).pfx? with
       | none, some np => (e ∈ m.entries ∧ e.1.net ≠ np.net) ∨ e = (np, x)
       | _, _ => e ∈ m.entries) := by
  obtain ⟨kk, s, np, ov, l, r, hs, _, _⟩ := hg
  unfold PMap.entries
  rw [viewSet_root]
  cases hv : v.virt with
  | some _ => rfl
  | none =>
    unfold View.node; rw [hs]
    simp only [pfx?]
    rw [setAt_mem h.wf hs (some x) e]
    constructor
    · rintro (h1 | ⟨h1, h2⟩)
      · exact .inl h1
      · right; cases e; simp only [Option.some.injEq] at h1; simp_all
    · rintro (h1 | h1)
      · exact .inl h1
      · right; subst h1; exact ⟨rfl, rfl⟩

theorem viewRemove_mem {m : PMap w V} (h : m.TreeWF) {v : View w} (hg : Good m.root v) (e : Pfx w × V) :
    e ∈ (m.viewRemove v).1.entries ↔
      (match v.virt, (v.node m.root).pfx? with
       | none, some np => e ∈ m.entries ∧ e.1.net ≠ np.net
       | _, _ => e ∈ m.entries) := by
  obtain ⟨kk, s, np, ov, l, r, hs, _, _⟩ := hg
  unfold PMap.entries
  rw [viewRemove_root]
  cases hv : v.virt with
  | some _ => rfl
  | none =>
    unfold View.node; rw [hs]
    simp only [pfx?]
    rw [setAt_mem h.wf hs none e]
    simp

/-- `view_mut_at(q)` followed by `left()` / `right()` steps -/
def viewAtNav (m : PMap w V) (q : Pfx w) (cs : List Bool) : Option (View w) :=
  match (View.root : View w).find m.root q with
  | some v => v.nav m.root cs
  | none => none

theorem viewAtNav_good {m : PMap w V} (h : m.TreeWF) {q : Pfx w} {cs : List Bool} {v : View w}
    (hv : m.viewAtNav q cs = some v) : Good m.root v := by
  obtain ⟨p, x, l, r, hr, _⟩ := h.root
  have hroot : Good m.root (View.root : View w) := View.root_good hr h.wf
  unfold viewAtNav at hv
  split at hv
  · next v0 hv0 => exact View.nav_good ((View.find_spec hroot q).2 v0 hv0).1 cs hv
  · cases hv

/-- `view_mut_at(q)`, navigation, then `set(x)`; nothing happens if the view does not exist -/
def viewSetAt (m : PMap w V) (q : Pfx w) (cs : List Bool) (x : V) : PMap w V :=
  match m.viewAtNav q cs with
  | some v => (m.viewSet v x).1
  | none => m

/-- `view_mut_at(q)`, navigation, then `remove()` -/
def viewRemoveAt (m : PMap w V) (q : Pfx w) (cs : List Bool) : PMap w V :=
  match m.viewAtNav q cs with
  | some v => (m.viewRemove v).1
  | none => m

theorem viewSetAt_inv {m : PMap w V} (h : m.Inv) (q : Pfx w) (cs : List Bool) (x : V) : (m.viewSetAt q cs x).Inv := by
  unfold viewSetAt
  split
  · next v hv => exact viewSet_inv h (viewAtNav_good h.tree hv) x
  · exact h

theorem viewRemoveAt_inv {m : PMap w V} (h : m.Inv) (q : Pfx w) (cs : List Bool) : (m.viewRemoveAt q cs).Inv := by
  unfold viewRemoveAt
  split
  · next v hv => exact viewRemove_inv h (viewAtNav_good h.tree hv)
  · exact h

end PMap
