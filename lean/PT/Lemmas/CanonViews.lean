import PT.Lemmas.Canon
import PT.Lemmas.Views
/-!
# Views of a canonical trie: a sub-view or side exists exactly when it holds an entry
-/
namespace Tree
variable {w : Nat} {V : Type}

theorem Canon.sub {b : Bool} {t : Tree w V} (h : Canon b t) (path : List Bool) (hp : path ≠ []) :
    Canon false (t.sub path) := by
  induction path generalizing b t with
  | nil => exact absurd rfl hp
  | cons c cs ih =>
    cases t with
    | nil => rw [sub_nil_tree]; trivial
    | node s p v l r =>
      rw [sub_cons_node]
      cases cs with
      | nil => rw [sub_nil]; exact h.child c
      | cons d ds => exact ih (h.child c) (by simp)

theorem entries_ne_nil {t : Tree w V} (h : Canon false t) (hn : t.isNil = false) : t.entries ≠ [] := by
  intro he
  apply keys_ne_nil h hn
  unfold keys; rw [he]; rfl

end Tree

namespace PMap
variable {w : Nat} {V : Type}
open Tree View

/-- a good view whose real node is the root is not virtual: it is the whole-map view -/
theorem good_path_nil {m : PMap w V} (h : m.TreeWF) {v : View w} (hg : Good m.root v) (hp : v.path = []) :
    v = View.root := by
  obtain ⟨kk, s, np, nv, nl, nr, hs, _, hvirt⟩ := hg
  obtain ⟨p, x, l, r, hr, hpn⟩ := h.root
  rw [hp, sub_nil, hr] at hs
  injection hs with _ e2
  subst e2
  cases hv : v.virt with
  | none => cases v; simp_all [View.root]
  | some q =>
    obtain ⟨a, b⟩ := hvirt q hv
    rw [hpn] at a b
    exact absurd (List.prefix_nil.1 a) b

/-- in a canonical trie every view other than the whole-map view addresses at least one entry -/
theorem view_nonempty {m : PMap w V} (h : m.TreeWF) (c : m.Canonical) {v : View w} (hg : Good m.root v)
    (hne : v ≠ View.root) : v.ents m.root ≠ [] := by
  have hp : v.path ≠ [] := fun hp => hne (good_path_nil h hg hp)
  obtain ⟨kk, s, np, nv, nl, nr, hs, _, _⟩ := hg
  unfold View.ents View.node
  exact entries_ne_nil (Canon.sub c v.path hp) (by rw [hs]; rfl)

/-- the views returned by `left()` / `right()` are never the whole-map view -/
theorem side_ne_root {m : PMap w V} (h : m.TreeWF) {v v' : View w} (hg : Good m.root v) (c : Bool)
    (hs' : View.side m.root v c = some v') : v' ≠ View.root := by
  obtain ⟨kk, s, np, nv, nl, nr, hs, hw, hvirt⟩ := hg
  cases hv : v.virt with
  | none =>
    rw [side_node hs hv c] at hs'
    split at hs'
    · simp only [Option.some.injEq] at hs'
      subst hs'
      intro e
      have := congrArg View.path e
      simp [View.root] at this
    · cases hs'
  | some q =>
    rw [side_virtual hs hv c] at hs'
    split at hs'
    · simp only [Option.some.injEq] at hs'
      subst hs'
      intro e
      have hp : v.path = [] := by have := congrArg View.path e; simpa [View.root] using this
      have := good_path_nil h ⟨kk, s, np, nv, nl, nr, hs, hw, hvirt⟩ hp
      rw [this] at hv
      simp [View.root] at hv
    · cases hs'

end PMap
