import PT.Lemmas.SetSpec
/-!
# `intersection` / `intersection_mut`: the index machine yields the keyed intersection
-/
namespace SetOps
variable {w : Nat} {L R : Type}
open Tree Pfx

/-- comparing masks of prefixes of equal length is comparing their network parts -/
theorem maskEq_iff_net {a b : Pfx w} (hl : a.len = b.len) : Pfx.maskEq a b = true ↔ a.net = b.net := by
  unfold Pfx.maskEq
  rw [beq_iff_eq, Pfx.mask_eq_iff a b hl, Pfx.net_eq_iff]
  exact ⟨fun h => ⟨hl, h⟩, fun h => h.2⟩

/-- root key of a subtree (`[]` for `nil`) -/
def rootNet {T : Type} (t : Tree w T) : List Bool :=
  match t.pfx? with
  | some p => p.net
  | none => []

def HasWF {T : Type} (t : Tree w T) : Prop := ∃ k, WF k t

theorem HasWF.child {T : Type} {s : Nat} {p : Pfx w} {v : Option T} {l r : Tree w T}
    (h : HasWF (.node s p v l r)) : HasWF l ∧ HasWF r := by
  obtain ⟨k, hk⟩ := h; exact ⟨⟨_, hk.2.1⟩, ⟨_, hk.2.2⟩⟩

theorem under_root {T : Type} {s : Nat} {p : Pfx w} {v : Option T} {l r : Tree w T}
    (h : HasWF (.node s p v l r)) :
    Under p.net (Tree.node s p v l r).slotEntries ∧
    Under (p.net ++ [false]) l.slotEntries ∧ Under (p.net ++ [true]) r.slotEntries := by
  obtain ⟨k, hk⟩ := h
  exact ⟨under_slotEntries (WF.self hk), under_slotEntries hk.2.1, under_slotEntries hk.2.2⟩

def iL : IIdx w L R → Tree w L
  | .both l _ => l
  | .firstA l _ => l
  | .firstB l _ => l

def iR : IIdx w L R → Tree w R
  | .both _ r => r
  | .firstA _ r => r
  | .firstB _ r => r

/-- denotation of an index entry: the keyed intersection of the two subtrees -/
def iSem (e : IIdx w L R) : List (IItem w L R) := interS (iL e).slotEntries (iR e).slotEntries

def iMu (e : IIdx w L R) : Nat := (iL e).size + (iR e).size

/-- invariant of index entries -/
def iOk (e : IIdx w L R) : Prop :=
  HasWF (iL e) ∧ HasWF (iR e) ∧ (iL e) ≠ .nil ∧ (iR e) ≠ .nil ∧
  match e with
  | .both l r => rootNet l = rootNet r
  | .firstA l r => rootNet l <+: rootNet r ∧ rootNet l ≠ rootNet r
  | .firstB l r => rootNet r <+: rootNet l ∧ rootNet l ≠ rootNet r

/-- two subtrees whose roots are incomparable share no key -/
theorem no_common_key {a : Tree w L} {b : Tree w R} {sa : Nat} {pa : Pfx w} {va : Option L} {la ra : Tree w L}
    {sb : Nat} {pb : Pfx w} {vb : Option R} {lb rb : Tree w R}
    (ha : a = .node sa pa va la ra) (hb : b = .node sb pb vb lb rb) (hwa : HasWF a) (hwb : HasWF b)
    (h1 : ¬ pa.net <+: pb.net) (h2 : ¬ pb.net <+: pa.net) :
    ∀ x ∈ a.slotEntries, ∀ y ∈ b.slotEntries, keyOf x ≠ keyOf y := by
  subst ha hb
  intro x hx y hy e
  have hxa := (under_root hwa).1 x hx
  have hyb := (under_root hwb).1 y hy
  rw [e] at hxa
  rcases Nat.le_total pa.net.length pb.net.length with h | h
  · exact h1 (List.prefix_of_prefix_length_le hxa hyb h)
  · exact h2 (List.prefix_of_prefix_length_le hyb hxa h)

section unfold
variable {sa : Nat} {pa : Pfx w} {va : Option L} {la ra : Tree w L}
  {sb : Nat} {pb : Pfx w} {vb : Option R} {lb rb : Tree w R}

theorem iNext_both (hl : pa.len = pb.len) (hm : Pfx.maskEq pa pb = true) :
    iNext (.node sa pa va la ra) (.node sb pb vb lb rb) = [.both (.node sa pa va la ra) (.node sb pb vb lb rb)] := by
  simp [iNext, hl, hm]

theorem iNext_len_eq_nil (hl : pa.len = pb.len) (hm : ¬ Pfx.maskEq pa pb = true) :
    iNext (.node sa pa va la ra) (.node sb pb vb lb rb) = [] := by
  simp [iNext, hl, hm]

theorem iNext_firstA (hl : pa.len ≠ pb.len) (h1 : pa.contains pb = true) :
    iNext (.node sa pa va la ra) (.node sb pb vb lb rb) = [.firstA (.node sa pa va la ra) (.node sb pb vb lb rb)] := by
  simp [iNext, hl, h1]

theorem iNext_firstB (hl : pa.len ≠ pb.len) (h1 : ¬ pa.contains pb = true) (h2 : pb.contains pa = true) :
    iNext (.node sa pa va la ra) (.node sb pb vb lb rb) = [.firstB (.node sa pa va la ra) (.node sb pb vb lb rb)] := by
  simp [iNext, hl, h1, h2]

theorem iNext_incomparable (hl : pa.len ≠ pb.len) (h1 : ¬ pa.contains pb = true) (h2 : ¬ pb.contains pa = true) :
    iNext (.node sa pa va la ra) (.node sb pb vb lb rb) = [] := by
  simp [iNext, hl, h1, h2]
end unfold

/-- the four facts needed about what `next_indices` returns, for a single entry … -/
theorem iNext_single {a : Tree w L} {b : Tree w R} (c : IIdx w L R) (hok : iOk c) (hL : iL c = a) (hR : iR c = b) :
    (∀ x ∈ [c], iOk x) ∧ [c].flatMap iSem = interS a.slotEntries b.slotEntries ∧ [c].reverse = [c] ∧
    Machine.wt iMu [c] ≤ a.size + b.size + 1 := by
  refine ⟨by simpa using hok, by simp [iSem, hL, hR], rfl, ?_⟩
  simp [Machine.wt_cons, Machine.wt_nil, iMu, hL, hR]

/-- … and for none -/
theorem iNext_none {a : Tree w L} {b : Tree w R} (h : interS a.slotEntries b.slotEntries = []) :
    (∀ x ∈ ([] : List (IIdx w L R)), iOk x) ∧ ([] : List (IIdx w L R)).flatMap iSem = interS a.slotEntries b.slotEntries ∧
    ([] : List (IIdx w L R)).reverse = [] ∧ Machine.wt iMu ([] : List (IIdx w L R)) ≤ a.size + b.size + 1 := by
  refine ⟨by simp, by simp [h], rfl, by simp [Machine.wt_nil]⟩

/-- `next_indices`: at most one entry, well-formed, denoting the intersection of the two subtrees -/
theorem iNext_spec (a : Tree w L) (b : Tree w R) (hwa : HasWF a) (hwb : HasWF b) :
    (∀ c ∈ iNext a b, iOk c) ∧
    (iNext a b).flatMap iSem = interS a.slotEntries b.slotEntries ∧
    (iNext a b).reverse = iNext a b ∧
    Machine.wt iMu (iNext a b) ≤ a.size + b.size + 1 := by
  cases a with
  | nil =>
    have : iNext (.nil : Tree w L) b = [] := by cases b <;> rfl
    rw [this]; exact iNext_none (by simp [slotEntries, interS_nil_left])
  | node sa pa va la ra =>
    cases b with
    | nil =>
      have : iNext (Tree.node sa pa va la ra) (.nil : Tree w R) = [] := rfl
      rw [this]; exact iNext_none (interS_eq_nil (by simp [slotEntries]))
    | node sb pb vb lb rb =>
      by_cases hl : pa.len = pb.len
      · by_cases hm : Pfx.maskEq pa pb = true
        · have hnet := (maskEq_iff_net hl).1 hm
          rw [iNext_both hl hm]
          exact iNext_single _ ⟨hwa, hwb, by simp [iL], by simp [iR], by simp [rootNet, pfx?, hnet]⟩ rfl rfl
        · rw [iNext_len_eq_nil hl hm]
          have hne : pa.net ≠ pb.net := fun e => hm ((maskEq_iff_net hl).2 e)
          apply iNext_none
          apply interS_eq_nil (no_common_key rfl rfl hwa hwb ?_ ?_)
          · intro h; exact hne (h.eq_of_length (by simp [Pfx.net_length, hl]))
          · intro h; exact hne (h.eq_of_length (by simp [Pfx.net_length, hl])).symm
      · have hne : pa.net ≠ pb.net := Pfx.net_ne_of_len_ne hl
        by_cases h1 : pa.contains pb = true
        · have h1' := (Pfx.contains_iff pa pb).1 h1
          rw [iNext_firstA hl h1]
          exact iNext_single _ ⟨hwa, hwb, by simp [iL], by simp [iR], by simp [rootNet, pfx?, h1', hne]⟩ rfl rfl
        · by_cases h2 : pb.contains pa = true
          · have h2' := (Pfx.contains_iff pb pa).1 h2
            rw [iNext_firstB hl h1 h2]
            exact iNext_single _ ⟨hwa, hwb, by simp [iL], by simp [iR], by simp [rootNet, pfx?, h2', hne]⟩ rfl rfl
          · rw [iNext_incomparable hl h1 h2]
            apply iNext_none
            apply interS_eq_nil (no_common_key rfl rfl hwa hwb ?_ ?_)
            · intro h; exact h1 ((Pfx.contains_iff pa pb).2 h)
            · intro h; exact h2 ((Pfx.contains_iff pb pa).2 h)

theorem interS_nil_right (A : KL w L) : interS A ([] : KL w R) = [] := by
  apply interS_eq_nil; simp

theorem rootNet_node {T : Type} (s : Nat) (p : Pfx w) (v : Option T) (l r : Tree w T) :
    rootNet (Tree.node s p v l r) = p.net := rfl

theorem size_node_eq {T : Type} (s : Nat) (p : Pfx w) (v : Option T) (l r : Tree w T) :
    (Tree.node s p v l r).size = 1 + l.size + r.size := rfl

theorem size_child_lt {T : Type} (s : Nat) (p : Pfx w) (v : Option T) (l r : Tree w T) :
    l.size + 1 ≤ (Tree.node s p v l r).size ∧ r.size + 1 ≤ (Tree.node s p v l r).size := by
  simp [Tree.size]; omega

/-- lookups from below one side of a node only see that side's child -/
theorem lookupK_side {s : Nat} {p : Pfx w} {v : Option R} {l r : Tree w R} (h : HasWF (.node s p v l r))
    (c : Bool) {k : List Bool} (hk : p.net ++ [c] <+: k) :
    lookupK (Tree.node s p v l r).slotEntries k = lookupK (child l r c).slotEntries k := by
  obtain ⟨_, hl, hr⟩ := under_root h
  rw [slotEntries_node, lookupK_append, lookupK_append]
  have hown : lookupK (ownS s p v) k = none :=
    lookupK_none (fun b hb e => List.ne_of_snoc_prefix hk (e.symm.trans (mem_ownS hb)))
  rw [hown]
  cases c
  · have : lookupK r.slotEntries k = none :=
      lookupK_none (fun b hb e => List.ne_of_sides (x := true) (y := false) (by simp) (hr b hb) hk e)
    rw [this]; simp
  · have : lookupK l.slotEntries k = none :=
      lookupK_none (fun b hb e => List.ne_of_sides (x := false) (y := true) (by simp) (hl b hb) hk e)
    rw [this]; simp

/-- the item a `Both` entry yields -/
def iItem (pl : Pfx w) (sl : Nat) (vl : Option L) (sr : Nat) (vr : Option R) : Option (IItem w L R) :=
  match vl, vr with
  | some x, some y => some ⟨pl, (sl, x), (sr, y)⟩
  | _, _ => none

theorem iStep_both (sl : Nat) (pl : Pfx w) (vl : Option L) (ll lr : Tree w L)
    (sr : Nat) (pr : Pfx w) (vr : Option R) (rl rr : Tree w R) :
    iStep (.both (.node sl pl vl ll lr) (.node sr pr vr rl rr)) =
      (iItem pl sl vl sr vr, iNext lr rr ++ iNext ll rl) := by
  unfold iStep iItem; cases vl <;> cases vr <;> rfl

/-- the step of `Intersection::next` / `IntersectionMut::next` unfolds the denotation -/
theorem iStep_ok (e : IIdx w L R) (h : iOk e) :
    (∀ c ∈ (iStep e).2, iOk c) ∧
    iSem e = (iStep e).1.toList ++ (iStep e).2.reverse.flatMap iSem ∧
    Machine.wt iMu (iStep e).2 ≤ iMu e := by
  obtain ⟨hwl, hwr, hnl, hnr, hrel⟩ := h
  cases e with
  | both l r =>
    simp only [iL, iR] at hwl hwr hnl hnr
    cases l with
    | nil => exact absurd rfl hnl
    | node sl pl vl ll lr =>
      cases r with
      | nil => exact absurd rfl hnr
      | node sr pr vr rl rr =>
        have hnet : pl.net = pr.net := hrel
        obtain ⟨hwll, hwlr⟩ := hwl.child
        obtain ⟨hwrl, hwrr⟩ := hwr.child
        obtain ⟨a1, a2, a3, a4⟩ := iNext_spec lr rr hwlr hwrr
        obtain ⟨b1, b2, b3, b4⟩ := iNext_spec ll rl hwll hwrl
        obtain ⟨ul, ull, ulr⟩ := under_root hwl
        rw [iStep_both]
        refine ⟨fun c hc => ?_, ?_, ?_⟩
        · rcases List.mem_append.1 hc with hc | hc
          · exact a1 c hc
          · exact b1 c hc
        · simp only [List.reverse_append, a3, b3, List.flatMap_append, a2, b2]
          show interS (Tree.node sl pl vl ll lr).slotEntries (Tree.node sr pr vr rl rr).slotEntries = _
          rw [slotEntries_node sl, interS_append, interS_append]
          have e2 : interS ll.slotEntries (Tree.node sr pr vr rl rr).slotEntries = interS ll.slotEntries rl.slotEntries :=
            interS_congr (fun a ha => lookupK_side hwr false (hnet ▸ ull a ha))
          have e3 : interS lr.slotEntries (Tree.node sr pr vr rl rr).slotEntries = interS lr.slotEntries rr.slotEntries :=
            interS_congr (fun a ha => lookupK_side hwr true (hnet ▸ ulr a ha))
          rw [e2, e3, List.append_assoc]
          congr 1
          -- the node's own entry against the other node's own entry
          obtain ⟨_, url, urr⟩ := under_root hwr
          cases vl with
          | none => simp [ownS, interS, iItem]
          | some x =>
            have hk : keyOf (sl, pl, x) = pr.net := hnet
            simp only [ownS, interS, List.filterMap_cons, List.filterMap_nil, hk]
            rw [slotEntries_node, lookupK_append, lookupK_append]
            have n1 : lookupK rl.slotEntries pr.net = none := lookupK_none (key_ne_of_below url)
            have n2 : lookupK rr.slotEntries pr.net = none := lookupK_none (key_ne_of_below urr)
            rw [n1, n2]
            cases vr with
            | none => simp [ownS, lookupK_nil, iItem]
            | some y => simp [ownS, lookupK, keyOf, iItem]
        · rw [Machine.wt_append]
          simp only [iMu, iL, iR, Tree.size] at *
          omega
  | firstA l r =>
    simp only [iL, iR] at hwl hwr hnl hnr
    cases l with
    | nil => exact absurd rfl hnl
    | node sl pl vl ll lr =>
      cases r with
      | nil => exact absurd rfl hnr
      | node sr pr vr rl rr =>
        obtain ⟨hpre, hne⟩ : pl.net <+: pr.net ∧ pl.net ≠ pr.net := hrel
        have hside := Pfx.side_prefix hpre hne
        obtain ⟨hwll, hwlr⟩ := hwl.child
        obtain ⟨ul, ull, ulr⟩ := under_root hwl
        obtain ⟨ur, _, _⟩ := under_root hwr
        have urs : Under (pl.net ++ [Pfx.toRight pl pr]) (Tree.node sr pr vr rl rr).slotEntries := ur.mono hside
        have hs : iStep (.firstA (.node sl pl vl ll lr) (.node sr pr vr rl rr)) =
            (none, iFirstA pl ll lr (.node sr pr vr rl rr)) := rfl
        rw [hs]
        -- the own entry of l matches nothing in r
        have hown : interS (ownS sl pl vl) (Tree.node sr pr vr rl rr).slotEntries = [] :=
          interS_eq_nil (fun a ha b hb e => List.ne_of_snoc_prefix (urs b hb) (e.symm.trans (mem_ownS ha)))
        have hsem : iSem (.firstA (.node sl pl vl ll lr) (.node sr pr vr rl rr)) =
            interS ll.slotEntries (Tree.node sr pr vr rl rr).slotEntries ++
            interS lr.slotEntries (Tree.node sr pr vr rl rr).slotEntries := by
          show interS (Tree.node sl pl vl ll lr).slotEntries (Tree.node sr pr vr rl rr).slotEntries = _
          rw [slotEntries_node sl, interS_append, interS_append, hown, List.nil_append]
        rw [hsem]
        have hsz := size_child_lt sl pl vl ll lr
        -- what `next_indices_first_a` returns
        unfold iFirstA
        cases ll with
        | nil =>
          cases lr with
          | nil => simp [slotEntries, interS_nil_left, Machine.wt_nil]
          | node s2 p2 v2 a2 b2 =>
            obtain ⟨c1, c2, c3, c4⟩ := iNext_spec (.node s2 p2 v2 a2 b2) (.node sr pr vr rl rr) hwlr hwr
            refine ⟨c1, by simp [c3, c2, slotEntries, interS_nil_left], ?_⟩
            simp only [iMu, iL, iR] at *; omega
        | node s1 p1 v1 a1 b1 =>
          cases lr with
          | nil =>
            obtain ⟨c1, c2, c3, c4⟩ := iNext_spec (.node s1 p1 v1 a1 b1) (.node sr pr vr rl rr) hwll hwr
            refine ⟨c1, by simp [c3, c2, slotEntries, interS_nil_left], ?_⟩
            simp only [iMu, iL, iR] at *; omega
          | node s2 p2 v2 a2 b2 =>
            have htr : toRightOf pl (Tree.node sr pr vr rl rr) = Pfx.toRight pl pr := rfl
            simp only [htr]
            cases hc : Pfx.toRight pl pr
            · rw [hc] at urs
              obtain ⟨c1, c2, c3, c4⟩ := iNext_spec (.node s1 p1 v1 a1 b1) (.node sr pr vr rl rr) hwll hwr
              have hz : interS (Tree.node s2 p2 v2 a2 b2).slotEntries (Tree.node sr pr vr rl rr).slotEntries = [] :=
                interS_eq_nil (key_ne_of_sides (k := pl.net) (c := true) ulr urs)
              refine ⟨by simpa using c1, by simp [c3, c2, hz], ?_⟩
              simp only [Bool.false_eq_true, ite_false, iMu, iL, iR] at *; omega
            · rw [hc] at urs
              obtain ⟨c1, c2, c3, c4⟩ := iNext_spec (.node s2 p2 v2 a2 b2) (.node sr pr vr rl rr) hwlr hwr
              have hz : interS (Tree.node s1 p1 v1 a1 b1).slotEntries (Tree.node sr pr vr rl rr).slotEntries = [] :=
                interS_eq_nil (key_ne_of_sides (k := pl.net) (c := false) ull urs)
              refine ⟨by simpa using c1, by simp [c3, c2, hz], ?_⟩
              simp only [ite_true, iMu, iL, iR] at *; omega
  | firstB l r =>
    simp only [iL, iR] at hwl hwr hnl hnr
    cases l with
    | nil => exact absurd rfl hnl
    | node sl pl vl ll lr =>
      cases r with
      | nil => exact absurd rfl hnr
      | node sr pr vr rl rr =>
        obtain ⟨hpre, hne⟩ : pr.net <+: pl.net ∧ pl.net ≠ pr.net := hrel
        have hside := Pfx.side_prefix hpre (fun e => hne e.symm)
        obtain ⟨hwrl, hwrr⟩ := hwr.child
        obtain ⟨ul, _, _⟩ := under_root hwl
        obtain ⟨ur, url, urr⟩ := under_root hwr
        have uls : Under (pr.net ++ [Pfx.toRight pr pl]) (Tree.node sl pl vl ll lr).slotEntries := ul.mono hside
        have hs : iStep (.firstB (.node sl pl vl ll lr) (.node sr pr vr rl rr)) =
            (none, iFirstB (.node sl pl vl ll lr) pr rl rr) := rfl
        rw [hs]
        -- everything in l looks only into the child of r on l's side
        have hsem : iSem (.firstB (.node sl pl vl ll lr) (.node sr pr vr rl rr)) =
            interS (Tree.node sl pl vl ll lr).slotEntries (child rl rr (Pfx.toRight pr pl)).slotEntries :=
          interS_congr (fun a ha => lookupK_side hwr _ (uls a ha))
        rw [hsem]
        have hsz := size_child_lt sr pr vr rl rr
        unfold iFirstB
        cases rl with
        | nil =>
          cases rr with
          | nil => cases Pfx.toRight pr pl <;> simp [slotEntries, interS_nil_right, Machine.wt_nil]
          | node s2 p2 v2 a2 b2 =>
            obtain ⟨c1, c2, c3, c4⟩ := iNext_spec (.node sl pl vl ll lr) (.node s2 p2 v2 a2 b2) hwl hwrr
            refine ⟨c1, ?_, ?_⟩
            · simp only [Option.toList, List.nil_append, c3, c2]
              cases hc : Pfx.toRight pr pl
              · rw [hc] at uls
                simp only [child_false, slotEntries, interS_nil_right]
                exact (interS_eq_nil (key_ne_of_sides (k := pr.net) (c := false) uls urr)).symm
              · rfl
            · simp only [iMu, iL, iR] at *; omega
        | node s1 p1 v1 a1 b1 =>
          cases rr with
          | nil =>
            obtain ⟨c1, c2, c3, c4⟩ := iNext_spec (.node sl pl vl ll lr) (.node s1 p1 v1 a1 b1) hwl hwrl
            refine ⟨c1, ?_, ?_⟩
            · simp only [Option.toList, List.nil_append, c3, c2]
              cases hc : Pfx.toRight pr pl
              · rfl
              · rw [hc] at uls
                simp only [child_true, slotEntries, interS_nil_right]
                exact (interS_eq_nil (key_ne_of_sides (k := pr.net) (c := true) uls url)).symm
            · simp only [iMu, iL, iR] at *; omega
          | node s2 p2 v2 a2 b2 =>
            have htr : toRightOf pr (Tree.node sl pl vl ll lr) = Pfx.toRight pr pl := rfl
            simp only [htr]
            cases hc : Pfx.toRight pr pl
            · obtain ⟨c1, c2, c3, c4⟩ := iNext_spec (.node sl pl vl ll lr) (.node s1 p1 v1 a1 b1) hwl hwrl
              refine ⟨by simpa using c1, by simp [c3, c2], ?_⟩
              simp only [Bool.false_eq_true, ite_false, iMu, iL, iR] at *; omega
            · obtain ⟨c1, c2, c3, c4⟩ := iNext_spec (.node sl pl vl ll lr) (.node s2 p2 v2 a2 b2) hwl hwrr
              refine ⟨by simpa using c1, by simp [c3, c2], ?_⟩
              simp only [ite_true, iMu, iL, iR] at *; omega

/-- `a.intersection(b)` (and `intersection_mut`): exactly the keys stored in both operands, each
once, in the order of `a`'s entry list, with the stored prefix of `a` and both values -/
theorem intersection_eq (a : Tree w L) (b : Tree w R) (hwa : HasWF a) (hwb : HasWF b) :
    intersection a b = interS a.slotEntries b.slotEntries := by
  unfold intersection
  obtain ⟨c1, c2, c3, c4⟩ := iNext_spec a b hwa hwb
  rw [c3, Machine.run_eq iStep iMu iSem iOk iStep_ok (fuelFor a b) (iNext a b) c1 (by unfold fuelFor; omega), c2]

end SetOps
