import PT.Lemmas.Diff
/-!
# Specification of `union`: sorted merge of two keyed entry lists
-/
namespace SetOps
variable {w : Nat} {L R : Type}
open Tree Pfx

variable (fL : Pfx w → Lpm w R) (fR : Pfx w → Lpm w L)

theorem unionS_nil_left (bs : KL w R) : unionS fL fR ([] : KL w L) bs = bs.map (mkRight fR) := by
  unfold unionS; rfl

theorem unionS_nil_right (as : KL w L) : unionS fL fR as ([] : KL w R) = as.map (mkLeft fL) := by
  cases as with
  | nil => rw [unionS_nil_left]; rfl
  | cons a as => unfold unionS; rfl

theorem unionS_cons_cons (a : Nat × Pfx w × L) (as : KL w L) (b : Nat × Pfx w × R) (bs : KL w R) :
    unionS fL fR (a :: as) (b :: bs) =
      if keyOf a = keyOf b then .both a.2.1 (a.1, a.2.2) (b.1, b.2.2) :: unionS fL fR as bs
      else if Spec.keyLt (keyOf a) (keyOf b) then mkLeft fL a :: unionS fL fR as (b :: bs)
      else mkRight fR b :: unionS fL fR (a :: as) bs := by
  rw [unionS]

theorem keyLt_ne {x y : List Bool} (h : Spec.keyLt x y = true) : x ≠ y := by
  intro e; rw [e, Spec.keyLt_irrefl] at h; simp at h

theorem keyLt_asymm {x y : List Bool} (h : Spec.keyLt x y = true) : Spec.keyLt y x = false := by
  cases h' : Spec.keyLt y x with
  | false => rfl
  | true => have := Spec.keyLt_trans h h'; rw [Spec.keyLt_irrefl] at this; simp at this

/-- every key of the first pair of lists precedes every key of the second pair -/
def Sep (A1 : KL w L) (B1 : KL w R) (A2 : KL w L) (B2 : KL w R) : Prop :=
  (∀ x ∈ A1, ∀ y ∈ A2, Spec.keyLt (keyOf x) (keyOf y) = true) ∧
  (∀ x ∈ A1, ∀ y ∈ B2, Spec.keyLt (keyOf x) (keyOf y) = true) ∧
  (∀ x ∈ B1, ∀ y ∈ A2, Spec.keyLt (keyOf x) (keyOf y) = true) ∧
  (∀ x ∈ B1, ∀ y ∈ B2, Spec.keyLt (keyOf x) (keyOf y) = true)

/-- the merge splits at any key boundary -/
theorem unionS_append : ∀ (n : Nat) (A1 : KL w L) (B1 : KL w R) (A2 : KL w L) (B2 : KL w R),
    A1.length + B1.length ≤ n → Sep A1 B1 A2 B2 →
    unionS fL fR (A1 ++ A2) (B1 ++ B2) = unionS fL fR A1 B1 ++ unionS fL fR A2 B2 := by
  intro n
  induction n with
  | zero =>
    intro A1 B1 A2 B2 hn _
    have h1 : A1 = [] := List.length_eq_zero_iff.1 (by omega)
    have h2 : B1 = [] := List.length_eq_zero_iff.1 (by omega)
    subst h1 h2
    simp [unionS_nil_left]
  | succ n ih =>
    intro A1 B1 A2 B2 hn hsep
    obtain ⟨s1, s2, s3, s4⟩ := hsep
    cases A1 with
    | nil =>
      cases B1 with
      | nil => simp [unionS_nil_left]
      | cons b bs =>
        simp only [List.nil_append, List.cons_append]
        rw [unionS_nil_left fL fR (b :: bs)]
        have ihb := ih [] bs A2 B2 (by simp at hn ⊢; omega)
          ⟨by simp, by simp, fun x hx => s3 x (List.mem_cons_of_mem _ hx), fun x hx => s4 x (List.mem_cons_of_mem _ hx)⟩
        simp only [List.nil_append] at ihb
        cases A2 with
        | nil => simp [unionS_nil_left]
        | cons a2 as2 =>
          have hlt := s3 b (List.mem_cons_self ..) a2 (List.mem_cons_self ..)
          rw [unionS_cons_cons]
          have hne : keyOf a2 ≠ keyOf b := (keyLt_ne hlt).symm
          simp only [hne, ite_false, keyLt_asymm hlt, Bool.false_eq_true]
          rw [ihb, unionS_nil_left]; simp
    | cons a as =>
      cases B1 with
      | nil =>
        simp only [List.nil_append, List.cons_append]
        rw [unionS_nil_right fL fR (a :: as)]
        have iha := ih as [] A2 B2 (by simp at hn ⊢; omega)
          ⟨fun x hx => s1 x (List.mem_cons_of_mem _ hx), fun x hx => s2 x (List.mem_cons_of_mem _ hx), by simp, by simp⟩
        simp only [List.nil_append] at iha
        cases B2 with
        | nil => simp [unionS_nil_right]
        | cons b2 bs2 =>
          have hlt := s2 a (List.mem_cons_self ..) b2 (List.mem_cons_self ..)
          rw [unionS_cons_cons]
          simp only [keyLt_ne hlt, ite_false, hlt, ite_true]
          rw [iha, unionS_nil_right]; simp
      | cons b bs =>
        simp only [List.cons_append]
        rw [unionS_cons_cons, unionS_cons_cons]
        by_cases he : keyOf a = keyOf b
        · simp only [he, ite_true, List.cons_append]
          rw [ih as bs A2 B2 (by simp at hn ⊢; omega)
            ⟨fun x hx => s1 x (List.mem_cons_of_mem _ hx), fun x hx => s2 x (List.mem_cons_of_mem _ hx),
             fun x hx => s3 x (List.mem_cons_of_mem _ hx), fun x hx => s4 x (List.mem_cons_of_mem _ hx)⟩]
        · simp only [he, ite_false]
          by_cases hlt : Spec.keyLt (keyOf a) (keyOf b) = true
          · simp only [hlt, ite_true, List.cons_append]
            have := ih as (b :: bs) A2 B2 (by simp at hn ⊢; omega)
              ⟨fun x hx => s1 x (List.mem_cons_of_mem _ hx), fun x hx => s2 x (List.mem_cons_of_mem _ hx), s3, s4⟩
            simp only [List.cons_append] at this
            rw [this]
          · simp only [hlt, Bool.false_eq_true, ite_false, List.cons_append]
            have := ih (a :: as) bs A2 B2 (by simp at hn ⊢; omega)
              ⟨s1, s2, fun x hx => s3 x (List.mem_cons_of_mem _ hx), fun x hx => s4 x (List.mem_cons_of_mem _ hx)⟩
            simp only [List.cons_append] at this
            rw [this]

/-- the annotation functions only matter on the prefixes of the respective list -/
theorem unionS_congr {fL fL' : Pfx w → Lpm w R} {fR fR' : Pfx w → Lpm w L} :
    ∀ (n : Nat) (A : KL w L) (B : KL w R), A.length + B.length ≤ n →
    (∀ a ∈ A, fL a.2.1 = fL' a.2.1) → (∀ b ∈ B, fR b.2.1 = fR' b.2.1) →
    unionS fL fR A B = unionS fL' fR' A B := by
  intro n
  induction n with
  | zero =>
    intro A B hn _ _
    have h1 : A = [] := List.length_eq_zero_iff.1 (by omega)
    have h2 : B = [] := List.length_eq_zero_iff.1 (by omega)
    subst h1 h2; simp [unionS_nil_left]
  | succ n ih =>
    intro A B hn hA hB
    cases A with
    | nil =>
      rw [unionS_nil_left, unionS_nil_left]
      apply List.map_congr_left
      intro b hb; simp [mkRight, hB b hb]
    | cons a as =>
      cases B with
      | nil =>
        rw [unionS_nil_right, unionS_nil_right]
        apply List.map_congr_left
        intro x hx; simp [mkLeft, hA x hx]
      | cons b bs =>
        rw [unionS_cons_cons, unionS_cons_cons]
        have i1 := ih as bs (by simp at hn ⊢; omega) (fun x hx => hA x (List.mem_cons_of_mem _ hx))
          (fun x hx => hB x (List.mem_cons_of_mem _ hx))
        have i2 := ih as (b :: bs) (by simp at hn ⊢; omega) (fun x hx => hA x (List.mem_cons_of_mem _ hx)) hB
        have i3 := ih (a :: as) bs (by simp at hn ⊢; omega) hA (fun x hx => hB x (List.mem_cons_of_mem _ hx))
        rw [i1, i2, i3]
        simp [mkLeft, mkRight, hA a (List.mem_cons_self ..), hB b (List.mem_cons_self ..)]

end SetOps
