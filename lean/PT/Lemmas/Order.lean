import PT.Lemmas.Get
import PT.Spec
import PT.Iter
/-!
# Order of the entry list and the explicit-stack iterator
-/
namespace Spec

theorem keyLt_append_left (k x y : Key) : keyLt (k ++ x) (k ++ y) = keyLt x y := by
  induction k with
  | nil => rfl
  | cons a k ih => simp [keyLt, ih]

theorem keyLt_nil_cons (c : Bool) (cs : Key) : keyLt [] (c :: cs) = true := rfl

theorem keyLt_of_proper_prefix {a b : Key} (h : a <+: b) (hne : a ≠ b) : keyLt a b = true := by
  obtain ⟨t, rfl⟩ := h
  cases t with
  | nil => simp at hne
  | cons c cs =>
    have := keyLt_append_left a [] (c :: cs)
    simp only [List.append_nil] at this
    rw [this]; rfl

theorem keyLt_of_sides {k a b : Key} (ha : k ++ [false] <+: a) (hb : k ++ [true] <+: b) : keyLt a b = true := by
  obtain ⟨ta, rfl⟩ := ha
  obtain ⟨tb, rfl⟩ := hb
  simp only [List.append_assoc, keyLt_append_left]
  rfl

theorem keyLt_irrefl (a : Key) : keyLt a a = false := by
  induction a with
  | nil => rfl
  | cons x xs ih => simp [keyLt, ih]

theorem keyLt_trans {a b c : Key} (h1 : keyLt a b = true) (h2 : keyLt b c = true) : keyLt a c = true := by
  induction a generalizing b c with
  | nil =>
    cases c with
    | nil => cases b <;> simp [keyLt] at h1 h2
    | cons => rfl
  | cons x xs ih =>
    cases b with
    | nil => simp [keyLt] at h1
    | cons y ys =>
      cases c with
      | nil => simp [keyLt] at h2
      | cons z zs =>
        simp only [keyLt] at h1 h2 ⊢
        by_cases hxy : x = y
        · subst hxy
          simp only [beq_self_eq_true, ite_true] at h1
          by_cases hxz : x = z
          · subst hxz
            simp only [beq_self_eq_true, ite_true] at h2 ⊢
            exact ih h1 h2
          · have : (x == z) = false := by simpa using hxz
            simpa [this] using h2
        · have hxy' : (x == y) = false := by simpa using hxy
          simp only [hxy'] at h1
          cases x <;> cases y <;> cases z <;> simp_all

end Spec

namespace Tree
variable {w : Nat} {V : Type}
open Pfx

/-- the entry list of a well-formed (sub)tree is strictly ascending in the lexicographic key order:
a prefix precedes everything it covers, the 0-branch precedes the 1-branch -/
theorem entries_sorted {k : List Bool} {t : Tree w V} (h : WF k t) :
    t.entries.Pairwise (fun a b => Spec.keyLt a.1.net b.1.net = true) := by
  induction t generalizing k with
  | nil => simp [entries]
  | node s p v l r ihl ihr =>
    rw [entries_node, List.append_assoc, List.pairwise_append]
    refine ⟨?_, ?_, ?_⟩
    · cases v <;> simp [own]
    · rw [List.pairwise_append]
      refine ⟨ihl h.2.1, ihr h.2.2, ?_⟩
      intro a ha b hb
      exact Spec.keyLt_of_sides (WF.mem_entries h.2.1 ha) (WF.mem_entries h.2.2 hb)
    · intro a ha b hb
      rw [(mem_own.1 ha).2]
      have hb' : ∃ c, p.net ++ [c] <+: b.1.net := by
        rcases List.mem_append.1 hb with hb | hb
        · exact ⟨false, WF.mem_entries h.2.1 hb⟩
        · exact ⟨true, WF.mem_entries h.2.2 hb⟩
      obtain ⟨c, hc⟩ := hb'
      exact Spec.keyLt_of_proper_prefix ((List.prefix_append _ _).trans hc) (List.ne_of_snoc_prefix hc).symm

/-! ### the explicit-stack iterator yields the pre-order entry list -/

/-- what a stack stands for: the entries of its trees, top first -/
def denote (st : List (Tree w V)) : List (Pfx w × V) := (st.map entries).flatten

theorem pushChild_denote (st : List (Tree w V)) (c : Tree w V) :
    denote (pushChild st c) = c.entries ++ denote st := by
  cases c <;> simp [pushChild, denote, entries]

theorem iterNext_spec (st : List (Tree w V)) :
    (iterNext st = none → denote st = []) ∧
    (∀ it st', iterNext st = some (it, st') → denote st = it.2 :: denote st') := by
  fun_induction iterNext st with
  | case1 => simp [denote]
  | case2 st ih => simpa [denote, entries] using ih
  | case3 s p x l r st =>
    refine ⟨by simp, ?_⟩
    intro it st' h
    simp only [Option.some.injEq, Prod.mk.injEq] at h
    obtain ⟨h1, h2⟩ := h
    subst h1 h2
    rw [pushChild_denote, pushChild_denote]
    simp [denote, entries]
  | case4 s p l r st ih =>
    have hd : denote (node s p none l r :: st) = denote (pushChild (pushChild st r) l) := by
      rw [pushChild_denote, pushChild_denote]; simp [denote, entries]
    rw [hd]; exact ih

theorem iterAll_eq (st : List (Tree w V)) : iterAll st = denote st := by
  unfold iterAll
  fun_induction iterAllS st with
  | case1 st h => simp [(iterNext_spec st).1 h]
  | case2 st it st' h ih => rw [(iterNext_spec st).2 it st' h]; simp [ih]

/-- a full drain of any of the iterators started at a node yields exactly that node's entries in
pre-order -/
theorem iterAll_root (t : Tree w V) : iterAll [t] = t.entries := by
  simp [iterAll_eq, denote]

/-- once exhausted the iterator keeps returning `None` (the stack stays empty) -/
theorem iterNext_nil : iterNext ([] : List (Tree w V)) = none := by
  unfold iterNext; rfl

/-- `k` calls of `next()` followed by a drain yield the same items as a drain: a clone taken after
`k` items continues exactly like the original -/
theorem iterTake_append (k : Nat) (st : List (Tree w V)) :
    (iterTake k st).1 ++ iterAll (iterTake k st).2 = iterAll st := by
  induction k generalizing st with
  | zero => simp [iterTake]
  | succ k ih =>
    unfold iterTake
    cases h : iterNext st with
    | none =>
      simp only [List.nil_append]
      rw [iterAll_eq, iterAll_eq, (iterNext_spec st).1 h]; simp [denote]
    | some x =>
      obtain ⟨it, st'⟩ := x
      simp only [List.cons_append]
      rw [ih st', iterAll_eq st, (iterNext_spec st).2 it st' h, iterAll_eq]

end Tree

namespace List
/-- two lists sorted by the same strict order with the same members are equal -/
theorem eq_of_sorted_of_mem_iff {α : Type} {lt : α → α → Prop}
    (irrefl : ∀ a, ¬ lt a a) (trans : ∀ a b c, lt a b → lt b c → lt a c) :
    ∀ (l1 l2 : List α), l1.Pairwise lt → l2.Pairwise lt → (∀ x, x ∈ l1 ↔ x ∈ l2) → l1 = l2 := by
  intro l1
  induction l1 with
  | nil =>
    intro l2 _ _ h
    cases l2 with
    | nil => rfl
    | cons y ys => exact absurd ((h y).2 (by simp)) (by simp)
  | cons x xs ih =>
    intro l2 h1 h2 h
    cases l2 with
    | nil => exact absurd ((h x).1 (by simp)) (by simp)
    | cons y ys =>
      rw [List.pairwise_cons] at h1 h2
      have hxy : x = y := by
        have hx := (h x).1 (by simp)
        have hy := (h y).2 (by simp)
        simp only [List.mem_cons] at hx hy
        rcases hx with hx | hx
        · exact hx
        · rcases hy with hy | hy
          · exact hy.symm
          · exact absurd (trans _ _ _ (h1.1 y hy) (h2.1 x hx)) (irrefl x)
      subst hxy
      congr 1
      apply ih ys h1.2 h2.2
      intro z
      have hz := h z
      simp only [List.mem_cons] at hz
      constructor
      · intro hzx
        rcases hz.1 (.inr hzx) with rfl | h'
        · exact absurd (h1.1 z hzx) (irrefl z)
        · exact h'
      · intro hzy
        rcases hz.2 (.inr hzy) with rfl | h'
        · exact absurd (h2.1 z hzy) (irrefl z)
        · exact h'
end List

namespace Tree
variable {w : Nat} {V : Type}

/-- the listing is a function of the entry *set*: two well-formed trees holding the same entries
list them identically, whatever their shapes and histories -/
theorem entries_eq_of_mem_iff {k1 k2 : List Bool} {t1 t2 : Tree w V} (h1 : WF k1 t1) (h2 : WF k2 t2)
    (h : ∀ e, e ∈ t1.entries ↔ e ∈ t2.entries) : t1.entries = t2.entries :=
  List.eq_of_sorted_of_mem_iff (lt := fun a b => Spec.keyLt a.1.net b.1.net = true)
    (fun a => by simp [Spec.keyLt_irrefl]) (fun a b c => Spec.keyLt_trans) _ _
    (entries_sorted h1) (entries_sorted h2) h

end Tree
