import PT.Lemmas.Order
import Mathlib.Data.Nat.Bitwise
/-!
# Comparing masks as integers is comparing network parts lexicographically

The set operations order disjoint subtrees by `p_a.mask() < p_b.mask()`.  For prefixes whose
network parts are incomparable (neither covers the other) this is the lexicographic order `keyLt`
of the network parts.  (Single Mathlib import: `Nat.lt_of_testBit`.)
-/
namespace List
theorem exists_first_diff : ∀ (a b : List Bool), ¬ a <+: b → ¬ b <+: a →
    ∃ c x y ra rb, a = c ++ x :: ra ∧ b = c ++ y :: rb ∧ x ≠ y := by
  intro a
  induction a with
  | nil => intro b h; exact absurd (List.nil_prefix) h
  | cons x xs ih =>
    intro b h1 h2
    cases b with
    | nil => exact absurd (List.nil_prefix) h2
    | cons y ys =>
      by_cases hxy : x = y
      · subst hxy
        have h1' : ¬ xs <+: ys := fun h => h1 ((List.prefix_cons_inj x).2 h)
        have h2' : ¬ ys <+: xs := fun h => h2 ((List.prefix_cons_inj x).2 h)
        obtain ⟨c, x', y', ra, rb, e1, e2, hne⟩ := ih ys h1' h2'
        exact ⟨x :: c, x', y', ra, rb, by simp [e1], by simp [e2], hne⟩
      · exact ⟨[], x, y, xs, ys, rfl, rfl, hxy⟩
end List

namespace Pfx
variable {w : Nat}

theorem getMsbD_eq_testBit (x : BitVec w) (i : Nat) (hi : i < w) : x.getMsbD i = x.toNat.testBit (w - 1 - i) := by
  rw [BitVec.getMsbD_eq_getLsbD]; simp [hi, BitVec.getLsbD]

theorem toNat_lt_of_first_diff (x y : BitVec w) (i : Nat) (hi : i < w)
    (hlow : ∀ j, j < i → x.getMsbD j = y.getMsbD j) (hx : x.getMsbD i = false) (hy : y.getMsbD i = true) :
    x.toNat < y.toNat := by
  apply Nat.lt_of_testBit (w - 1 - i)
  · rw [← getMsbD_eq_testBit x i hi]; exact hx
  · rw [← getMsbD_eq_testBit y i hi]; exact hy
  · intro j hj
    by_cases hjw : j < w
    · have hj' : w - 1 - j < i := by omega
      have := hlow (w - 1 - j) hj'
      rw [getMsbD_eq_testBit x _ (by omega), getMsbD_eq_testBit y _ (by omega)] at this
      have e : w - 1 - (w - 1 - j) = j := by omega
      rwa [e] at this
    · rw [Nat.testBit_lt_two_pow (Nat.lt_of_lt_of_le x.isLt (Nat.pow_le_pow_right (by omega) (by omega))),
        Nat.testBit_lt_two_pow (Nat.lt_of_lt_of_le y.isLt (Nat.pow_le_pow_right (by omega) (by omega)))]

theorem net_getElem_of_decomp {p : Pfx w} {c : List Bool} {x : Bool} {r : List Bool} (h : p.net = c ++ x :: r) :
    c.length < p.len ∧ p.repr.getMsbD c.length = x ∧ ∀ j, j < c.length → p.repr.getMsbD j = c[j]?.getD false := by
  have hl : c.length < p.len := by
    have := congrArg List.length h; simp [net_length] at this; omega
  refine ⟨hl, ?_, ?_⟩
  · have := net_getElem? p c.length
    rw [h] at this; simp [hl] at this; exact this.symm
  · intro j hj
    have := net_getElem? p j
    rw [h] at this
    have hj' : j < p.len := by omega
    simp [hj', List.getElem?_append_left hj] at this
    rw [this]; rfl

/-- for prefixes whose network parts are incomparable, `mask()` order is the lexicographic key order -/
theorem maskLt_iff_keyLt (a b : Pfx w) (h1 : ¬ a.net <+: b.net) (h2 : ¬ b.net <+: a.net) :
    Pfx.maskLt a b = true ↔ Spec.keyLt a.net b.net = true := by
  obtain ⟨c, x, y, ra, rb, ea, eb, hne⟩ := List.exists_first_diff a.net b.net h1 h2
  obtain ⟨la, xa, lowa⟩ := net_getElem_of_decomp ea
  obtain ⟨lb, xb, lowb⟩ := net_getElem_of_decomp eb
  have hw : c.length < w := Nat.lt_of_lt_of_le la a.hlen
  have hk : Spec.keyLt a.net b.net = (!x && y) := by
    rw [ea, eb, Spec.keyLt_append_left]
    simp [Spec.keyLt, hne]
  have hlow : ∀ j, j < c.length → a.mask.getMsbD j = b.mask.getMsbD j := by
    intro j hj
    rw [getMsbD_mask, getMsbD_mask, lowa j hj, lowb j hj]
    have : j < a.len := by omega
    have : j < b.len := by omega
    simp [*]
  have hma : a.mask.getMsbD c.length = x := by rw [getMsbD_mask, xa]; simp [la]
  have hmb : b.mask.getMsbD c.length = y := by rw [getMsbD_mask, xb]; simp [lb]
  rw [hk]
  unfold Pfx.maskLt
  cases x <;> cases y
  · exact absurd rfl hne
  · have := toNat_lt_of_first_diff a.mask b.mask c.length hw hlow hma hmb
    simp [this]
  · have := toNat_lt_of_first_diff b.mask a.mask c.length hw (fun j hj => (hlow j hj).symm) hmb hma
    simp; omega
  · exact absurd rfl hne

/-- keys under incomparable roots are ordered like the roots -/
theorem keyLt_of_roots {ka kb x y : List Bool} (h1 : ¬ ka <+: kb) (h2 : ¬ kb <+: ka)
    (hx : ka <+: x) (hy : kb <+: y) : Spec.keyLt x y = Spec.keyLt ka kb := by
  obtain ⟨c, a, b, ra, rb, ea, eb, hne⟩ := List.exists_first_diff ka kb h1 h2
  obtain ⟨tx, rfl⟩ := hx
  obtain ⟨ty, rfl⟩ := hy
  rw [ea, eb]
  simp only [List.append_assoc, List.cons_append, Spec.keyLt_append_left]
  simp [Spec.keyLt, hne]

end Pfx
