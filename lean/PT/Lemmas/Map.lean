import PT.Lemmas.Remove
import PT.Iter
/-!
# Map-level invariant
-/
namespace PMap
variable {w : Nat} {V : Type}
open Tree Pfx

/-- shape invariant of a map: slot 0 is the root, it carries the zero-length prefix, and the tree
below it is well-formed (`Tree.WF`): every child strictly longer than, covered by, and on the side
selected by the next bit of its parent -/
structure TreeWF (m : PMap w V) : Prop where
  root : ∃ p v l r, m.root = .node 0 p v l r ∧ p.net = []
  wf : Tree.WF [] m.root

theorem TreeWF.rootCovers {m : PMap w V} (h : m.TreeWF) (q : Pfx w) : RootCovers m.root q := by
  obtain ⟨p, v, l, r, hr, hp⟩ := h.root
  rw [hr]; exact RootCovers.node (hp ▸ List.nil_prefix)

theorem TreeWF.root_ne_nil {m : PMap w V} (h : m.TreeWF) : m.root ≠ .nil := by
  obtain ⟨p, v, l, r, hr, _⟩ := h.root
  rw [hr]; simp

theorem TreeWF.root_pfx {m : PMap w V} (h : m.TreeWF) : ∀ p, m.root.pfx? = some p → p.net = [] := by
  obtain ⟨p, v, l, r, hr, hp⟩ := h.root
  intro p' hp'; rw [hr] at hp'; simp [pfx?] at hp'; subst hp'; exact hp

theorem empty_treeWF : (empty : PMap w V).TreeWF :=
  ⟨⟨Pfx.zero, none, .nil, .nil, rfl, Pfx.zero_net⟩, ⟨by simp [Pfx.zero_net], trivial, trivial⟩⟩

theorem empty_entries : (empty : PMap w V).entries = [] := rfl

end PMap

namespace Tree
variable {w : Nat} {V : Type}
open Pfx

/-- `insert` never replaces the root node: it stays in its slot, with the same key -/
theorem insert_root (s : Nat) (p : Pfx w) (v : Option V) (l r : Tree w V) (q : Pfx w) (x : V) (s1 s2 : Nat) :
    ∃ p' v' l' r', (insert (node s p v l r) q x s1 s2).t = node s p' v' l' r' ∧ p'.net = p.net := by
  unfold insert
  split
  · next hd => exact ⟨q, _, l, r, rfl, (dirIns_reached hd).symm⟩
  · exact ⟨p, v, l, _, rfl, rfl⟩
  · exact ⟨p, v, _, r, rfl, rfl⟩
  · next b _ => cases b <;> exact ⟨p, v, _, _, rfl, rfl⟩
  · next b _ _ => cases b <;> exact ⟨p, v, _, _, rfl, rfl⟩
  · next _ b _ _ => cases b <;> exact ⟨p, v, _, _, rfl, rfl⟩

/-- `remove` with `hasPar = false` (the map's root) never replaces the root node -/
theorem remove_root (s : Nat) (p : Pfx w) (v : Option V) (l r : Tree w V) (q : Pfx w) :
    ∃ v' l' r', (remove (node s p v l r) q false).t = node s p v' l' r' := by
  unfold remove
  split
  · unfold removeHere; cases l <;> cases r <;> exact ⟨_, _, _, rfl⟩
  · unfold afterChild; simp
  · unfold afterChild; simp
  · exact ⟨_, _, _, rfl⟩

theorem takeValue_root (s : Nat) (p : Pfx w) (v : Option V) (l r : Tree w V) (q : Pfx w) :
    ∃ v' l' r', takeValue (node s p v l r) q = node s p v' l' r' := by
  unfold takeValue
  split <;> exact ⟨_, _, _, rfl⟩

theorem modifyValue_root (s : Nat) (p : Pfx w) (v : Option V) (l r : Tree w V) (q : Pfx w) (f : V → V) :
    ∃ v' l' r', modifyValue (node s p v l r) q f = node s p v' l' r' := by
  unfold modifyValue
  split <;> exact ⟨_, _, _, rfl⟩

end Tree

namespace PMap
variable {w : Nat} {V : Type}
open Tree Pfx

theorem insert_treeWF {m : PMap w V} (h : m.TreeWF) (q : Pfx w) (x : V) : (m.insert q x).1.TreeWF := by
  obtain ⟨p, v, l, r, hr, hp⟩ := h.root
  refine ⟨?_, ?_⟩
  · obtain ⟨p', v', l', r', he, hp'⟩ := insert_root 0 p v l r q x (nextSlot m.free m.alloc) (secondSlot m.free m.alloc)
    exact ⟨p', v', l', r', by simp only [insert, withIns, insertRes, hr, he], hp'.trans hp⟩
  · exact insert_wf h.wf q x _ _ (h.rootCovers q)

theorem remove_treeWF {m : PMap w V} (h : m.TreeWF) (q : Pfx w) : (m.remove q).1.TreeWF := by
  obtain ⟨p, v, l, r, hr, hp⟩ := h.root
  refine ⟨?_, ?_⟩
  · obtain ⟨v', l', r', he⟩ := remove_root 0 p v l r q
    exact ⟨p, v', l', r', by simp only [remove, withRem, hr, he], hp⟩
  · exact remove_wf h.wf q false

theorem removeKeepTree_treeWF {m : PMap w V} (h : m.TreeWF) (q : Pfx w) : (m.removeKeepTree q).1.TreeWF := by
  obtain ⟨p, v, l, r, hr, hp⟩ := h.root
  refine ⟨?_, ?_⟩
  · obtain ⟨v', l', r', he⟩ := takeValue_root 0 p v l r q
    exact ⟨p, v', l', r', by simp only [removeKeepTree, hr, he], hp⟩
  · exact takeValue_wf h.wf q

theorem modify_treeWF {m : PMap w V} (h : m.TreeWF) (q : Pfx w) (f : V → V) : (m.modify q f).TreeWF := by
  obtain ⟨p, v, l, r, hr, hp⟩ := h.root
  refine ⟨?_, ?_⟩
  · obtain ⟨v', l', r', he⟩ := modifyValue_root 0 p v l r q f
    exact ⟨p, v', l', r', by simp only [modify, hr, he], hp⟩
  · exact modifyValue_wf h.wf q f

end PMap
