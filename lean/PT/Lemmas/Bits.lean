import PT.Bits
/-!
# Laws of the prefix algebra, through the network part `net`

All lemmas are for every width `w` and every (valid, by construction) prefix, host bits arbitrary.
-/
namespace Pfx
variable {w : Nat}

theorem net_length (p : Pfx w) : p.net.length = p.len := by simp [net]

theorem net_getElem? (p : Pfx w) (i : Nat) :
    p.net[i]? = if i < p.len then some (p.repr.getMsbD i) else none := by
  unfold net
  by_cases h : i < p.len <;> simp [h]

theorem getMsbD_maskFromLen (l i : Nat) (hl : l ≤ w) :
    (maskFromLen w l).getMsbD i = (decide (i < l) && decide (i < w)) := by
  unfold maskFromLen
  split
  · subst_vars; simp
  · split
    · subst_vars; simp
    · simp [BitVec.getMsbD_ushiftRight]
      by_cases h : i < w <;> by_cases h2 : i < l <;> simp [h, h2] <;> omega

theorem getMsbD_mask (p : Pfx w) (i : Nat) :
    p.mask.getMsbD i = (p.repr.getMsbD i && decide (i < p.len)) := by
  unfold mask
  rw [BitVec.getMsbD_and, getMsbD_maskFromLen _ _ p.hlen]
  by_cases h : i < w
  · simp [h]
  · have : p.repr.getMsbD i = false := by simp [BitVec.getMsbD, h]
    simp [this]

/-- prefix-of on network parts, pointwise -/
theorem net_isPrefix_iff (a b : Pfx w) :
    a.net <+: b.net ↔ a.len ≤ b.len ∧ ∀ i, i < a.len → a.repr.getMsbD i = b.repr.getMsbD i := by
  constructor
  · intro h
    have hl := h.length_le
    simp [net_length] at hl
    refine ⟨hl, fun i hi => ?_⟩
    have := List.IsPrefix.getElem h (i := i) (by simpa [net_length] using hi)
    simpa [net] using this
  · rintro ⟨hl, h⟩
    rw [List.prefix_iff_eq_take]
    apply List.ext_getElem
    · simp [net_length]; omega
    · intro i h1 h2
      simp [net] at h1 ⊢
      exact h i (by omega)

theorem net_eq_iff (a b : Pfx w) :
    a.net = b.net ↔ a.len = b.len ∧ ∀ i, i < a.len → a.repr.getMsbD i = b.repr.getMsbD i := by
  constructor
  · intro h
    have h1 : a.net <+: b.net := h ▸ List.prefix_refl _
    have hl : a.len = b.len := by rw [← net_length a, ← net_length b, h]
    exact ⟨hl, ((net_isPrefix_iff a b).1 h1).2⟩
  · rintro ⟨hl, h⟩
    have h1 : a.net <+: b.net := (net_isPrefix_iff a b).2 ⟨by omega, h⟩
    exact h1.eq_of_length (by simp [net_length, hl])

/-- `contains` is exactly bitwise coverage of the network parts -/
theorem contains_iff (a b : Pfx w) : a.contains b = true ↔ a.net <+: b.net := by
  rw [net_isPrefix_iff]
  unfold contains
  have ha := a.hlen
  by_cases hlen : a.len > b.len
  · simp [hlen]; omega
  · simp only [hlen, ite_false, beq_iff_eq]
    constructor
    · intro h
      refine ⟨by omega, fun i hi => ?_⟩
      have := congrArg (fun x => x.getMsbD i) h
      simp only [BitVec.getMsbD_and, getMsbD_maskFromLen _ _ ha, getMsbD_mask] at this
      have hiw : i < w := by omega
      simp [hi, hiw] at this
      exact this.symm
    · rintro ⟨_, h⟩
      apply BitVec.eq_of_getMsbD_eq
      intro i hi
      simp only [BitVec.getMsbD_and, getMsbD_maskFromLen _ _ ha, getMsbD_mask]
      by_cases h2 : i < a.len
      · simp [h2, hi, h i h2]
      · simp [h2]

theorem mask_eq_iff (a b : Pfx w) (hl : a.len = b.len) :
    a.mask = b.mask ↔ ∀ i, i < a.len → a.repr.getMsbD i = b.repr.getMsbD i := by
  constructor
  · intro h i hi
    have := congrArg (fun x => x.getMsbD i) h
    simp only [getMsbD_mask] at this
    simpa [hi, hl ▸ hi] using this
  · intro h
    apply BitVec.eq_of_getMsbD_eq
    intro i _
    simp only [getMsbD_mask]
    by_cases h2 : i < a.len
    · simp [h2, hl ▸ h2, h i h2]
    · simp [h2, hl ▸ h2]

/-- `eq` compares network part and length only -/
theorem eqv_iff (a b : Pfx w) : a.eqv b = true ↔ a.net = b.net := by
  rw [net_eq_iff]
  unfold eqv
  simp only [Bool.and_eq_true, beq_iff_eq]
  constructor
  · rintro ⟨hm, hl⟩
    exact ⟨hl, (mask_eq_iff a b hl).1 hm⟩
  · rintro ⟨hl, h⟩
    exact ⟨(mask_eq_iff a b hl).2 h, hl⟩

theorem getMsbD_onesShr (n i : Nat) :
    (onesShr w n).getMsbD i = (decide (n ≤ i) && decide (i < w)) := by
  unfold onesShr
  split
  · simp [BitVec.getMsbD_ushiftRight]
    by_cases h : i < w <;> by_cases h2 : n ≤ i <;> simp [h, h2] <;> omega
  · by_cases h : i < w <;> by_cases h2 : n ≤ i <;> simp [h, h2] <;> omega

theorem ne_zero_iff (x : BitVec w) : (x != 0#w) = true ↔ ∃ i, i < w ∧ x.getMsbD i = true := by
  constructor
  · intro h
    apply Classical.byContradiction
    intro hn
    have : x = 0#w := by
      apply BitVec.eq_of_getMsbD_eq
      intro i hi
      have := fun hx => hn ⟨i, hi, hx⟩
      simpa using this
    simp [this] at h
  · rintro ⟨i, _, hx⟩
    simp only [bne_iff_ne, ne_eq]
    intro h
    simp [h] at hx

/-- `is_bit_set(i)` is the `i`-th leading bit of the network part, `false` for `i ≥ len`,
for every index (no shift overflows: `checked_shr`) -/
theorem isBitSet_eq (p : Pfx w) (i : Nat) : p.isBitSet i = (p.net[i]?).getD false := by
  rw [net_getElem?]
  have key : ∀ j, ((onesShr w i ^^^ onesShr w (i + 1)) &&& p.mask).getMsbD j =
      (decide (j = i) && decide (j < w) && (p.repr.getMsbD j && decide (j < p.len))) := by
    intro j
    simp only [BitVec.getMsbD_and, BitVec.getMsbD_xor, getMsbD_onesShr, getMsbD_mask]
    by_cases h1 : j = i
    · subst h1
      by_cases h2 : j < w <;> simp [h2]
    · by_cases h3 : i ≤ j
      · have h4 : i + 1 ≤ j := by omega
        simp [h1, h3, h4]
      · have h4 : ¬ i + 1 ≤ j := by omega
        simp [h1, h3, h4]
  unfold isBitSet
  by_cases hi : i < p.len
  · simp only [hi, ite_true, Option.getD_some]
    cases hb : p.repr.getMsbD i
    · rw [Bool.eq_false_iff]
      intro h
      obtain ⟨j, hj, hx⟩ := (ne_zero_iff _).1 h
      rw [key] at hx
      simp at hx
      obtain ⟨⟨rfl, _⟩, h5, _⟩ := hx
      simp [hb] at h5
    · rw [ne_zero_iff]
      have hw := p.hlen
      exact ⟨i, by omega, by rw [key]; simp [hb, hi]; omega⟩
  · simp only [hi, ite_false, Option.getD_none]
    rw [Bool.eq_false_iff]
    intro h
    obtain ⟨j, hj, hx⟩ := (ne_zero_iff _).1 h
    rw [key] at hx
    simp at hx
    obtain ⟨⟨rfl, _⟩, _, h6⟩ := hx
    exact hi h6

theorem zero_net : (zero : Pfx w).net = [] := by simp [zero, net]
theorem zero_len : (zero : Pfx w).len = 0 := rfl

theorem fromReprLen_len (r : BitVec w) (l : Nat) (h : l ≤ w) : (fromReprLen r l h).len = l := rfl
theorem fromReprLen_net (r : BitVec w) (l : Nat) (h : l ≤ w) :
    (fromReprLen r l h).net = (List.range l).map (fun i => r.getMsbD i) := rfl

/-! ### `leading_zeros` and the longest common prefix -/

theorem leadingZeros_le (x : BitVec w) : leadingZeros x ≤ w := by
  unfold leadingZeros
  have := @List.findIdx_le_length _ (fun i => x.getMsbD i) (List.range w)
  simpa using this

theorem getMsbD_of_lt_leadingZeros (x : BitVec w) (i : Nat) (h : i < leadingZeros x) :
    x.getMsbD i = false := by
  unfold leadingZeros at h
  have hl := @List.findIdx_le_length _ (fun i => x.getMsbD i) (List.range w)
  have := List.not_of_lt_findIdx h
  simpa using this

theorem getMsbD_leadingZeros (x : BitVec w) (h : leadingZeros x < w) :
    x.getMsbD (leadingZeros x) = true := by
  unfold leadingZeros at h ⊢
  have h' : (List.range w).findIdx (fun i => x.getMsbD i) < (List.range w).length := by simpa using h
  have := @List.findIdx_getElem _ (fun i => x.getMsbD i) (List.range w) h'
  simpa using this

theorem lcpLen_le_left (a b : Pfx w) : lcpLen a b ≤ a.len := by unfold lcpLen; omega
theorem lcpLen_le_right (a b : Pfx w) : lcpLen a b ≤ b.len := by unfold lcpLen; omega

theorem lcp_len (a b : Pfx w) : (a.lcp b).len = lcpLen a b := rfl

/-- below the common length the two representations agree -/
theorem lcp_agree (a b : Pfx w) (i : Nat) (h : i < lcpLen a b) :
    a.repr.getMsbD i = b.repr.getMsbD i := by
  have h1 : i < leadingZeros (a.mask ^^^ b.mask) := by unfold lcpLen at h; omega
  have h2 : i < a.len := by unfold lcpLen at h; omega
  have h3 : i < b.len := by unfold lcpLen at h; omega
  have := getMsbD_of_lt_leadingZeros _ _ h1
  simp only [BitVec.getMsbD_xor, getMsbD_mask, h2, h3] at this
  simpa using this

theorem lcp_getMsbD (a b : Pfx w) (i : Nat) (h : i < lcpLen a b) :
    (a.lcp b).repr.getMsbD i = a.repr.getMsbD i := by
  have h2 : i < a.len := by unfold lcpLen at h; omega
  have hw := a.hlen
  simp only [lcp, BitVec.getMsbD_and, getMsbD_mask, getMsbD_maskFromLen _ _ (Nat.le_trans (lcpLen_le_left a b) a.hlen)]
  simp [h, h2]; omega

/-- the result covers the first argument … -/
theorem lcp_prefix_left (a b : Pfx w) : (a.lcp b).net <+: a.net := by
  rw [net_isPrefix_iff]
  exact ⟨lcpLen_le_left a b, fun i hi => lcp_getMsbD a b i hi⟩

/-- … and the second -/
theorem lcp_prefix_right (a b : Pfx w) : (a.lcp b).net <+: b.net := by
  rw [net_isPrefix_iff]
  exact ⟨lcpLen_le_right a b, fun i hi => (lcp_getMsbD a b i hi).trans (lcp_agree a b i hi)⟩

/-- host part of the result is zero -/
theorem lcp_host_zero (a b : Pfx w) (i : Nat) (h : lcpLen a b ≤ i) : (a.lcp b).repr.getMsbD i = false := by
  simp only [lcp, BitVec.getMsbD_and, getMsbD_maskFromLen _ _ (Nat.le_trans (lcpLen_le_left a b) a.hlen)]
  have : ¬ i < lcpLen a b := by omega
  simp [this]

/-- it is the *longest* common prefix: every common prefix of the two network parts is a prefix
of the result's (so its length is min(len a, len b, number of equal leading bits)) -/
theorem lcp_max (a b : Pfx w) (k : List Bool) (ha : k <+: a.net) (hb : k <+: b.net) :
    k <+: (a.lcp b).net := by
  have hka : k.length ≤ a.len := by simpa [net_length] using ha.length_le
  have hkb : k.length ≤ b.len := by simpa [net_length] using hb.length_le
  -- all bits below k.length agree, hence k.length ≤ leading zeros of the xor
  have hagree : ∀ i, i < k.length → a.repr.getMsbD i = b.repr.getMsbD i := by
    intro i hi
    have e1 := List.IsPrefix.getElem ha (i := i) hi
    have e2 := List.IsPrefix.getElem hb (i := i) hi
    simp only [net, List.getElem_map, List.getElem_range] at e1 e2
    rw [← e1, ← e2]
  have hlz : k.length ≤ leadingZeros (a.mask ^^^ b.mask) := by
    apply Classical.byContradiction
    intro hn
    have hlt : leadingZeros (a.mask ^^^ b.mask) < k.length := by omega
    have hw : leadingZeros (a.mask ^^^ b.mask) < w := by have := a.hlen; omega
    have h1 := getMsbD_leadingZeros _ hw
    have h2 : leadingZeros (a.mask ^^^ b.mask) < a.len := by omega
    have h3 : leadingZeros (a.mask ^^^ b.mask) < b.len := by omega
    simp only [BitVec.getMsbD_xor, getMsbD_mask, h2, h3] at h1
    have := hagree _ hlt
    simp [this] at h1
  have hlen : k.length ≤ lcpLen a b := by unfold lcpLen; omega
  -- k = take k.length (net a) and net (lcp) agrees with net a below lcpLen
  have hpl := lcp_prefix_left a b
  have : k <+: a.net ∧ (a.lcp b).net <+: a.net := ⟨ha, hpl⟩
  exact List.prefix_of_prefix_length_le ha hpl (by simpa [net_length, lcp_len] using hlen)

theorem lcp_net_comm (a b : Pfx w) : (a.lcp b).net = (b.lcp a).net := by
  have h1 := lcp_max b a _ (lcp_prefix_right a b) (lcp_prefix_left a b)
  have h2 := lcp_max a b _ (lcp_prefix_right b a) (lcp_prefix_left b a)
  exact h1.eq_of_length_le h2.length_le

end Pfx
