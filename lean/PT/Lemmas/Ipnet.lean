import PT.Lemmas.MaskOrder
/-!
# The `Ipv4Net` / `Ipv6Net` overrides agree with the generic definitions

`contains` is overridden by the range comparison of the `ipnet` crate
(`network() <= other.network() && other.broadcast() <= broadcast()`), `longest_common_prefix` by a
copy that XORs the un-masked representations.
-/
namespace Pfx
variable {w : Nat}

/-- the first index below `n` satisfying `P` -/
theorem exists_first (P : Nat → Prop) (n : Nat) (h : ∃ i, i < n ∧ P i) :
    ∃ i, i < n ∧ P i ∧ ∀ j, j < i → ¬ P j := by
  induction n with
  | zero => obtain ⟨i, hi, _⟩ := h; omega
  | succ n ih =>
    by_cases h' : ∃ i, i < n ∧ P i
    · obtain ⟨i, hi, hp, hmin⟩ := ih h'
      exact ⟨i, by omega, hp, hmin⟩
    · obtain ⟨i, hi, hp⟩ := h
      have : i = n := by
        rcases Nat.lt_or_ge i n with hlt | hge
        · exact absurd ⟨i, hlt, hp⟩ h'
        · omega
      subst this
      exact ⟨i, hi, hp, fun j hj hpj => h' ⟨j, hj, hpj⟩⟩

theorem getMsbD_ge (x : BitVec w) (i : Nat) (h : w ≤ i) : x.getMsbD i = false := by
  simp [BitVec.getMsbD]; omega

/-- unsigned comparison from the bits: `x ≤ y` if at the first differing bit `x` has 0 -/
theorem toNat_le_of_bits (x y : BitVec w)
    (h : ∀ i, i < w → (∀ j, j < i → x.getMsbD j = y.getMsbD j) → x.getMsbD i = true → y.getMsbD i = true) :
    x.toNat ≤ y.toNat := by
  by_cases hd : ∃ i, i < w ∧ x.getMsbD i ≠ y.getMsbD i
  · obtain ⟨i, hi, hne, hmin⟩ := exists_first _ w hd
    have hlow : ∀ j, j < i → x.getMsbD j = y.getMsbD j := fun j hj => Classical.not_not.1 (hmin j hj)
    cases hx : x.getMsbD i with
    | false =>
      have hy : y.getMsbD i = true := by
        cases hy : y.getMsbD i with
        | true => rfl
        | false => rw [hx, hy] at hne; exact absurd rfl hne
      exact Nat.le_of_lt (Pfx.toNat_lt_of_first_diff x y i hi hlow hx hy)
    | true =>
      have := h i hi hlow hx
      rw [hx, this] at hne; exact absurd rfl hne
  · have : x = y := by
      apply BitVec.eq_of_getMsbD_eq
      intro i hi
      exact Classical.not_not.1 (fun hne => hd ⟨i, hi, hne⟩)
    rw [this]

theorem getMsbD_ipnetMask (p : Pfx w) (i : Nat) :
    p.ipnetMask.getMsbD i = (p.repr.getMsbD i && decide (i < p.len)) := getMsbD_mask p i

theorem getMsbD_ipnetBroadcast (p : Pfx w) (i : Nat) (hi : i < w) :
    p.ipnetBroadcast.getMsbD i = (p.repr.getMsbD i || !decide (i < p.len)) := by
  unfold ipnetBroadcast
  rw [BitVec.getMsbD_or, BitVec.getMsbD_not, getMsbD_maskFromLen _ _ p.hlen]
  simp [hi]

/-- **the `ipnet` range containment is the generic bitwise containment** -/
theorem ipnetContains_eq (a b : Pfx w) : a.ipnetContains b = a.contains b := by
  rw [Bool.eq_iff_iff, contains_iff, net_isPrefix_iff]
  unfold ipnetContains
  simp only [Bool.and_eq_true, decide_eq_true_eq]
  constructor
  · rintro ⟨hN, hB⟩
    -- the bits agree below min(la, lb)
    have agree : ∀ i, i < min a.len b.len → a.repr.getMsbD i = b.repr.getMsbD i := by
      intro i hi
      refine Classical.byContradiction (fun hne0 => ?_)
      have hex : ∃ i, i < min a.len b.len ∧ a.repr.getMsbD i ≠ b.repr.getMsbD i := ⟨i, hi, hne0⟩
      obtain ⟨k, hk, hne, hmin⟩ := exists_first _ _ hex
      have hkw : k < w := by have := a.hlen; omega
      have hlow : ∀ j, j < k → a.repr.getMsbD j = b.repr.getMsbD j := fun j hj => Classical.not_not.1 (hmin j hj)
      cases ha : a.repr.getMsbD k with
      | true =>
        have hb : b.repr.getMsbD k = false := by
          cases hb : b.repr.getMsbD k with
          | false => rfl
          | true => rw [ha, hb] at hne; exact absurd rfl hne
        -- network(b) < network(a)
        have : b.ipnetMask.toNat < a.ipnetMask.toNat := by
          apply Pfx.toNat_lt_of_first_diff _ _ k hkw
          · intro j hj
            rw [getMsbD_ipnetMask, getMsbD_ipnetMask, hlow j hj]
            have h1 : j < a.len := by omega
            have h2 : j < b.len := by omega
            simp [h1, h2]
          · rw [getMsbD_ipnetMask, hb]; rfl
          · rw [getMsbD_ipnetMask, ha]; have : k < a.len := by omega
            simp [this]
        omega
      | false =>
        have hb : b.repr.getMsbD k = true := by
          cases hb : b.repr.getMsbD k with
          | true => rfl
          | false => rw [ha, hb] at hne; exact absurd rfl hne
        have : a.ipnetBroadcast.toNat < b.ipnetBroadcast.toNat := by
          apply Pfx.toNat_lt_of_first_diff _ _ k hkw
          · intro j hj
            rw [getMsbD_ipnetBroadcast _ _ (by omega), getMsbD_ipnetBroadcast _ _ (by omega), hlow j hj]
            have h1 : j < a.len := by omega
            have h2 : j < b.len := by omega
            simp [h1, h2]
          · rw [getMsbD_ipnetBroadcast _ _ hkw, ha]; have : k < a.len := by omega
            simp [this]
          · rw [getMsbD_ipnetBroadcast _ _ hkw, hb]; rfl
        omega
    have hlen : a.len ≤ b.len := by
      refine Nat.le_of_not_lt (fun hlt => ?_)
      -- b is shorter: look at bit `b.len`
      have hkw : b.len < w := by have := a.hlen; omega
      have hlow : ∀ j, j < b.len → a.repr.getMsbD j = b.repr.getMsbD j := fun j hj => agree j (by omega)
      cases ha : a.repr.getMsbD b.len with
      | true =>
        have : b.ipnetMask.toNat < a.ipnetMask.toNat := by
          apply Pfx.toNat_lt_of_first_diff _ _ b.len hkw
          · intro j hj
            rw [getMsbD_ipnetMask, getMsbD_ipnetMask, hlow j hj]
            have h1 : j < a.len := by omega
            simp [h1, hj]
          · rw [getMsbD_ipnetMask]; simp
          · rw [getMsbD_ipnetMask, ha]; simp [hlt]
        omega
      | false =>
        have : a.ipnetBroadcast.toNat < b.ipnetBroadcast.toNat := by
          apply Pfx.toNat_lt_of_first_diff _ _ b.len hkw
          · intro j hj
            rw [getMsbD_ipnetBroadcast _ _ (by omega), getMsbD_ipnetBroadcast _ _ (by omega), hlow j hj]
            have h1 : j < a.len := by omega
            simp [h1, hj]
          · rw [getMsbD_ipnetBroadcast _ _ hkw, ha]; simp [hlt]
          · rw [getMsbD_ipnetBroadcast _ _ hkw]; simp
        omega
    exact ⟨hlen, fun i hi => agree i (by omega)⟩
  · rintro ⟨hlen, hag⟩
    constructor
    · apply toNat_le_of_bits
      intro i hi _ hx
      rw [getMsbD_ipnetMask] at hx ⊢
      simp only [Bool.and_eq_true, decide_eq_true_eq] at hx ⊢
      exact ⟨(hag i hx.2) ▸ hx.1, by omega⟩
    · apply toNat_le_of_bits
      intro i hi _ hx
      rw [getMsbD_ipnetBroadcast _ _ hi] at hx ⊢
      simp only [Bool.or_eq_true, Bool.not_eq_true', decide_eq_false_iff_not] at hx ⊢
      rcases hx with hx | hx
      · by_cases hia : i < a.len
        · exact .inl ((hag i hia).symm ▸ hx)
        · exact .inr hia
      · exact .inr (by omega)

/-- `min (leading_zeros x) m` only looks at the first `m` bits -/
theorem min_leadingZeros_congr (x y : BitVec w) (m : Nat) (hm : m ≤ w)
    (h : ∀ i, i < m → x.getMsbD i = y.getMsbD i) : min (leadingZeros x) m = min (leadingZeros y) m := by
  have key : ∀ (x y : BitVec w), (∀ i, i < m → x.getMsbD i = y.getMsbD i) → leadingZeros x < m →
      leadingZeros y = leadingZeros x := by
    intro x y h hx
    have hxw : leadingZeros x < w := by omega
    have hbit := getMsbD_leadingZeros x hxw
    rw [h _ hx] at hbit
    have h1 : leadingZeros y ≤ leadingZeros x := by
      refine Nat.le_of_not_lt (fun hlt => ?_)
      have := getMsbD_of_lt_leadingZeros y _ hlt
      rw [this] at hbit; cases hbit
    have h2 : leadingZeros x ≤ leadingZeros y := by
      refine Nat.le_of_not_lt (fun hlt => ?_)
      have hyw : leadingZeros y < w := by omega
      have hy := getMsbD_leadingZeros y hyw
      rw [← h _ (by omega)] at hy
      have := getMsbD_of_lt_leadingZeros x _ hlt
      rw [this] at hy; cases hy
    omega
  rcases Nat.lt_or_ge (leadingZeros x) m with hx | hx
  · rw [key x y h hx]
  · rcases Nat.lt_or_ge (leadingZeros y) m with hy | hy
    · rw [key y x (fun i hi => (h i hi).symm) hy]
    · omega

theorem ipnetLcpLen_eq (a b : Pfx w) : ipnetLcpLen a b = lcpLen a b := by
  unfold ipnetLcpLen lcpLen
  have hm : min a.len b.len ≤ w := by have := a.hlen; omega
  have := min_leadingZeros_congr (a.repr ^^^ b.repr) (a.mask ^^^ b.mask) (min a.len b.len) hm (by
    intro i hi
    rw [BitVec.getMsbD_xor, BitVec.getMsbD_xor, getMsbD_mask, getMsbD_mask]
    have h1 : i < a.len := by omega
    have h2 : i < b.len := by omega
    simp [h1, h2])
  omega

/-- **the `ipnet` copy of `longest_common_prefix` computes the generic one** -/
theorem ipnetLcp_eq (a b : Pfx w) : a.ipnetLcp b = a.lcp b := by
  have hl := ipnetLcpLen_eq a b
  unfold ipnetLcp lcp
  have hr : a.repr &&& maskFromLen w (ipnetLcpLen a b) = a.mask &&& maskFromLen w (lcpLen a b) := by
    rw [hl]
    apply BitVec.eq_of_getMsbD_eq
    intro i hi
    have hle : lcpLen a b ≤ w := Nat.le_trans (lcpLen_le_left a b) a.hlen
    rw [BitVec.getMsbD_and, BitVec.getMsbD_and, getMsbD_mask, getMsbD_maskFromLen _ _ hle]
    have := lcpLen_le_left a b
    by_cases h1 : i < lcpLen a b
    · have h2 : i < a.len := by omega
      simp [h1, h2, hi]
    · simp [h1]
  cases a with
  | mk ra la ha =>
    cases b with
    | mk rb lb hb =>
      simp only [] at hr hl ⊢
      congr 1
