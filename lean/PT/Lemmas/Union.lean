import PT.Lemmas.UnionSpec
import PT.Lemmas.MaskOrder
/-!
# `union` / `union_mut`: the index machine yields the sorted merge, with true LPM annotations
-/
namespace SetOps
variable {w : Nat} {L R : Type}
open Tree Pfx

def uL : UIdx w L R → Tree w L
  | .both l _ => l
  | .firstL l _ => l
  | .firstR l _ => l
  | .onlyL l => l
  | .onlyR _ => .nil

def uR : UIdx w L R → Tree w R
  | .both _ r => r
  | .firstL _ r => r
  | .firstR _ r => r
  | .onlyL _ => .nil
  | .onlyR r => r

def uSem (e : UEntry w L R) : List (UV w L R) :=
  unionS (annOf (uR e.1).slotEntries e.2.2) (annOf (uL e.1).slotEntries e.2.1)
    (uL e.1).slotEntries (uR e.1).slotEntries

def uNu (e : UEntry w L R) : Nat := (uL e.1).size + (uR e.1).size

def uOk (e : UEntry w L R) : Prop :=
  HasWF (uL e.1) ∧ HasWF (uR e.1) ∧
  match e.1 with
  | .both l r => l ≠ .nil ∧ r ≠ .nil ∧ rootNet l = rootNet r ∧ orLpm l e.2.1 = e.2.1 ∧ orLpm r e.2.2 = e.2.2
  | .firstL l r => l ≠ .nil ∧ r ≠ .nil ∧ rootNet l <+: rootNet r ∧ rootNet l ≠ rootNet r ∧ orLpm l e.2.1 = e.2.1
  | .firstR l r => l ≠ .nil ∧ r ≠ .nil ∧ rootNet r <+: rootNet l ∧ rootNet l ≠ rootNet r ∧ orLpm r e.2.2 = e.2.2
  | .onlyL l => l ≠ .nil
  | .onlyR r => r ≠ .nil

/-- the root value of a node is already a covering entry for everything under the node, so folding
it into the inherited annotation changes nothing there -/
theorem ann_fold_absorb {T : Type} {s : Nat} {pr : Pfx w} {v : Option T} {l r : Tree w T} (ann : Lpm w T)
    {p : Pfx w} (hp : pr.net <+: p.net) :
    annOf (Tree.node s pr v l r).slotEntries (orLpm (Tree.node s pr v l r) ann) p =
      annOf (Tree.node s pr v l r).slotEntries ann p := by
  unfold annOf
  cases v with
  | none => rfl
  | some y =>
    have hmem : (s, pr, y) ∈ coverK (Tree.node s pr (some y) l r).slotEntries p :=
      List.mem_filter.2 ⟨by simp [slotEntries], (Pfx.contains_iff pr p).2 hp⟩
    unfold lpmK
    cases hg : (coverK (Tree.node s pr (some y) l r).slotEntries p).getLast? with
    | none => rw [List.getLast?_eq_none_iff] at hg; rw [hg] at hmem; simp at hmem
    | some b => rfl

theorem annOf_nil {T : Type} (ann : Lpm w T) (p : Pfx w) : annOf ([] : KL w T) ann p = ann := rfl

theorem annOf_of_cover_nil {T : Type} {B : KL w T} (ann : Lpm w T) {p : Pfx w} (h : coverK B p = []) :
    annOf B ann p = ann := by
  unfold annOf; rw [lpmK_of_cover_nil h]; rfl

/-- below a node on side `c`, with the node's own value folded into the inherited annotation -/
theorem annOf_side {T : Type} {s : Nat} {pr : Pfx w} {v : Option T} {l r : Tree w T} (h : HasWF (.node s pr v l r))
    (c : Bool) {p : Pfx w} (hp : pr.net ++ [c] <+: p.net) {ann : Lpm w T}
    (hfold : orLpm (Tree.node s pr v l r) ann = ann) :
    annOf (Tree.node s pr v l r).slotEntries ann p = annOf (child l r c).slotEntries ann p := by
  unfold annOf
  have := lpmK_side (R := T) h c hp
  rw [this, orE_assoc]
  have e : orE (ownLpm (Tree.node s pr v l r)) ann = ann := by rw [← orLpm_eq]; exact hfold
  rw [e]

theorem orLpm_idem' {T : Type} (t : Tree w T) (ann : Lpm w T) : orLpm t (orLpm t ann) = orLpm t ann :=
  orLpm_idem t ann

/-! ### key order between regions -/

theorem sep_of_lt {A1 : KL w L} {B1 : KL w R} {A2 : KL w L} {B2 : KL w R} {k1 k2 : List Bool}
    (hA1 : Under k1 A1) (hB1 : Under k1 B1) (hA2 : Under k2 A2) (hB2 : Under k2 B2)
    (h : ∀ x y : List Bool, k1 <+: x → k2 <+: y → Spec.keyLt x y = true) : Sep A1 B1 A2 B2 :=
  ⟨fun x hx y hy => h _ _ (hA1 x hx) (hA2 y hy), fun x hx y hy => h _ _ (hA1 x hx) (hB2 y hy),
   fun x hx y hy => h _ _ (hB1 x hx) (hA2 y hy), fun x hx y hy => h _ _ (hB1 x hx) (hB2 y hy)⟩

/-- a list all of whose keys are exactly `k` -/
def AllKey (k : List Bool) {T : Type} (A : KL w T) : Prop := ∀ x ∈ A, keyOf x = k

theorem allKey_ownS {T : Type} (s : Nat) (p : Pfx w) (v : Option T) : AllKey p.net (ownS s p v) :=
  fun _ hx => mem_ownS hx

theorem sep_own {A1 : KL w L} {B1 : KL w R} {A2 : KL w L} {B2 : KL w R} {k : List Bool}
    (hA1 : AllKey k A1) (hB1 : AllKey k B1)
    (hA2 : ∀ x ∈ A2, ∃ c, k ++ [c] <+: keyOf x) (hB2 : ∀ x ∈ B2, ∃ c, k ++ [c] <+: keyOf x) : Sep A1 B1 A2 B2 := by
  have key : ∀ {x y : List Bool}, x = k → (∃ c, k ++ [c] <+: y) → Spec.keyLt x y = true := by
    rintro x y rfl ⟨c, hc⟩
    exact Spec.keyLt_of_proper_prefix ((List.prefix_append _ _).trans hc) (List.ne_of_snoc_prefix hc).symm
  exact ⟨fun x hx y hy => key (hA1 x hx) (hA2 y hy), fun x hx y hy => key (hA1 x hx) (hB2 y hy),
    fun x hx y hy => key (hB1 x hx) (hA2 y hy), fun x hx y hy => key (hB1 x hx) (hB2 y hy)⟩

theorem under_append {T : Type} {k : List Bool} {A B : KL w T} (ha : Under k A) (hb : Under k B) : Under k (A ++ B) :=
  fun x hx => (List.mem_append.1 hx).elim (ha x) (hb x)

theorem exists_side_append {T : Type} {k : List Bool} {A B : KL w T}
    (ha : Under (k ++ [false]) A) (hb : Under (k ++ [true]) B) : ∀ x ∈ A ++ B, ∃ c, k ++ [c] <+: keyOf x :=
  fun x hx => (List.mem_append.1 hx).elim (fun h => ⟨false, ha x h⟩) (fun h => ⟨true, hb x h⟩)

theorem exists_side {T : Type} {k : List Bool} {c : Bool} {A : KL w T} (ha : Under (k ++ [c]) A) :
    ∀ x ∈ A, ∃ c, k ++ [c] <+: keyOf x := fun x hx => ⟨c, ha x hx⟩

/-! ### single entries -/

theorem uSem_onlyL (l : Tree w L) (aL : Lpm w L) (aR : Lpm w R) :
    uSem ((.onlyL l : UIdx w L R), aL, aR) = l.slotEntries.map (mkLeft (fun _ => aR)) := by
  unfold uSem
  simp only [uL, uR, slotEntries]
  rw [unionS_nil_right]
  rfl

theorem uSem_onlyR (r : Tree w R) (aL : Lpm w L) (aR : Lpm w R) :
    uSem ((.onlyR r : UIdx w L R), aL, aR) = r.slotEntries.map (mkRight (fun _ => aL)) := by
  unfold uSem
  simp only [uL, uR, slotEntries]
  rw [unionS_nil_left]
  rfl

theorem map_mkLeft_of_free {A : KL w L} {B : KL w R} (aR : Lpm w R) (h : ∀ a ∈ A, coverK B a.2.1 = []) :
    A.map (mkLeft (annOf B aR)) = A.map (mkLeft (fun _ => aR)) := by
  apply List.map_congr_left
  intro a ha
  simp [mkLeft, annOf_of_cover_nil aR (h a ha)]

theorem map_mkRight_of_free {A : KL w L} {B : KL w R} (aL : Lpm w L) (h : ∀ b ∈ B, coverK A b.2.1 = []) :
    B.map (mkRight (annOf A aL)) = B.map (mkRight (fun _ => aL)) := by
  apply List.map_congr_left
  intro b hb
  simp [mkRight, annOf_of_cover_nil aL (h b hb)]

/-! ### `next_indices` of union.rs -/

theorem keyLt_total_incomp {a b : List Bool} (h1 : ¬ a <+: b) (h2 : ¬ b <+: a)
    (h : Spec.keyLt a b = false) : Spec.keyLt b a = true := by
  obtain ⟨c, x, y, ra, rb, rfl, rfl, hne⟩ := List.exists_first_diff a b h1 h2
  rw [Spec.keyLt_append_left] at h ⊢
  cases x <;> cases y <;> simp_all [Spec.keyLt]

theorem maskLt_false_of_maskEq {a b : Pfx w} (h : Pfx.maskEq a b = true) : Pfx.maskLt a b = false := by
  unfold Pfx.maskEq at h
  unfold Pfx.maskLt
  rw [beq_iff_eq] at h
  rw [h]; simp

section unfold
variable {sa : Nat} {pa : Pfx w} {va : Option L} {la ra : Tree w L}
  {sb : Nat} {pb : Pfx w} {vb : Option R} {lb rb : Tree w R}

theorem uNext_both (hl : pa.len = pb.len) (hm : Pfx.maskEq pa pb = true) :
    uNext (.node sa pa va la ra) (.node sb pb vb lb rb) = [.both (.node sa pa va la ra) (.node sb pb vb lb rb)] := by
  simp [uNext, hl, hm, maskLt_false_of_maskEq hm]

theorem uNext_len_eq_lt (hl : pa.len = pb.len) (hlt : Pfx.maskLt pa pb = true) :
    uNext (.node sa pa va la ra) (.node sb pb vb lb rb) =
      [.onlyR (.node sb pb vb lb rb), .onlyL (.node sa pa va la ra)] := by
  simp [uNext, hl, hlt]

theorem uNext_len_eq_gt (hl : pa.len = pb.len) (hlt : ¬ Pfx.maskLt pa pb = true) (hm : ¬ Pfx.maskEq pa pb = true) :
    uNext (.node sa pa va la ra) (.node sb pb vb lb rb) =
      [.onlyL (.node sa pa va la ra), .onlyR (.node sb pb vb lb rb)] := by
  simp [uNext, hl, hlt, hm]

theorem uNext_firstL (hl : pa.len ≠ pb.len) (h1 : pa.contains pb = true) :
    uNext (.node sa pa va la ra) (.node sb pb vb lb rb) = [.firstL (.node sa pa va la ra) (.node sb pb vb lb rb)] := by
  simp [uNext, hl, h1]

theorem uNext_firstR (hl : pa.len ≠ pb.len) (h1 : ¬ pa.contains pb = true) (h2 : pb.contains pa = true) :
    uNext (.node sa pa va la ra) (.node sb pb vb lb rb) = [.firstR (.node sa pa va la ra) (.node sb pb vb lb rb)] := by
  simp [uNext, hl, h1, h2]

theorem uNext_incomp_lt (hl : pa.len ≠ pb.len) (h1 : ¬ pa.contains pb = true) (h2 : ¬ pb.contains pa = true)
    (hlt : Pfx.maskLt pa pb = true) :
    uNext (.node sa pa va la ra) (.node sb pb vb lb rb) =
      [.onlyR (.node sb pb vb lb rb), .onlyL (.node sa pa va la ra)] := by
  simp [uNext, hl, h1, h2, hlt]

theorem uNext_incomp_gt (hl : pa.len ≠ pb.len) (h1 : ¬ pa.contains pb = true) (h2 : ¬ pb.contains pa = true)
    (hlt : ¬ Pfx.maskLt pa pb = true) :
    uNext (.node sa pa va la ra) (.node sb pb vb lb rb) =
      [.onlyL (.node sa pa va la ra), .onlyR (.node sb pb vb lb rb)] := by
  simp [uNext, hl, h1, h2, hlt]
end unfold

/-- the conclusion of `uNext_spec`, as a predicate on the list of indices returned -/
def UNextOk (a : Tree w L) (b : Tree w R) (aL : Lpm w L) (aR : Lpm w R) (xs : List (UIdx w L R)) : Prop :=
  (∀ c ∈ uExtend aL aR xs, uOk c) ∧
  (uExtend aL aR xs).reverse.flatMap uSem =
    unionS (annOf b.slotEntries aR) (annOf a.slotEntries aL) a.slotEntries b.slotEntries ∧
  Machine.wt1 uNu (uExtend aL aR xs) ≤ a.size + b.size

/-- two subtrees with incomparable roots: both `OnlyL a` and `OnlyR b`, the smaller one popped first -/
theorem uNext_disjoint {sa : Nat} {pa : Pfx w} {va : Option L} {la ra : Tree w L}
    {sb : Nat} {pb : Pfx w} {vb : Option R} {lb rb : Tree w R} (aL : Lpm w L) (aR : Lpm w R)
    (hwa : HasWF (Tree.node sa pa va la ra)) (hwb : HasWF (Tree.node sb pb vb lb rb))
    (h1 : ¬ pa.net <+: pb.net) (h2 : ¬ pb.net <+: pa.net) :
    (Pfx.maskLt pa pb = true →
      UNextOk (.node sa pa va la ra) (.node sb pb vb lb rb) aL aR
        [.onlyR (.node sb pb vb lb rb), .onlyL (.node sa pa va la ra)]) ∧
    (¬ Pfx.maskLt pa pb = true →
      UNextOk (.node sa pa va la ra) (.node sb pb vb lb rb) aL aR
        [.onlyL (.node sa pa va la ra), .onlyR (.node sb pb vb lb rb)]) := by
  obtain ⟨ua, _, _⟩ := under_root hwa
  obtain ⟨ub, _, _⟩ := under_root hwb
  have hfreeA : ∀ x ∈ (Tree.node sa pa va la ra).slotEntries, coverK (Tree.node sb pb vb lb rb).slotEntries x.2.1 = [] :=
    fun x hx => coverK_incomparable ub (ua x hx) h1 h2
  have hfreeB : ∀ y ∈ (Tree.node sb pb vb lb rb).slotEntries, coverK (Tree.node sa pa va la ra).slotEntries y.2.1 = [] :=
    fun y hy => coverK_incomparable ua (ub y hy) h2 h1
  have hokL : uOk ((.onlyL (.node sa pa va la ra) : UIdx w L R), orLpm (.node sa pa va la ra) aL, aR) :=
    ⟨hwa, hasWF_nil, by simp⟩
  have hokR : uOk ((.onlyR (.node sb pb vb lb rb) : UIdx w L R), aL, orLpm (.node sb pb vb lb rb) aR) :=
    ⟨hasWF_nil, hwb, by simp⟩
  have hsz : (Tree.nil : Tree w L).size = 0 ∧ (Tree.nil : Tree w R).size = 0 := ⟨rfl, rfl⟩
  constructor
  · intro hlt
    have hk : Spec.keyLt pa.net pb.net = true := (Pfx.maskLt_iff_keyLt pa pb h1 h2).1 hlt
    have hsep : Sep (Tree.node sa pa va la ra).slotEntries ([] : KL w R) ([] : KL w L) (Tree.node sb pb vb lb rb).slotEntries :=
      ⟨by simp, fun x hx y hy => by rw [Pfx.keyLt_of_roots h1 h2 (ua x hx) (ub y hy)]; exact hk, by simp, by simp⟩
    refine ⟨?_, ?_, ?_⟩
    · intro c hc
      have : c = (.onlyR (.node sb pb vb lb rb), aL, orLpm (.node sb pb vb lb rb) aR) ∨
          c = (.onlyL (.node sa pa va la ra), orLpm (.node sa pa va la ra) aL, aR) := by
        simpa [uExtend] using hc
      rcases this with rfl | rfl
      · exact hokR
      · exact hokL
    · have e : (uExtend aL aR [(.onlyR (.node sb pb vb lb rb) : UIdx w L R), .onlyL (.node sa pa va la ra)]).reverse =
          [(.onlyL (.node sa pa va la ra), orLpm (.node sa pa va la ra) aL, aR),
           (.onlyR (.node sb pb vb lb rb), aL, orLpm (.node sb pb vb lb rb) aR)] := rfl
      rw [e]
      simp only [List.flatMap_cons, List.flatMap_nil, List.append_nil, uSem_onlyL, uSem_onlyR]
      have := unionS_append (annOf (Tree.node sb pb vb lb rb).slotEntries aR) (annOf (Tree.node sa pa va la ra).slotEntries aL)
        _ (Tree.node sa pa va la ra).slotEntries [] [] (Tree.node sb pb vb lb rb).slotEntries (Nat.le_refl _) hsep
      simp only [List.append_nil, List.nil_append] at this
      rw [this, unionS_nil_right, unionS_nil_left, map_mkLeft_of_free aR hfreeA, map_mkRight_of_free aL hfreeB]
    · simp [uExtend, Machine.wt1_cons, Machine.wt1_nil, uNu, uL, uR, hsz] <;> omega
  · intro hlt
    have hk : Spec.keyLt pb.net pa.net = true := by
      apply keyLt_total_incomp h1 h2
      cases hh : Spec.keyLt pa.net pb.net with
      | false => rfl
      | true => exact absurd ((Pfx.maskLt_iff_keyLt pa pb h1 h2).2 hh) hlt
    have hsep : Sep ([] : KL w L) (Tree.node sb pb vb lb rb).slotEntries (Tree.node sa pa va la ra).slotEntries ([] : KL w R) :=
      ⟨by simp, by simp, fun y hy x hx => by rw [Pfx.keyLt_of_roots h2 h1 (ub y hy) (ua x hx)]; exact hk, by simp⟩
    refine ⟨?_, ?_, ?_⟩
    · intro c hc
      have : c = (.onlyL (.node sa pa va la ra), orLpm (.node sa pa va la ra) aL, aR) ∨
          c = (.onlyR (.node sb pb vb lb rb), aL, orLpm (.node sb pb vb lb rb) aR) := by
        simpa [uExtend] using hc
      rcases this with rfl | rfl
      · exact hokL
      · exact hokR
    · have e : (uExtend aL aR [(.onlyL (.node sa pa va la ra) : UIdx w L R), .onlyR (.node sb pb vb lb rb)]).reverse =
          [(.onlyR (.node sb pb vb lb rb), aL, orLpm (.node sb pb vb lb rb) aR),
           (.onlyL (.node sa pa va la ra), orLpm (.node sa pa va la ra) aL, aR)] := rfl
      rw [e]
      simp only [List.flatMap_cons, List.flatMap_nil, List.append_nil, uSem_onlyL, uSem_onlyR]
      have := unionS_append (annOf (Tree.node sb pb vb lb rb).slotEntries aR) (annOf (Tree.node sa pa va la ra).slotEntries aL)
        _ [] (Tree.node sb pb vb lb rb).slotEntries (Tree.node sa pa va la ra).slotEntries [] (Nat.le_refl _) hsep
      simp only [List.append_nil, List.nil_append] at this
      rw [this, unionS_nil_right, unionS_nil_left, map_mkLeft_of_free aR hfreeA, map_mkRight_of_free aL hfreeB]
    · simp [uExtend, Machine.wt1_cons, Machine.wt1_nil, uNu, uL, uR, hsz] <;> omega

theorem uNext_spec (a : Tree w L) (b : Tree w R) (aL : Lpm w L) (aR : Lpm w R) (hwa : HasWF a) (hwb : HasWF b) :
    UNextOk a b aL aR (uNext a b) := by
  cases a with
  | nil =>
    cases b with
    | nil => exact ⟨by simp [uNext, uExtend], by simp [uNext, uExtend, slotEntries, unionS_nil_left], by simp [uNext, uExtend, Machine.wt1_nil]⟩
    | node sb pb vb lb rb =>
      have : uNext (.nil : Tree w L) (Tree.node sb pb vb lb rb) = [.onlyR (.node sb pb vb lb rb)] := rfl
      rw [this]
      refine ⟨?_, ?_, ?_⟩
      · intro c hc
        have : c = (.onlyR (.node sb pb vb lb rb), aL, orLpm (.node sb pb vb lb rb) aR) := by simpa [uExtend] using hc
        subst this
        exact ⟨hasWF_nil, hwb, by simp⟩
      · have e : (uExtend aL aR [(.onlyR (.node sb pb vb lb rb) : UIdx w L R)]).reverse =
            [(.onlyR (.node sb pb vb lb rb), aL, orLpm (.node sb pb vb lb rb) aR)] := rfl
        rw [e]
        simp only [List.flatMap_cons, List.flatMap_nil, List.append_nil, uSem_onlyR, slotEntries, unionS_nil_left]
        rfl
      · simp [uExtend, Machine.wt1_cons, Machine.wt1_nil, uNu, uL, uR, Tree.size]
  | node sa pa va la ra =>
    cases b with
    | nil =>
      have : uNext (Tree.node sa pa va la ra) (.nil : Tree w R) = [.onlyL (.node sa pa va la ra)] := rfl
      rw [this]
      refine ⟨?_, ?_, ?_⟩
      · intro c hc
        have : c = (.onlyL (.node sa pa va la ra), orLpm (.node sa pa va la ra) aL, aR) := by simpa [uExtend] using hc
        subst this
        exact ⟨hwa, hasWF_nil, by simp⟩
      · have e : (uExtend aL aR [(.onlyL (.node sa pa va la ra) : UIdx w L R)]).reverse =
            [(.onlyL (.node sa pa va la ra), orLpm (.node sa pa va la ra) aL, aR)] := rfl
        rw [e]
        simp only [List.flatMap_cons, List.flatMap_nil, List.append_nil, uSem_onlyL]
        rw [show (Tree.nil : Tree w R).slotEntries = [] from rfl, unionS_nil_right]
        rfl
      · simp [uExtend, Machine.wt1_cons, Machine.wt1_nil, uNu, uL, uR, Tree.size]
    | node sb pb vb lb rb =>
      obtain ⟨ua, _, _⟩ := under_root hwa
      obtain ⟨ub, _, _⟩ := under_root hwb
      by_cases hl : pa.len = pb.len
      · by_cases hm : Pfx.maskEq pa pb = true
        · have hnet := (maskEq_iff_net hl).1 hm
          rw [uNext_both hl hm]
          refine ⟨?_, ?_, ?_⟩
          · intro c hc
            have : c = (.both (.node sa pa va la ra) (.node sb pb vb lb rb), orLpm (.node sa pa va la ra) aL,
                orLpm (.node sb pb vb lb rb) aR) := by simpa [uExtend] using hc
            subst this
            exact ⟨hwa, hwb, by simp, by simp, by simp [rootNet, pfx?, hnet], orLpm_idem _ _, orLpm_idem _ _⟩
          · have e : (uExtend aL aR [(.both (.node sa pa va la ra) (.node sb pb vb lb rb) : UIdx w L R)]).reverse =
                [(.both (.node sa pa va la ra) (.node sb pb vb lb rb), orLpm (.node sa pa va la ra) aL,
                  orLpm (.node sb pb vb lb rb) aR)] := rfl
            rw [e]
            simp only [List.flatMap_cons, List.flatMap_nil, List.append_nil]
            unfold uSem
            simp only [uL, uR]
            exact unionS_congr _ _ _ (Nat.le_refl _)
              (fun x hx => ann_fold_absorb aR (hnet ▸ ua x hx))
              (fun y hy => ann_fold_absorb aL (hnet ▸ ub y hy))
          · simp [uExtend, Machine.wt1_cons, Machine.wt1_nil, uNu, uL, uR]
        · have hne : pa.net ≠ pb.net := fun e => hm ((maskEq_iff_net hl).2 e)
          have h1 : ¬ pa.net <+: pb.net := fun h => hne (h.eq_of_length (by simp [Pfx.net_length, hl]))
          have h2 : ¬ pb.net <+: pa.net := fun h => hne (h.eq_of_length (by simp [Pfx.net_length, hl])).symm
          obtain ⟨d1, d2⟩ := uNext_disjoint aL aR hwa hwb h1 h2
          by_cases hlt : Pfx.maskLt pa pb = true
          · rw [uNext_len_eq_lt hl hlt]; exact d1 hlt
          · rw [uNext_len_eq_gt hl hlt hm]; exact d2 hlt
      · have hne : pa.net ≠ pb.net := Pfx.net_ne_of_len_ne hl
        by_cases h1 : pa.contains pb = true
        · have h1' := (Pfx.contains_iff pa pb).1 h1
          rw [uNext_firstL hl h1]
          refine ⟨?_, ?_, ?_⟩
          · intro c hc
            have : c = (.firstL (.node sa pa va la ra) (.node sb pb vb lb rb), orLpm (.node sa pa va la ra) aL, aR) := by
              simpa [uExtend] using hc
            subst this
            exact ⟨hwa, hwb, by simp, by simp, by simp [rootNet, pfx?, h1'], by simp [rootNet, pfx?, hne], orLpm_idem _ _⟩
          · have e : (uExtend aL aR [(.firstL (.node sa pa va la ra) (.node sb pb vb lb rb) : UIdx w L R)]).reverse =
                [(.firstL (.node sa pa va la ra) (.node sb pb vb lb rb), orLpm (.node sa pa va la ra) aL, aR)] := rfl
            rw [e]
            simp only [List.flatMap_cons, List.flatMap_nil, List.append_nil]
            unfold uSem
            simp only [uL, uR]
            exact unionS_congr _ _ _ (Nat.le_refl _) (fun x _ => rfl)
              (fun y hy => ann_fold_absorb aL (h1'.trans (ub y hy)))
          · simp [uExtend, Machine.wt1_cons, Machine.wt1_nil, uNu, uL, uR]
        · by_cases h2 : pb.contains pa = true
          · have h2' := (Pfx.contains_iff pb pa).1 h2
            rw [uNext_firstR hl h1 h2]
            refine ⟨?_, ?_, ?_⟩
            · intro c hc
              have : c = (.firstR (.node sa pa va la ra) (.node sb pb vb lb rb), aL, orLpm (.node sb pb vb lb rb) aR) := by
                simpa [uExtend] using hc
              subst this
              exact ⟨hwa, hwb, by simp, by simp, by simp [rootNet, pfx?, h2'], by simp [rootNet, pfx?, hne], orLpm_idem _ _⟩
            · have e : (uExtend aL aR [(.firstR (.node sa pa va la ra) (.node sb pb vb lb rb) : UIdx w L R)]).reverse =
                  [(.firstR (.node sa pa va la ra) (.node sb pb vb lb rb), aL, orLpm (.node sb pb vb lb rb) aR)] := rfl
              rw [e]
              simp only [List.flatMap_cons, List.flatMap_nil, List.append_nil]
              unfold uSem
              simp only [uL, uR]
              exact unionS_congr _ _ _ (Nat.le_refl _)
                (fun x hx => ann_fold_absorb aR (h2'.trans (ua x hx))) (fun y _ => rfl)
            · simp [uExtend, Machine.wt1_cons, Machine.wt1_nil, uNu, uL, uR]
          · have h1' : ¬ pa.net <+: pb.net := fun h => h1 ((Pfx.contains_iff pa pb).2 h)
            have h2' : ¬ pb.net <+: pa.net := fun h => h2 ((Pfx.contains_iff pb pa).2 h)
            obtain ⟨d1, d2⟩ := uNext_disjoint aL aR hwa hwb h1' h2'
            by_cases hlt : Pfx.maskLt pa pb = true
            · rw [uNext_incomp_lt hl h1 h2 hlt]; exact d1 hlt
            · rw [uNext_incomp_gt hl h1 h2 hlt]; exact d2 hlt

/-! ### the step of `Union::next` / `UnionMut::next` -/

theorem uExtend_append (aL : Lpm w L) (aR : Lpm w R) (xs ys : List (UIdx w L R)) :
    uExtend aL aR (xs ++ ys) = uExtend aL aR xs ++ uExtend aL aR ys := by simp [uExtend]

theorem uExtend_onlyL (aL : Lpm w L) (aR : Lpm w R) (t : Tree w L) :
    uExtend aL aR [(.onlyL t : UIdx w L R)] = [(.onlyL t, orLpm t aL, aR)] := rfl

theorem uExtend_onlyR (aL : Lpm w L) (aR : Lpm w R) (t : Tree w R) :
    uExtend aL aR [(.onlyR t : UIdx w L R)] = [(.onlyR t, aL, orLpm t aR)] := rfl

theorem uExtend_cons_onlyL (aL : Lpm w L) (aR : Lpm w R) (t : Tree w L) (xs : List (UIdx w L R)) :
    uExtend aL aR ((.onlyL t : UIdx w L R) :: xs) = (.onlyL t, orLpm t aL, aR) :: uExtend aL aR xs := rfl

theorem uExtend_cons_onlyR (aL : Lpm w L) (aR : Lpm w R) (t : Tree w R) (xs : List (UIdx w L R)) :
    uExtend aL aR ((.onlyR t : UIdx w L R) :: xs) = (.onlyR t, aL, orLpm t aR) :: uExtend aL aR xs := rfl

theorem uExtend_nil (aL : Lpm w L) (aR : Lpm w R) : uExtend aL aR ([] : List (UIdx w L R)) = [] := rfl

theorem uOk_onlyL {t : Tree w L} (aL : Lpm w L) (aR : Lpm w R) (h : HasWF t) (hn : t ≠ .nil) :
    uOk ((.onlyL t : UIdx w L R), aL, aR) := ⟨h, hasWF_nil, hn⟩

theorem uOk_onlyR {t : Tree w R} (aL : Lpm w L) (aR : Lpm w R) (h : HasWF t) (hn : t ≠ .nil) :
    uOk ((.onlyR t : UIdx w L R), aL, aR) := ⟨hasWF_nil, h, hn⟩

theorem uNu_onlyL (t : Tree w L) (aL : Lpm w L) (aR : Lpm w R) : uNu ((.onlyL t : UIdx w L R), aL, aR) = t.size := by
  simp [uNu, uL, uR, Tree.size]

theorem uNu_onlyR (t : Tree w R) (aL : Lpm w L) (aR : Lpm w R) : uNu ((.onlyR t : UIdx w L R), aL, aR) = t.size := by
  simp [uNu, uL, uR, Tree.size]

/-- pushed `OnlyL` children, in pop order -/
theorem uOnlyChildrenL_spec (aL : Lpm w L) (aR : Lpm w R) (ll lr : Tree w L) (hl : HasWF ll) (hr : HasWF lr) :
    (∀ c ∈ uExtend aL aR (onlyChildren (.onlyL : Tree w L → UIdx w L R) ll lr), uOk c) ∧
    (uExtend aL aR (onlyChildren (.onlyL : Tree w L → UIdx w L R) ll lr)).reverse.flatMap uSem =
      ll.slotEntries.map (mkLeft (fun _ => aR)) ++ lr.slotEntries.map (mkLeft (fun _ => aR)) ∧
    Machine.wt1 uNu (uExtend aL aR (onlyChildren (.onlyL : Tree w L → UIdx w L R) ll lr)) ≤ ll.size + lr.size := by
  unfold onlyChildren
  cases ll with
  | nil =>
    cases lr with
    | nil => simp [uExtend_nil, slotEntries, Machine.wt1_nil]
    | node s p v a b =>
      refine ⟨?_, ?_, ?_⟩
      · simp only [List.append_nil, uExtend_onlyL, List.mem_singleton, forall_eq]
        exact uOk_onlyL _ aR hr (by simp)
      · simp [uExtend_onlyL, uSem_onlyL, slotEntries]
      · simp [uExtend_onlyL, Machine.wt1_cons, Machine.wt1_nil, uNu_onlyL]
  | node s p v a b =>
    cases lr with
    | nil =>
      refine ⟨?_, ?_, ?_⟩
      · simp only [List.nil_append, uExtend_onlyL, List.mem_singleton, forall_eq]
        exact uOk_onlyL _ aR hl (by simp)
      · simp [uExtend_onlyL, uSem_onlyL, slotEntries]
      · simp [uExtend_onlyL, Machine.wt1_cons, Machine.wt1_nil, uNu_onlyL]
    | node s' p' v' a' b' =>
      refine ⟨?_, ?_, ?_⟩
      · intro c hc
        simp only [List.singleton_append, uExtend_cons_onlyL, uExtend_nil, List.mem_cons, List.not_mem_nil, or_false] at hc
        rcases hc with rfl | rfl
        · exact uOk_onlyL _ aR hr (by simp)
        · exact uOk_onlyL _ aR hl (by simp)
      · simp [uExtend_cons_onlyL, uExtend_nil, uSem_onlyL]
      · simp [uExtend_cons_onlyL, uExtend_nil, Machine.wt1_cons, Machine.wt1_nil, uNu_onlyL]; omega

theorem uOnlyChildrenR_spec (aL : Lpm w L) (aR : Lpm w R) (rl rr : Tree w R) (hl : HasWF rl) (hr : HasWF rr) :
    (∀ c ∈ uExtend aL aR (onlyChildren (.onlyR : Tree w R → UIdx w L R) rl rr), uOk c) ∧
    (uExtend aL aR (onlyChildren (.onlyR : Tree w R → UIdx w L R) rl rr)).reverse.flatMap uSem =
      rl.slotEntries.map (mkRight (fun _ => aL)) ++ rr.slotEntries.map (mkRight (fun _ => aL)) ∧
    Machine.wt1 uNu (uExtend aL aR (onlyChildren (.onlyR : Tree w R → UIdx w L R) rl rr)) ≤ rl.size + rr.size := by
  unfold onlyChildren
  cases rl with
  | nil =>
    cases rr with
    | nil => simp [uExtend_nil, slotEntries, Machine.wt1_nil]
    | node s p v a b =>
      refine ⟨?_, ?_, ?_⟩
      · simp only [List.append_nil, uExtend_onlyR, List.mem_singleton, forall_eq]
        exact uOk_onlyR aL _ hr (by simp)
      · simp [uExtend_onlyR, uSem_onlyR, slotEntries]
      · simp [uExtend_onlyR, Machine.wt1_cons, Machine.wt1_nil, uNu_onlyR]
  | node s p v a b =>
    cases rr with
    | nil =>
      refine ⟨?_, ?_, ?_⟩
      · simp only [List.nil_append, uExtend_onlyR, List.mem_singleton, forall_eq]
        exact uOk_onlyR aL _ hl (by simp)
      · simp [uExtend_onlyR, uSem_onlyR, slotEntries]
      · simp [uExtend_onlyR, Machine.wt1_cons, Machine.wt1_nil, uNu_onlyR]
    | node s' p' v' a' b' =>
      refine ⟨?_, ?_, ?_⟩
      · intro c hc
        simp only [List.singleton_append, uExtend_cons_onlyR, uExtend_nil, List.mem_cons, List.not_mem_nil, or_false] at hc
        rcases hc with rfl | rfl
        · exact uOk_onlyR aL _ hr (by simp)
        · exact uOk_onlyR aL _ hl (by simp)
      · simp [uExtend_cons_onlyR, uExtend_nil, uSem_onlyR]
      · simp [uExtend_cons_onlyR, uExtend_nil, Machine.wt1_cons, Machine.wt1_nil, uNu_onlyR]; omega

/-- view of the item yielded for a node pair / a single node -/
theorem view_uItem (p : Pfx w) (l : Option (Nat × L)) (r : Option (Nat × R)) (aL : Lpm w L) (aR : Lpm w R) :
    (uItem p l r aL aR).bind UItem.view =
      (match l, r with
       | some x, none => some (.left p x aR)
       | none, some y => some (.right p aL y)
       | some x, some y => some (.both p x y)
       | none, none => none) := by
  cases l <;> cases r <;> rfl

theorem slotVal_node {T : Type} (s : Nat) (p : Pfx w) (v : Option T) (l r : Tree w T) :
    slotVal (Tree.node s p v l r) = v.map (fun x => (s, x)) := by cases v <;> rfl

/-- what has to be shown about one step -/
def UStepOk (e : UEntry w L R) : Prop :=
  (∀ c ∈ (uStep e).2, uOk c) ∧
  uSem e = ((uStep e).1.bind UItem.view).toList ++ (uStep e).2.reverse.flatMap uSem ∧
  Machine.wt1 uNu (uStep e).2 + 1 ≤ uNu e

theorem keyLt_sides {k x y : List Bool} (hx : k ++ [false] <+: x) (hy : k ++ [true] <+: y) :
    Spec.keyLt x y = true := Spec.keyLt_of_sides hx hy

theorem uStep_both_ok {sl : Nat} {pl : Pfx w} {vl : Option L} {ll lr : Tree w L}
    {sr : Nat} {pr : Pfx w} {vr : Option R} {rl rr : Tree w R} (aL : Lpm w L) (aR : Lpm w R)
    (hwl : HasWF (Tree.node sl pl vl ll lr)) (hwr : HasWF (Tree.node sr pr vr rl rr)) (hnet : pl.net = pr.net)
    (hfl : orLpm (Tree.node sl pl vl ll lr) aL = aL) (hfr : orLpm (Tree.node sr pr vr rl rr) aR = aR) :
    UStepOk (.both (.node sl pl vl ll lr) (.node sr pr vr rl rr), aL, aR) := by
  obtain ⟨hwll, hwlr⟩ := hwl.child
  obtain ⟨hwrl, hwrr⟩ := hwr.child
  obtain ⟨a1, a2, a3⟩ := uNext_spec lr rr aL aR hwlr hwrr
  obtain ⟨b1, b2, b3⟩ := uNext_spec ll rl aL aR hwll hwrl
  obtain ⟨ul, ull, ulr⟩ := under_root hwl
  obtain ⟨ur, url, urr⟩ := under_root hwr
  have url' : Under (pl.net ++ [false]) rl.slotEntries := by rw [hnet]; exact url
  have urr' : Under (pl.net ++ [true]) rr.slotEntries := by rw [hnet]; exact urr
  have hs : uStep (.both (.node sl pl vl ll lr) (.node sr pr vr rl rr), aL, aR) =
      (uItem (if vl.isSome then pl else pr) (slotVal (.node sl pl vl ll lr)) (slotVal (.node sr pr vr rl rr)) aL aR,
       uExtend aL aR (uNext lr rr) ++ uExtend aL aR (uNext ll rl)) := rfl
  unfold UStepOk
  rw [hs]
  refine ⟨fun c hc => ?_, ?_, ?_⟩
  · rcases List.mem_append.1 hc with hc | hc
    · exact a1 c hc
    · exact b1 c hc
  · simp only [List.reverse_append, List.flatMap_append, a2, b2]
    unfold uSem
    simp only [uL, uR]
    generalize hFL : annOf (Tree.node sr pr vr rl rr).slotEntries aR = FL
    generalize hFR : annOf (Tree.node sl pl vl ll lr).slotEntries aL = FR
    rw [slotEntries_node sl, slotEntries_node sr, List.append_assoc, List.append_assoc]
    -- split off the two own entries, then the two sides
    have sep1 : Sep (ownS sl pl vl) (ownS sr pr vr) (ll.slotEntries ++ lr.slotEntries) (rl.slotEntries ++ rr.slotEntries) :=
      sep_own (allKey_ownS sl pl vl) (hnet ▸ allKey_ownS sr pr vr) (exists_side_append ull ulr)
        (exists_side_append url' urr')
    have sep2 : Sep ll.slotEntries rl.slotEntries lr.slotEntries rr.slotEntries :=
      sep_of_lt ull url' ulr urr' (fun x y hx hy => keyLt_sides hx hy)
    rw [unionS_append _ _ _ _ _ _ _ (Nat.le_refl _) sep1, unionS_append _ _ _ _ _ _ _ (Nat.le_refl _) sep2]
    subst hFL hFR
    congr 1
    · -- the two own entries
      have hpre : pl.net <+: pr.net := hnet ▸ List.prefix_refl _
      have hpre' : pr.net <+: pl.net := hnet ▸ List.prefix_refl _
      rw [view_uItem, slotVal_node, slotVal_node]
      cases vl with
      | none =>
        cases vr with
        | none => simp [ownS, unionS_nil_left]
        | some y =>
          have hc : coverK (Tree.node sl pl none ll lr).slotEntries pr = [] := by
            rw [slotEntries_node, coverK_append, coverK_append, coverK_below ull hpre', coverK_below ulr hpre']; rfl
          simp [ownS, unionS_nil_left, mkRight, annOf_of_cover_nil aL hc]
      | some x =>
        cases vr with
        | none =>
          have hc : coverK (Tree.node sr pr none rl rr).slotEntries pl = [] := by
            rw [slotEntries_node, coverK_append, coverK_append, coverK_below url hpre, coverK_below urr hpre]; rfl
          simp [ownS, unionS_nil_right, mkLeft, annOf_of_cover_nil aR hc]
        | some y =>
          have hk : keyOf (sl, pl, x) = keyOf (sr, pr, y) := hnet
          simp [ownS, unionS_cons_cons, hk, unionS_nil_left]
    · congr 1
      · exact unionS_congr _ _ _ (Nat.le_refl _)
          (fun x hx => annOf_side hwr false (hnet ▸ ull x hx) hfr)
          (fun y hy => annOf_side hwl false (url' y hy) hfl)
      · exact unionS_congr _ _ _ (Nat.le_refl _)
          (fun x hx => annOf_side hwr true (hnet ▸ ulr x hx) hfr)
          (fun y hy => annOf_side hwl true (urr' y hy) hfl)
  · rw [Machine.wt1_append]
    have h1 := size_node_eq sl pl vl ll lr
    have h2 := size_node_eq sr pr vr rl rr
    simp only [uNu, uL, uR]
    omega

theorem uStep_onlyL_ok {sl : Nat} {pl : Pfx w} {vl : Option L} {ll lr : Tree w L} (aL : Lpm w L) (aR : Lpm w R)
    (hwl : HasWF (Tree.node sl pl vl ll lr)) :
    UStepOk ((.onlyL (.node sl pl vl ll lr) : UIdx w L R), aL, aR) := by
  obtain ⟨hwll, hwlr⟩ := hwl.child
  obtain ⟨o1, o2, o3⟩ := uOnlyChildrenL_spec aL aR ll lr hwll hwlr
  have hs : uStep ((.onlyL (.node sl pl vl ll lr) : UIdx w L R), aL, aR) =
      (uItem pl (slotVal (.node sl pl vl ll lr)) none aL aR, uExtend aL aR (onlyChildren .onlyL ll lr)) := rfl
  unfold UStepOk
  rw [hs]
  refine ⟨o1, ?_, ?_⟩
  · rw [o2, uSem_onlyL, slotEntries_node, List.map_append, List.map_append, List.append_assoc, view_uItem, slotVal_node]
    congr 1
    cases vl <;> simp [ownS, mkLeft]
  · have h1 := size_node_eq sl pl vl ll lr
    show Machine.wt1 uNu (uExtend aL aR (onlyChildren .onlyL ll lr)) + 1 ≤ _
    rw [uNu_onlyL]; omega

theorem uStep_onlyR_ok {sr : Nat} {pr : Pfx w} {vr : Option R} {rl rr : Tree w R} (aL : Lpm w L) (aR : Lpm w R)
    (hwr : HasWF (Tree.node sr pr vr rl rr)) :
    UStepOk ((.onlyR (.node sr pr vr rl rr) : UIdx w L R), aL, aR) := by
  obtain ⟨hwrl, hwrr⟩ := hwr.child
  obtain ⟨o1, o2, o3⟩ := uOnlyChildrenR_spec aL aR rl rr hwrl hwrr
  have hs : uStep ((.onlyR (.node sr pr vr rl rr) : UIdx w L R), aL, aR) =
      (uItem pr none (slotVal (.node sr pr vr rl rr)) aL aR, uExtend aL aR (onlyChildren .onlyR rl rr)) := rfl
  unfold UStepOk
  rw [hs]
  refine ⟨o1, ?_, ?_⟩
  · rw [o2, uSem_onlyR, slotEntries_node, List.map_append, List.map_append, List.append_assoc, view_uItem, slotVal_node]
    congr 1
    cases vr <;> simp [ownS, mkRight]
  · have h1 := size_node_eq sr pr vr rl rr
    show Machine.wt1 uNu (uExtend aL aR (onlyChildren .onlyR rl rr)) + 1 ≤ _
    rw [uNu_onlyR]; omega

theorem annOf_other_side {T : Type} {k : List Bool} {c : Bool} {B : KL w T} (hb : Under (k ++ [!c]) B) (ann : Lpm w T)
    {p : Pfx w} (hp : k ++ [c] <+: p.net) : annOf B ann p = ann :=
  annOf_of_cover_nil ann (coverK_other_side hb hp)

theorem slotEntries_nil {T : Type} : (Tree.nil : Tree w T).slotEntries = [] := rfl

/-- `next_indices_first_l`, with the annotation extension: the pushed entries denote the union of
`l`'s children with `r` -/
theorem uFirstL_spec {sl : Nat} {pl : Pfx w} {vl : Option L} {ll lr : Tree w L}
    {sr : Nat} {pr : Pfx w} {vr : Option R} {rl rr : Tree w R} (aL : Lpm w L) (aR : Lpm w R)
    (hwl : HasWF (Tree.node sl pl vl ll lr)) (hwr : HasWF (Tree.node sr pr vr rl rr))
    (hpre : pl.net <+: pr.net) (hne : pl.net ≠ pr.net)
    (hfl : orLpm (Tree.node sl pl vl ll lr) aL = aL) :
    (∀ c ∈ uExtend aL aR (uFirstL pl ll lr (.node sr pr vr rl rr)), uOk c) ∧
    (uExtend aL aR (uFirstL pl ll lr (.node sr pr vr rl rr))).reverse.flatMap uSem =
      unionS (annOf (Tree.node sr pr vr rl rr).slotEntries aR) (annOf (Tree.node sl pl vl ll lr).slotEntries aL)
        (ll.slotEntries ++ lr.slotEntries) (Tree.node sr pr vr rl rr).slotEntries ∧
    Machine.wt1 uNu (uExtend aL aR (uFirstL pl ll lr (.node sr pr vr rl rr))) ≤
      ll.size + lr.size + (Tree.node sr pr vr rl rr).size := by
  have hside := Pfx.side_prefix hpre hne
  obtain ⟨hwll, hwlr⟩ := hwl.child
  obtain ⟨ul, ull, ulr⟩ := under_root hwl
  obtain ⟨ur, _, _⟩ := under_root hwr
  have urs : Under (pl.net ++ [Pfx.toRight pl pr]) (Tree.node sr pr vr rl rr).slotEntries := ur.mono hside
  have F1 : ∀ b ∈ (Tree.node sr pr vr rl rr).slotEntries,
      annOf (Tree.node sl pl vl ll lr).slotEntries aL b.2.1 =
        annOf (child ll lr (Pfx.toRight pl pr)).slotEntries aL b.2.1 :=
    fun b hb => annOf_side hwl _ (urs b hb) hfl
  generalize hFL : annOf (Tree.node sr pr vr rl rr).slotEntries aR = FL
  generalize hFR : annOf (Tree.node sl pl vl ll lr).slotEntries aL = FR at F1 ⊢
  unfold uFirstL
  cases ll with
  | nil =>
    cases lr with
    | nil =>
      refine ⟨?_, ?_, ?_⟩
      · simp only [uExtend_onlyR, List.mem_singleton, forall_eq]
        exact uOk_onlyR aL _ hwr (by simp)
      · simp only [uExtend_onlyR, List.reverse_cons, List.reverse_nil, List.nil_append, List.flatMap_cons,
          List.flatMap_nil, List.append_nil, uSem_onlyR, slotEntries_nil, unionS_nil_left]
        apply List.map_congr_left
        intro b hb
        have := F1 b hb
        cases hc : Pfx.toRight pl pr <;> rw [hc] at this <;>
          simp only [child_false, child_true, slotEntries_nil, annOf_nil] at this <;> simp [mkRight, this]
      · simp [uExtend_onlyR, Machine.wt1_cons, Machine.wt1_nil, uNu_onlyR, Tree.size]
    | node s2 p2 v2 a2 b2 =>
      obtain ⟨c1, c2, c3⟩ := uNext_spec (.node s2 p2 v2 a2 b2) (.node sr pr vr rl rr) aL aR hwlr hwr
      refine ⟨c1, ?_, by simp only [Tree.size] at c3 ⊢; omega⟩
      rw [c2, slotEntries_nil, List.nil_append]
      subst hFL
      apply unionS_congr _ _ _ (Nat.le_refl _) (fun x _ => rfl)
      intro b hb
      have := F1 b hb
      cases hc : Pfx.toRight pl pr
      · rw [hc] at this urs
        simp only [child_false, slotEntries_nil, annOf_nil] at this
        rw [this, annOf_other_side (k := pl.net) (c := false) ulr aL (urs b hb)]
      · rw [hc] at this
        simp only [child_true] at this
        exact this.symm
  | node s1 p1 v1 a1 b1 =>
    cases lr with
    | nil =>
      obtain ⟨c1, c2, c3⟩ := uNext_spec (.node s1 p1 v1 a1 b1) (.node sr pr vr rl rr) aL aR hwll hwr
      refine ⟨c1, ?_, by simp only [Tree.size] at c3 ⊢; omega⟩
      rw [c2, slotEntries_nil, List.append_nil]
      subst hFL
      apply unionS_congr _ _ _ (Nat.le_refl _) (fun x _ => rfl)
      intro b hb
      have := F1 b hb
      cases hc : Pfx.toRight pl pr
      · rw [hc] at this
        simp only [child_false] at this
        exact this.symm
      · rw [hc] at this urs
        simp only [child_true, slotEntries_nil, annOf_nil] at this
        rw [this, annOf_other_side (k := pl.net) (c := true) ull aL (urs b hb)]
    | node s2 p2 v2 a2 b2 =>
      have htr : toRightOf pl (Tree.node sr pr vr rl rr) = Pfx.toRight pl pr := rfl
      simp only [htr]
      cases hc : Pfx.toRight pl pr
      · -- r lies on the left: pair it with `ll`; `lr` is on its own
        rw [hc] at urs F1
        simp only [child_false] at F1
        obtain ⟨c1, c2, c3⟩ := uNext_spec (.node s1 p1 v1 a1 b1) (.node sr pr vr rl rr) aL aR hwll hwr
        simp only [Bool.false_eq_true, ite_false, uExtend_cons_onlyL]
        refine ⟨?_, ?_, ?_⟩
        · intro c hc'
          rcases List.mem_cons.1 hc' with rfl | h'
          · exact uOk_onlyL _ aR hwlr (by simp)
          · exact c1 c h'
        · rw [List.reverse_cons, List.flatMap_append, c2]
          simp only [List.flatMap_cons, List.flatMap_nil, List.append_nil, uSem_onlyL]
          have sep2 : Sep (Tree.node s1 p1 v1 a1 b1).slotEntries (Tree.node sr pr vr rl rr).slotEntries
              (Tree.node s2 p2 v2 a2 b2).slotEntries ([] : KL w R) :=
            sep_of_lt ull urs ulr (by intro x hx; simp at hx) (fun x y hx hy => keyLt_sides hx hy)
          have := unionS_append FL FR _ _ _ _ _ (Nat.le_refl _) sep2
          simp only [List.append_nil] at this
          rw [this, unionS_nil_right]
          subst hFL
          congr 1
          · exact unionS_congr _ _ _ (Nat.le_refl _) (fun x _ => rfl) (fun b hb => (F1 b hb).symm)
          · exact (map_mkLeft_of_free aR (fun x hx => coverK_other_side (k := pl.net) (c := true) urs (ulr x hx))).symm
        · rw [Machine.wt1_cons, uNu_onlyL]; omega
      · rw [hc] at urs F1
        simp only [child_true] at F1
        obtain ⟨c1, c2, c3⟩ := uNext_spec (.node s2 p2 v2 a2 b2) (.node sr pr vr rl rr) aL aR hwlr hwr
        simp only [ite_true, uExtend_append, uExtend_onlyL]
        refine ⟨?_, ?_, ?_⟩
        · intro c hc'
          rcases List.mem_append.1 hc' with h' | h'
          · exact c1 c h'
          · simp only [List.mem_singleton] at h'; subst h'
            exact uOk_onlyL _ aR hwll (by simp)
        · rw [List.reverse_append, List.flatMap_append, c2]
          simp only [List.reverse_cons, List.reverse_nil, List.nil_append, List.flatMap_cons, List.flatMap_nil,
            List.append_nil, uSem_onlyL]
          have sep2 : Sep (Tree.node s1 p1 v1 a1 b1).slotEntries ([] : KL w R)
              (Tree.node s2 p2 v2 a2 b2).slotEntries (Tree.node sr pr vr rl rr).slotEntries :=
            sep_of_lt ull (by intro x hx; simp at hx) ulr urs (fun x y hx hy => keyLt_sides hx hy)
          have := unionS_append FL FR _ _ _ _ _ (Nat.le_refl _) sep2
          simp only [List.nil_append] at this
          rw [this, unionS_nil_right]
          subst hFL
          congr 1
          · exact (map_mkLeft_of_free aR (fun x hx => coverK_other_side (k := pl.net) (c := false) urs (ull x hx))).symm
          · exact unionS_congr _ _ _ (Nat.le_refl _) (fun x _ => rfl) (fun b hb => (F1 b hb).symm)
        · rw [Machine.wt1_append, Machine.wt1_cons, Machine.wt1_nil, uNu_onlyL]; omega

theorem uStep_firstL_ok {sl : Nat} {pl : Pfx w} {vl : Option L} {ll lr : Tree w L}
    {sr : Nat} {pr : Pfx w} {vr : Option R} {rl rr : Tree w R} (aL : Lpm w L) (aR : Lpm w R)
    (hwl : HasWF (Tree.node sl pl vl ll lr)) (hwr : HasWF (Tree.node sr pr vr rl rr))
    (hpre : pl.net <+: pr.net) (hne : pl.net ≠ pr.net)
    (hfl : orLpm (Tree.node sl pl vl ll lr) aL = aL) :
    UStepOk (.firstL (.node sl pl vl ll lr) (.node sr pr vr rl rr), aL, aR) := by
  obtain ⟨f1, f2, f3⟩ := uFirstL_spec aL aR hwl hwr hpre hne hfl
  have hside := Pfx.side_prefix hpre hne
  obtain ⟨ul, ull, ulr⟩ := under_root hwl
  obtain ⟨ur, _, _⟩ := under_root hwr
  have urs : Under (pl.net ++ [Pfx.toRight pl pr]) (Tree.node sr pr vr rl rr).slotEntries := ur.mono hside
  have hown : coverK (Tree.node sr pr vr rl rr).slotEntries pl = [] := coverK_below urs (List.prefix_refl _)
  have hsz := size_node_eq sl pl vl ll lr
  refine ⟨f1, ?_, ?_⟩
  · show uSem _ = ((uItem pl (slotVal (.node sl pl vl ll lr)) none aL aR).bind UItem.view).toList ++
      (uExtend aL aR (uFirstL pl ll lr (.node sr pr vr rl rr))).reverse.flatMap uSem
    rw [f2]
    unfold uSem
    simp only [uL, uR]
    generalize hFL : annOf (Tree.node sr pr vr rl rr).slotEntries aR = FL
    generalize hFR : annOf (Tree.node sl pl vl ll lr).slotEntries aL = FR
    rw [slotEntries_node sl, List.append_assoc]
    have sep1 : Sep (ownS sl pl vl) ([] : KL w R) (ll.slotEntries ++ lr.slotEntries) (Tree.node sr pr vr rl rr).slotEntries :=
      sep_own (allKey_ownS sl pl vl) (by intro x hx; simp at hx) (exists_side_append ull ulr) (exists_side urs)
    have := unionS_append FL FR _ (ownS sl pl vl) [] (ll.slotEntries ++ lr.slotEntries) (Tree.node sr pr vr rl rr).slotEntries
      (Nat.le_refl _) sep1
    simp only [List.nil_append] at this
    rw [this, unionS_nil_right]
    congr 1
    subst hFL
    rw [view_uItem, slotVal_node]
    cases vl <;> simp [ownS, mkLeft, annOf_of_cover_nil aR hown]
  · show Machine.wt1 uNu (uExtend aL aR (uFirstL pl ll lr (.node sr pr vr rl rr))) + 1 ≤
      (Tree.node sl pl vl ll lr).size + (Tree.node sr pr vr rl rr).size
    omega

/-- `next_indices_first_r`, with the annotation extension -/
theorem uFirstR_spec {sl : Nat} {pl : Pfx w} {vl : Option L} {ll lr : Tree w L}
    {sr : Nat} {pr : Pfx w} {vr : Option R} {rl rr : Tree w R} (aL : Lpm w L) (aR : Lpm w R)
    (hwl : HasWF (Tree.node sl pl vl ll lr)) (hwr : HasWF (Tree.node sr pr vr rl rr))
    (hpre : pr.net <+: pl.net) (hne : pl.net ≠ pr.net)
    (hfr : orLpm (Tree.node sr pr vr rl rr) aR = aR) :
    (∀ c ∈ uExtend aL aR (uFirstR (.node sl pl vl ll lr) pr rl rr), uOk c) ∧
    (uExtend aL aR (uFirstR (.node sl pl vl ll lr) pr rl rr)).reverse.flatMap uSem =
      unionS (annOf (Tree.node sr pr vr rl rr).slotEntries aR) (annOf (Tree.node sl pl vl ll lr).slotEntries aL)
        (Tree.node sl pl vl ll lr).slotEntries (rl.slotEntries ++ rr.slotEntries) ∧
    Machine.wt1 uNu (uExtend aL aR (uFirstR (.node sl pl vl ll lr) pr rl rr)) ≤
      (Tree.node sl pl vl ll lr).size + rl.size + rr.size := by
  have hside := Pfx.side_prefix hpre (fun e => hne e.symm)
  obtain ⟨hwrl, hwrr⟩ := hwr.child
  obtain ⟨ul, _, _⟩ := under_root hwl
  obtain ⟨ur, url, urr⟩ := under_root hwr
  have uls : Under (pr.net ++ [Pfx.toRight pr pl]) (Tree.node sl pl vl ll lr).slotEntries := ul.mono hside
  have F1 : ∀ a ∈ (Tree.node sl pl vl ll lr).slotEntries,
      annOf (Tree.node sr pr vr rl rr).slotEntries aR a.2.1 =
        annOf (child rl rr (Pfx.toRight pr pl)).slotEntries aR a.2.1 :=
    fun a ha => annOf_side hwr _ (uls a ha) hfr
  generalize hFR : annOf (Tree.node sl pl vl ll lr).slotEntries aL = FR
  generalize hFL : annOf (Tree.node sr pr vr rl rr).slotEntries aR = FL at F1 ⊢
  unfold uFirstR
  cases rl with
  | nil =>
    cases rr with
    | nil =>
      refine ⟨?_, ?_, ?_⟩
      · simp only [uExtend_onlyL, List.mem_singleton, forall_eq]
        exact uOk_onlyL _ aR hwl (by simp)
      · simp only [uExtend_onlyL, List.reverse_cons, List.reverse_nil, List.nil_append, List.flatMap_cons,
          List.flatMap_nil, List.append_nil, uSem_onlyL, slotEntries_nil, unionS_nil_right]
        apply List.map_congr_left
        intro a ha
        have := F1 a ha
        cases hc : Pfx.toRight pr pl <;> rw [hc] at this <;>
          simp only [child_false, child_true, slotEntries_nil, annOf_nil] at this <;> simp [mkLeft, this]
      · simp [uExtend_onlyL, Machine.wt1_cons, Machine.wt1_nil, uNu_onlyL, Tree.size]
    | node s2 p2 v2 a2 b2 =>
      obtain ⟨c1, c2, c3⟩ := uNext_spec (.node sl pl vl ll lr) (.node s2 p2 v2 a2 b2) aL aR hwl hwrr
      refine ⟨c1, ?_, by simp only [Tree.size] at c3 ⊢; omega⟩
      rw [c2, slotEntries_nil, List.nil_append]
      subst hFR
      apply unionS_congr _ _ _ (Nat.le_refl _) ?_ (fun x _ => rfl)
      intro a ha
      have := F1 a ha
      cases hc : Pfx.toRight pr pl
      · rw [hc] at this uls
        simp only [child_false, slotEntries_nil, annOf_nil] at this
        rw [this, annOf_other_side (k := pr.net) (c := false) urr aR (uls a ha)]
      · rw [hc] at this
        simp only [child_true] at this
        exact this.symm
  | node s1 p1 v1 a1 b1 =>
    cases rr with
    | nil =>
      obtain ⟨c1, c2, c3⟩ := uNext_spec (.node sl pl vl ll lr) (.node s1 p1 v1 a1 b1) aL aR hwl hwrl
      refine ⟨c1, ?_, by simp only [Tree.size] at c3 ⊢; omega⟩
      rw [c2, slotEntries_nil, List.append_nil]
      subst hFR
      apply unionS_congr _ _ _ (Nat.le_refl _) ?_ (fun x _ => rfl)
      intro a ha
      have := F1 a ha
      cases hc : Pfx.toRight pr pl
      · rw [hc] at this
        simp only [child_false] at this
        exact this.symm
      · rw [hc] at this uls
        simp only [child_true, slotEntries_nil, annOf_nil] at this
        rw [this, annOf_other_side (k := pr.net) (c := true) url aR (uls a ha)]
    | node s2 p2 v2 a2 b2 =>
      have htr : toRightOf pr (Tree.node sl pl vl ll lr) = Pfx.toRight pr pl := rfl
      simp only [htr]
      cases hc : Pfx.toRight pr pl
      · -- l lies on the left: pair it with `rl`; `rr` is on its own
        rw [hc] at uls F1
        simp only [child_false] at F1
        obtain ⟨c1, c2, c3⟩ := uNext_spec (.node sl pl vl ll lr) (.node s1 p1 v1 a1 b1) aL aR hwl hwrl
        simp only [Bool.false_eq_true, ite_false, uExtend_cons_onlyR]
        refine ⟨?_, ?_, ?_⟩
        · intro c hc'
          rcases List.mem_cons.1 hc' with rfl | h'
          · exact uOk_onlyR aL _ hwrr (by simp)
          · exact c1 c h'
        · rw [List.reverse_cons, List.flatMap_append, c2]
          simp only [List.flatMap_cons, List.flatMap_nil, List.append_nil, uSem_onlyR]
          have sep2 : Sep (Tree.node sl pl vl ll lr).slotEntries (Tree.node s1 p1 v1 a1 b1).slotEntries
              ([] : KL w L) (Tree.node s2 p2 v2 a2 b2).slotEntries :=
            sep_of_lt uls url (by intro x hx; simp at hx) urr (fun x y hx hy => keyLt_sides hx hy)
          have := unionS_append FL FR _ _ _ _ _ (Nat.le_refl _) sep2
          simp only [List.append_nil] at this
          rw [this, unionS_nil_left]
          subst hFR
          congr 1
          · exact unionS_congr _ _ _ (Nat.le_refl _) (fun a ha => (F1 a ha).symm) (fun x _ => rfl)
          · exact (map_mkRight_of_free aL (fun y hy => coverK_other_side (k := pr.net) (c := true) uls (urr y hy))).symm
        · rw [Machine.wt1_cons, uNu_onlyR]; omega
      · rw [hc] at uls F1
        simp only [child_true] at F1
        obtain ⟨c1, c2, c3⟩ := uNext_spec (.node sl pl vl ll lr) (.node s2 p2 v2 a2 b2) aL aR hwl hwrr
        simp only [ite_true, uExtend_append, uExtend_onlyR]
        refine ⟨?_, ?_, ?_⟩
        · intro c hc'
          rcases List.mem_append.1 hc' with h' | h'
          · exact c1 c h'
          · simp only [List.mem_singleton] at h'; subst h'
            exact uOk_onlyR aL _ hwrl (by simp)
        · rw [List.reverse_append, List.flatMap_append, c2]
          simp only [List.reverse_cons, List.reverse_nil, List.nil_append, List.flatMap_cons, List.flatMap_nil,
            List.append_nil, uSem_onlyR]
          have sep2 : Sep ([] : KL w L) (Tree.node s1 p1 v1 a1 b1).slotEntries
              (Tree.node sl pl vl ll lr).slotEntries (Tree.node s2 p2 v2 a2 b2).slotEntries :=
            sep_of_lt (by intro x hx; simp at hx) url uls urr (fun x y hx hy => keyLt_sides hx hy)
          have := unionS_append FL FR _ _ _ _ _ (Nat.le_refl _) sep2
          simp only [List.nil_append] at this
          rw [this, unionS_nil_left]
          subst hFR
          congr 1
          · exact (map_mkRight_of_free aL (fun y hy => coverK_other_side (k := pr.net) (c := false) uls (url y hy))).symm
          · exact unionS_congr _ _ _ (Nat.le_refl _) (fun a ha => (F1 a ha).symm) (fun x _ => rfl)
        · rw [Machine.wt1_append, Machine.wt1_cons, Machine.wt1_nil, uNu_onlyR]; omega

theorem uStep_firstR_ok {sl : Nat} {pl : Pfx w} {vl : Option L} {ll lr : Tree w L}
    {sr : Nat} {pr : Pfx w} {vr : Option R} {rl rr : Tree w R} (aL : Lpm w L) (aR : Lpm w R)
    (hwl : HasWF (Tree.node sl pl vl ll lr)) (hwr : HasWF (Tree.node sr pr vr rl rr))
    (hpre : pr.net <+: pl.net) (hne : pl.net ≠ pr.net)
    (hfr : orLpm (Tree.node sr pr vr rl rr) aR = aR) :
    UStepOk (.firstR (.node sl pl vl ll lr) (.node sr pr vr rl rr), aL, aR) := by
  obtain ⟨f1, f2, f3⟩ := uFirstR_spec aL aR hwl hwr hpre hne hfr
  have hside := Pfx.side_prefix hpre (fun e => hne e.symm)
  obtain ⟨ul, _, _⟩ := under_root hwl
  obtain ⟨ur, url, urr⟩ := under_root hwr
  have uls : Under (pr.net ++ [Pfx.toRight pr pl]) (Tree.node sl pl vl ll lr).slotEntries := ul.mono hside
  have hown : coverK (Tree.node sl pl vl ll lr).slotEntries pr = [] := coverK_below uls (List.prefix_refl _)
  have hsz := size_node_eq sr pr vr rl rr
  refine ⟨f1, ?_, ?_⟩
  · show uSem _ = ((uItem pr none (slotVal (.node sr pr vr rl rr)) aL aR).bind UItem.view).toList ++
      (uExtend aL aR (uFirstR (.node sl pl vl ll lr) pr rl rr)).reverse.flatMap uSem
    rw [f2]
    unfold uSem
    simp only [uL, uR]
    generalize hFL : annOf (Tree.node sr pr vr rl rr).slotEntries aR = FL
    generalize hFR : annOf (Tree.node sl pl vl ll lr).slotEntries aL = FR
    rw [slotEntries_node sr, List.append_assoc]
    have sep1 : Sep ([] : KL w L) (ownS sr pr vr) (Tree.node sl pl vl ll lr).slotEntries (rl.slotEntries ++ rr.slotEntries) :=
      sep_own (by intro x hx; simp at hx) (allKey_ownS sr pr vr) (exists_side uls) (exists_side_append url urr)
    have := unionS_append FL FR _ [] (ownS sr pr vr) (Tree.node sl pl vl ll lr).slotEntries (rl.slotEntries ++ rr.slotEntries)
      (Nat.le_refl _) sep1
    simp only [List.nil_append] at this
    rw [this, unionS_nil_left]
    congr 1
    subst hFR
    rw [view_uItem, slotVal_node]
    cases vr <;> simp [ownS, mkRight, annOf_of_cover_nil aL hown]
  · show Machine.wt1 uNu (uExtend aL aR (uFirstR (.node sl pl vl ll lr) pr rl rr)) + 1 ≤
      (Tree.node sl pl vl ll lr).size + (Tree.node sr pr vr rl rr).size
    omega

/-- every step of the union machine unfolds the denotation of the popped entry -/
theorem uStep_ok (e : UEntry w L R) (h : uOk e) : UStepOk e := by
  obtain ⟨idx, aL, aR⟩ := e
  obtain ⟨hwl, hwr, hrel⟩ := h
  cases idx with
  | both l r =>
    obtain ⟨hnl, hnr, hnet, hfl, hfr⟩ := hrel
    cases l with
    | nil => exact absurd rfl hnl
    | node sl pl vl ll lr =>
      cases r with
      | nil => exact absurd rfl hnr
      | node sr pr vr rl rr => exact uStep_both_ok aL aR hwl hwr hnet hfl hfr
  | firstL l r =>
    obtain ⟨hnl, hnr, hpre, hne, hfl⟩ := hrel
    cases l with
    | nil => exact absurd rfl hnl
    | node sl pl vl ll lr =>
      cases r with
      | nil => exact absurd rfl hnr
      | node sr pr vr rl rr => exact uStep_firstL_ok aL aR hwl hwr hpre hne hfl
  | firstR l r =>
    obtain ⟨hnl, hnr, hpre, hne, hfr⟩ := hrel
    cases l with
    | nil => exact absurd rfl hnl
    | node sl pl vl ll lr =>
      cases r with
      | nil => exact absurd rfl hnr
      | node sr pr vr rl rr => exact uStep_firstR_ok aL aR hwl hwr hpre hne hfr
  | onlyL l =>
    cases l with
    | nil => exact absurd rfl hrel
    | node sl pl vl ll lr => exact uStep_onlyL_ok aL aR hwl
  | onlyR r =>
    cases r with
    | nil => exact absurd rfl hrel
    | node sr pr vr rl rr => exact uStep_onlyR_ok aL aR hwr

/-- `a.union(b)` (and `union_mut`): the items, seen through what `UnionItem` exposes, are the sorted
merge of the two entry lists — one item per key stored in at least one operand, `Both` exactly for
keys stored in both, with the stored values; a one-sided item carries the longest prefix stored on
the other side that covers it (`None` when there is none) -/
theorem union_eq (a : Tree w L) (b : Tree w R) (hwa : HasWF a) (hwb : HasWF b) :
    (union a b).filterMap UItem.view =
      unionS (annOf b.slotEntries none) (annOf a.slotEntries none) a.slotEntries b.slotEntries := by
  unfold union
  obtain ⟨c1, c2, c3⟩ := uNext_spec a b none none hwa hwb
  have hok : ∀ e ∈ (uExtend none none (uNext a b)).reverse, uOk e := fun e he => c1 e (List.mem_reverse.1 he)
  rw [Machine.run_eq_filterMap uStep UItem.view uNu uSem uOk (fun e he => uStep_ok e he) (fuelFor a b) _ hok
    (by rw [Machine.wt1_reverse]; unfold fuelFor; omega)]
  exact c2

end SetOps
