import PT.Lemmas.UnionSpec
import PT.Lemmas.MaskOrder
/-!
# `union` / `union_mut`: the index machine yields the sorted merge, with true LPM annotations
-/
namespace SetOps
variable {w : Nat} {L R : Type}
open Tree Pfx

def uL : UIdx w L R → Tree w L
  | .both l _ => l
  | .firstL l _ => l
  | .firstR l _ => l
  | .onlyL l => l
  | .onlyR _ => .nil

def uR : UIdx w L R → Tree w R
  | .both _ r => r
  | .firstL _ r => r
  | .firstR _ r => r
  | .onlyL _ => .nil
  | .onlyR r => r

/-- annotation of a one-sided item with prefix `p`: its longest-prefix match among the other side's
entries `B`, else the match inherited from above -/
def annOf {T : Type} (B : KL w T) (base : Lpm w T) : Pfx w → Lpm w T := fun p => orE (lpmK B p) base

def uSem (e : UEntry w L R) : List (UV w L R) :=
  unionS (annOf (uR e.1).slotEntries e.2.2) (annOf (uL e.1).slotEntries e.2.1)
    (uL e.1).slotEntries (uR e.1).slotEntries

def uNu (e : UEntry w L R) : Nat := (uL e.1).size + (uR e.1).size

def uOk (e : UEntry w L R) : Prop :=
  HasWF (uL e.1) ∧ HasWF (uR e.1) ∧
  match e.1 with
  | .both l r => l ≠ .nil ∧ r ≠ .nil ∧ rootNet l = rootNet r ∧ orLpm l e.2.1 = e.2.1 ∧ orLpm r e.2.2 = e.2.2
  | .firstL l r => l ≠ .nil ∧ r ≠ .nil ∧ rootNet l <+: rootNet r ∧ rootNet l ≠ rootNet r ∧ orLpm l e.2.1 = e.2.1
  | .firstR l r => l ≠ .nil ∧ r ≠ .nil ∧ rootNet r <+: rootNet l ∧ rootNet l ≠ rootNet r ∧ orLpm r e.2.2 = e.2.2
  | .onlyL l => l ≠ .nil
  | .onlyR r => r ≠ .nil

/-- the root value of a node is already a covering entry for everything under the node, so folding
it into the inherited annotation changes nothing there -/
theorem ann_fold_absorb {T : Type} {s : Nat} {pr : Pfx w} {v : Option T} {l r : Tree w T} (ann : Lpm w T)
    {p : Pfx w} (hp : pr.net <+: p.net) :
    annOf (Tree.node s pr v l r).slotEntries (orLpm (Tree.node s pr v l r) ann) p =
      annOf (Tree.node s pr v l r).slotEntries ann p := by
  unfold annOf
  cases v with
  | none => rfl
  | some y =>
    have hmem : (s, pr, y) ∈ coverK (Tree.node s pr (some y) l r).slotEntries p :=
      List.mem_filter.2 ⟨by simp [slotEntries], (Pfx.contains_iff pr p).2 hp⟩
    unfold lpmK
    cases hg : (coverK (Tree.node s pr (some y) l r).slotEntries p).getLast? with
    | none => rw [List.getLast?_eq_none_iff] at hg; rw [hg] at hmem; simp at hmem
    | some b => rfl

theorem annOf_nil {T : Type} (ann : Lpm w T) (p : Pfx w) : annOf ([] : KL w T) ann p = ann := rfl

theorem annOf_of_cover_nil {T : Type} {B : KL w T} (ann : Lpm w T) {p : Pfx w} (h : coverK B p = []) :
    annOf B ann p = ann := by
  unfold annOf; rw [lpmK_of_cover_nil h]; rfl

/-- below a node on side `c`, with the node's own value folded into the inherited annotation -/
theorem annOf_side {T : Type} {s : Nat} {pr : Pfx w} {v : Option T} {l r : Tree w T} (h : HasWF (.node s pr v l r))
    (c : Bool) {p : Pfx w} (hp : pr.net ++ [c] <+: p.net) {ann : Lpm w T}
    (hfold : orLpm (Tree.node s pr v l r) ann = ann) :
    annOf (Tree.node s pr v l r).slotEntries ann p = annOf (child l r c).slotEntries ann p := by
  unfold annOf
  have := lpmK_side (R := T) h c hp
  rw [this, orE_assoc]
  have e : orE (ownLpm (Tree.node s pr v l r)) ann = ann := by rw [← orLpm_eq]; exact hfold
  rw [e]

theorem orLpm_idem' {T : Type} (t : Tree w T) (ann : Lpm w T) : orLpm t (orLpm t ann) = orLpm t ann :=
  orLpm_idem t ann

/-! ### key order between regions -/

theorem sep_of_lt {A1 : KL w L} {B1 : KL w R} {A2 : KL w L} {B2 : KL w R} {k1 k2 : List Bool}
    (hA1 : Under k1 A1) (hB1 : Under k1 B1) (hA2 : Under k2 A2) (hB2 : Under k2 B2)
    (h : ∀ x y : List Bool, k1 <+: x → k2 <+: y → Spec.keyLt x y = true) : Sep A1 B1 A2 B2 :=
  ⟨fun x hx y hy => h _ _ (hA1 x hx) (hA2 y hy), fun x hx y hy => h _ _ (hA1 x hx) (hB2 y hy),
   fun x hx y hy => h _ _ (hB1 x hx) (hA2 y hy), fun x hx y hy => h _ _ (hB1 x hx) (hB2 y hy)⟩

/-- a list all of whose keys are exactly `k` -/
def AllKey (k : List Bool) {T : Type} (A : KL w T) : Prop := ∀ x ∈ A, keyOf x = k

theorem allKey_ownS {T : Type} (s : Nat) (p : Pfx w) (v : Option T) : AllKey p.net (ownS s p v) :=
  fun _ hx => mem_ownS hx

theorem sep_own {A1 : KL w L} {B1 : KL w R} {A2 : KL w L} {B2 : KL w R} {k : List Bool}
    (hA1 : AllKey k A1) (hB1 : AllKey k B1)
    (hA2 : ∀ x ∈ A2, ∃ c, k ++ [c] <+: keyOf x) (hB2 : ∀ x ∈ B2, ∃ c, k ++ [c] <+: keyOf x) : Sep A1 B1 A2 B2 := by
  have key : ∀ {x y : List Bool}, x = k → (∃ c, k ++ [c] <+: y) → Spec.keyLt x y = true := by
    rintro x y rfl ⟨c, hc⟩
    exact Spec.keyLt_of_proper_prefix ((List.prefix_append _ _).trans hc) (List.ne_of_snoc_prefix hc).symm
  exact ⟨fun x hx y hy => key (hA1 x hx) (hA2 y hy), fun x hx y hy => key (hA1 x hx) (hB2 y hy),
    fun x hx y hy => key (hB1 x hx) (hA2 y hy), fun x hx y hy => key (hB1 x hx) (hB2 y hy)⟩

theorem under_append {T : Type} {k : List Bool} {A B : KL w T} (ha : Under k A) (hb : Under k B) : Under k (A ++ B) :=
  fun x hx => (List.mem_append.1 hx).elim (ha x) (hb x)

theorem exists_side_append {T : Type} {k : List Bool} {A B : KL w T}
    (ha : Under (k ++ [false]) A) (hb : Under (k ++ [true]) B) : ∀ x ∈ A ++ B, ∃ c, k ++ [c] <+: keyOf x :=
  fun x hx => (List.mem_append.1 hx).elim (fun h => ⟨false, ha x h⟩) (fun h => ⟨true, hb x h⟩)

theorem exists_side {T : Type} {k : List Bool} {c : Bool} {A : KL w T} (ha : Under (k ++ [c]) A) :
    ∀ x ∈ A, ∃ c, k ++ [c] <+: keyOf x := fun x hx => ⟨c, ha x hx⟩

/-! ### single entries -/

theorem uSem_onlyL (l : Tree w L) (aL : Lpm w L) (aR : Lpm w R) :
    uSem ((.onlyL l : UIdx w L R), aL, aR) = l.slotEntries.map (mkLeft (fun _ => aR)) := by
  unfold uSem
  simp only [uL, uR, slotEntries]
  rw [unionS_nil_right]
  rfl

theorem uSem_onlyR (r : Tree w R) (aL : Lpm w L) (aR : Lpm w R) :
    uSem ((.onlyR r : UIdx w L R), aL, aR) = r.slotEntries.map (mkRight (fun _ => aL)) := by
  unfold uSem
  simp only [uL, uR, slotEntries]
  rw [unionS_nil_left]
  rfl

theorem map_mkLeft_of_free {A : KL w L} {B : KL w R} (aR : Lpm w R) (h : ∀ a ∈ A, coverK B a.2.1 = []) :
    A.map (mkLeft (annOf B aR)) = A.map (mkLeft (fun _ => aR)) := by
  apply List.map_congr_left
  intro a ha
  simp [mkLeft, annOf_of_cover_nil aR (h a ha)]

theorem map_mkRight_of_free {A : KL w L} {B : KL w R} (aL : Lpm w L) (h : ∀ b ∈ B, coverK A b.2.1 = []) :
    B.map (mkRight (annOf A aL)) = B.map (mkRight (fun _ => aL)) := by
  apply List.map_congr_left
  intro b hb
  simp [mkRight, annOf_of_cover_nil aL (h b hb)]

end SetOps
