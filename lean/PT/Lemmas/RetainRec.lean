import PT.Lemmas.Reach
import PT.Retain
/-!
# The recursion `_retain` (`Tree.retainF`) computes the post-order fold of `_remove_node` (`PMap.retain`)

`foldF f hp cs t`: apply `remove · q hp` for every rejected call `q` of `cs`, in order, to the subtree
`t` (whose parent exists iff `hp`), collecting freed slots and the number of removed values; `leaf`
is the flag of the last call's removal.
-/
namespace Tree
variable {w : Nat} {V : Type}
open Pfx

structure FoldAcc (w : Nat) (V : Type) where
  t : Tree w V
  leaf : Bool
  freed : List Nat
  removed : Nat

def foldStep (f : Pfx w → V → Bool) (hp : Bool) (acc : FoldAcc w V) (e : Pfx w × V) : FoldAcc w V :=
  if f e.1 e.2 then { acc with leaf := false }
  else
    let r := remove acc.t e.1 hp
    ⟨r.t, r.leaf, acc.freed ++ r.freed, acc.removed + (if r.val.isSome then 1 else 0)⟩

def foldFrom (f : Pfx w → V → Bool) (hp : Bool) (acc : FoldAcc w V) (cs : List (Pfx w × V)) : FoldAcc w V :=
  cs.foldl (foldStep f hp) acc

def foldF (f : Pfx w → V → Bool) (hp : Bool) (cs : List (Pfx w × V)) (t : Tree w V) : FoldAcc w V :=
  foldFrom f hp ⟨t, false, [], 0⟩ cs

/-- folding from an accumulated state = the accumulated state combined with the fold from scratch -/
theorem foldFrom_shift (f : Pfx w → V → Bool) (hp : Bool) (cs : List (Pfx w × V)) (acc : FoldAcc w V) :
    foldFrom f hp acc cs =
      ⟨(foldF f hp cs acc.t).t, (if cs = [] then acc.leaf else (foldF f hp cs acc.t).leaf),
        acc.freed ++ (foldF f hp cs acc.t).freed, acc.removed + (foldF f hp cs acc.t).removed⟩ := by
  induction cs generalizing acc with
  | nil => simp [foldFrom, foldF]
  | cons e cs ih =>
    have hL : foldFrom f hp acc (e :: cs) = foldFrom f hp (foldStep f hp acc e) cs := rfl
    have hR : foldF f hp (e :: cs) acc.t = foldFrom f hp (foldStep f hp ⟨acc.t, false, [], 0⟩ e) cs := rfl
    rw [hL, hR, ih (foldStep f hp acc e), ih (foldStep f hp ⟨acc.t, false, [], 0⟩ e)]
    unfold foldStep
    by_cases hf : f e.1 e.2 = true
    · simp [hf]
    · simp only [hf, Bool.false_eq_true, ite_false, List.nil_append, Nat.zero_add, reduceCtorEq]
      by_cases hc : cs = []
      · simp [hc, List.append_assoc, Nat.add_assoc]
      · simp [hc, List.append_assoc, Nat.add_assoc]

theorem foldF_nil (f : Pfx w → V → Bool) (hp : Bool) (t : Tree w V) : foldF f hp [] t = ⟨t, false, [], 0⟩ := rfl

theorem foldF_cons (f : Pfx w → V → Bool) (hp : Bool) (e : Pfx w × V) (cs : List (Pfx w × V)) (t : Tree w V) :
    foldF f hp (e :: cs) t = foldFrom f hp (foldStep f hp ⟨t, false, [], 0⟩ e) cs := rfl

theorem foldF_append (f : Pfx w → V → Bool) (hp : Bool) (xs ys : List (Pfx w × V)) (t : Tree w V) :
    foldF f hp (xs ++ ys) t = foldFrom f hp (foldF f hp xs t) ys := by
  unfold foldF foldFrom; rw [List.foldl_append]

end Tree

namespace Tree
variable {w : Nat} {V : Type}
open Pfx

/-! ### facts about the fold on a subtree -/

theorem foldF_cons_eq (f : Pfx w → V → Bool) (hp : Bool) (e : Pfx w × V) (cs : List (Pfx w × V)) (t : Tree w V) :
    foldF f hp (e :: cs) t =
      (if f e.1 e.2 then foldF f hp cs t
       else
        ⟨(foldF f hp cs (remove t e.1 hp).t).t,
         (if cs = [] then (remove t e.1 hp).leaf else (foldF f hp cs (remove t e.1 hp).t).leaf),
         (remove t e.1 hp).freed ++ (foldF f hp cs (remove t e.1 hp).t).freed,
         (if (remove t e.1 hp).val.isSome then 1 else 0) + (foldF f hp cs (remove t e.1 hp).t).removed⟩) := by
  rw [foldF_cons, foldFrom_shift]
  unfold foldStep
  by_cases hf : f e.1 e.2 = true
  · simp only [hf, ite_true]
    have : foldF f hp cs t = ⟨(foldF f hp cs t).t, (foldF f hp cs t).leaf, (foldF f hp cs t).freed, (foldF f hp cs t).removed⟩ := rfl
    by_cases hc : cs = []
    · subst hc; simp [foldF_nil]
    · simp [hc]
  · simp [hf]

theorem foldF_wf {k : List Bool} {t : Tree w V} (h : WF k t) (f : Pfx w → V → Bool) (hp : Bool)
    (cs : List (Pfx w × V)) : WF k (foldF f hp cs t).t := by
  induction cs generalizing t with
  | nil => exact h
  | cons e cs ih =>
    rw [foldF_cons_eq]
    split
    · exact ih h
    · exact ih (remove_wf h e.1 hp)

theorem foldF_mem {k : List Bool} {t : Tree w V} (h : WF k t) (f : Pfx w → V → Bool) (hp : Bool)
    (cs : List (Pfx w × V)) (e : Pfx w × V) :
    e ∈ (foldF f hp cs t).t.entries ↔ e ∈ t.entries ∧ ∀ c ∈ cs, f c.1 c.2 = false → e.1.net ≠ c.1.net := by
  induction cs generalizing t with
  | nil => simp [foldF_nil]
  | cons c cs ih =>
    rw [foldF_cons_eq]
    by_cases hf : f c.1 c.2 = true
    · simp only [hf, ite_true]
      rw [ih h]
      simp [hf]
    · simp only [hf, Bool.false_eq_true, ite_false]
      rw [ih (remove_wf h c.1 hp), remove_mem h]
      have hf' : f c.1 c.2 = false := by simpa using hf
      simp only [List.mem_cons, forall_eq_or_imp, hf', true_implies]
      constructor
      · rintro ⟨⟨h1, h2⟩, h3⟩; exact ⟨h1, h2, h3⟩
      · rintro ⟨h1, h2, h3⟩; exact ⟨⟨h1, h2⟩, h3⟩

theorem foldF_leaf_nil (f : Pfx w → V → Bool) (hp : Bool) (cs : List (Pfx w × V)) (t : Tree w V)
    (h : (foldF f hp cs t).leaf = true) : (foldF f hp cs t).t = nil := by
  induction cs generalizing t with
  | nil => simp [foldF_nil] at h
  | cons c cs ih =>
    rw [foldF_cons_eq] at h ⊢
    by_cases hf : f c.1 c.2 = true
    · simp only [hf, ite_true] at h ⊢; exact ih _ h
    · simp only [hf, Bool.false_eq_true, ite_false] at h ⊢
      by_cases hc : cs = []
      · subst hc
        simp only [ite_true] at h
        simp only [foldF_nil]
        exact remove_leaf h
      · simp only [hc, ite_false] at h
        exact ih _ h

/-- the descent of `remove` into the child that holds the key -/
theorem remove_of_under {k : List Bool} {s : Nat} {p : Pfx w} {v : Option V} {l r : Tree w V}
    (hwf : WF k (node s p v l r)) {q : Pfx w} {c : Bool} {e : Pfx w × V}
    (he : e ∈ (child l r c).entries) (hq : e.1.net = q.net) (hp : Bool) :
    remove (node s p v l r) q hp = afterChild s p v l r c hp (remove (child l r c) q true) := by
  have hd := getDir_of_under hwf he hq
  rw [remove]
  cases c <;> simp [hd, child]

theorem remove_of_key {s : Nat} {p : Pfx w} {v : Option V} {l r : Tree w V} {q : Pfx w} (hq : p.net = q.net)
    (hp : Bool) : remove (node s p v l r) q hp = removeHere s p v l r hp := by
  rw [remove, getDir_of_net_eq hq]

/-- a removal reports `leaf` only for a tree that is a single leaf holding the key -/
theorem remove_leaf_entries {t : Tree w V} {q : Pfx w} {hp : Bool} (h : (remove t q hp).leaf = true) :
    ∀ e ∈ t.entries, e.1.net = q.net := by
  cases t with
  | nil => intro e he; simp [entries] at he
  | node s p v l r =>
    rw [remove] at h
    split at h
    · next hd =>
      have hpq := getDir_reached hd
      unfold removeHere at h
      cases l <;> cases r <;> cases hp <;> simp at h
      intro e he
      rw [entries_node] at he
      simp only [entries, List.append_nil, mem_own] at he
      rw [he.2]; exact hpq
    · rw [afterChild_leaf] at h; cases h
    · rw [afterChild_leaf] at h; cases h
    · cases h

end Tree

namespace Tree
variable {w : Nat} {V : Type}
open Pfx

theorem setChild_child_self (s : Nat) (p : Pfx w) (v : Option V) (l r : Tree w V) (c : Bool) :
    setChild s p v l r c (child l r c) = node s p v l r := by cases c <;> rfl

theorem setChild_eq_node (s : Nat) (p : Pfx w) (v : Option V) (l r : Tree w V) (c : Bool) (x : Tree w V) :
    ∃ l' r', setChild s p v l r c x = node s p v l' r' ∧ child l' r' c = x ∧
      child l' r' (!c) = child l r (!c) ∧ ∀ y, setChild s p v l' r' c y = setChild s p v l r c y := by
  cases c
  · exact ⟨x, r, rfl, rfl, rfl, fun _ => rfl⟩
  · exact ⟨l, x, rfl, rfl, rfl, fun _ => rfl⟩

theorem setChild_wf {k : List Bool} {s : Nat} {p : Pfx w} {v : Option V} {l r : Tree w V}
    (h : WF k (node s p v l r)) (c : Bool) {x : Tree w V} (hx : WF (p.net ++ [c]) x) :
    WF k (setChild s p v l r c x) := by
  cases c
  · exact ⟨h.1, hx, h.2.2⟩
  · exact ⟨h.1, h.2.1, hx⟩

/-- **lifting**: folding calls that all live in one child of a node = folding them in the child, then
applying the collapse rule of `_remove_node` once, for the last call -/
theorem fold_lift (f : Pfx w → V → Bool) {k : List Bool} {s : Nat} {p : Pfx w} {v : Option V} (c hp : Bool)
    (cs : List (Pfx w × V)) :
    ∀ (l r : Tree w V), WF k (node s p v l r) →
      (∀ e ∈ cs, ∃ e' ∈ (child l r c).entries, e'.1.net = e.1.net) →
      cs.Pairwise (fun a b => a.1.net ≠ b.1.net) →
      foldF f hp cs (node s p v l r) =
        (if (foldF f true cs (child l r c)).leaf && hp && v.isNone then
          ⟨child l r (!c), false, (foldF f true cs (child l r c)).freed ++ [s], (foldF f true cs (child l r c)).removed⟩
        else
          ⟨setChild s p v l r c (foldF f true cs (child l r c)).t, false, (foldF f true cs (child l r c)).freed,
            (foldF f true cs (child l r c)).removed⟩) := by
  induction cs with
  | nil =>
    intro l r _ _ _
    simp [foldF_nil, setChild_child_self]
  | cons e cs ih =>
    intro l r hwf hsub hnd
    have hnd' := (List.pairwise_cons.1 hnd).2
    have hne := (List.pairwise_cons.1 hnd).1
    have hsub' : ∀ e ∈ cs, ∃ e' ∈ (child l r c).entries, e'.1.net = e.1.net :=
      fun x hx => hsub x (List.mem_cons_of_mem _ hx)
    rw [foldF_cons_eq f hp, foldF_cons_eq f true]
    by_cases hf : f e.1 e.2 = true
    · simp only [hf, ite_true]
      exact ih l r hwf hsub' hnd'
    · simp only [hf, Bool.false_eq_true, ite_false]
      obtain ⟨e', he', hk'⟩ := hsub e (List.mem_cons_self ..)
      rw [remove_of_under hwf he' hk' hp]
      generalize hres : remove (child l r c) e.1 true = res
      have hcw : WF (p.net ++ [c]) (child l r c) := WF.of_child hwf c
      by_cases hcol : (res.leaf && hp && v.isNone) = true
      · -- the child was a single leaf: nothing else can be left to call
        have hcs : cs = [] := by
          cases cs with
          | nil => rfl
          | cons c2 cs2 =>
            exfalso
            obtain ⟨e2', he2', hk2'⟩ := hsub c2 (List.mem_cons_of_mem _ (List.mem_cons_self ..))
            have hl : res.leaf = true := by
              simp only [Bool.and_eq_true] at hcol; exact hcol.1.1
            have := remove_leaf_entries (hres ▸ hl) e2' he2'
            exact hne c2 (List.mem_cons_self ..) (by rw [← hk2', this])
        subst hcs
        simp only [foldF_nil, ite_true]
        unfold afterChild
        simp only [hcol, ite_true]
        simp
      · have hcol' : (res.leaf && hp && v.isNone) = false := by
          cases hh : (res.leaf && hp && v.isNone) with
          | false => rfl
          | true => exact absurd hh hcol
        have hac : afterChild s p v l r c hp res = ⟨setChild s p v l r c res.t, res.val, res.freed, false⟩ := by
          unfold afterChild; simp [hcol']
        rw [hac]
        simp only []
        obtain ⟨l', r', hP', hch', hsib', hset'⟩ := setChild_eq_node s p v l r c res.t
        have hrw : WF (p.net ++ [c]) res.t := hres ▸ remove_wf hcw e.1 true
        have hwf' : WF k (node s p v l' r') := hP' ▸ setChild_wf hwf c hrw
        have hsub2 : ∀ x ∈ cs, ∃ e' ∈ (child l' r' c).entries, e'.1.net = x.1.net := by
          intro x hx
          obtain ⟨x', hx', hkx⟩ := hsub' x hx
          refine ⟨x', ?_, hkx⟩
          rw [hch', ← hres, remove_mem hcw]
          exact ⟨hx', fun h => hne x hx (by rw [← hkx, h])⟩
        have := ih l' r' hwf' hsub2 hnd'
        rw [hP', this, hch', hsib']
        by_cases hc : cs = []
        · subst hc
          simp only [foldF_nil, ite_true, Bool.false_and, Bool.false_eq_true, ite_false, hcol', hset']
        · simp only [hc, ite_false, hset']
          split <;> simp [List.append_assoc, Nat.add_assoc]

end Tree

namespace Tree
variable {w : Nat} {V : Type}
open Pfx PMap

def RetRes.acc (r : RetRes w V) : FoldAcc w V := ⟨r.t, r.leaf, r.freed, r.removed⟩

theorem postorder_keys_distinct {k : List Bool} {t : Tree w V} (h : WF k t) :
    t.postorder.Pairwise (fun a b => a.1.net ≠ b.1.net) := by
  rw [List.Perm.pairwise_iff (fun h => Ne.symm h) (postorder_perm t)]
  exact (entries_sorted h).imp (fun {a b} hab heq => by rw [heq, Spec.keyLt_irrefl] at hab; cases hab)

/-- while calls are still outstanding the subtree cannot have been removed as a leaf -/
theorem foldF_prefix_leaf {k : List Bool} {t : Tree w V} (h : WF k t) (f : Pfx w → V → Bool) (hp : Bool)
    (n : Nat) (hn : n < t.postorder.length) : (foldF f hp (t.postorder.take n) t).leaf = false := by
  cases hl : (foldF f hp (t.postorder.take n) t).leaf with
  | false => rfl
  | true =>
    exfalso
    have hnil := foldF_leaf_nil f hp _ t hl
    have hd := postorder_keys_distinct h
    rw [← List.take_append_drop n t.postorder] at hd
    obtain ⟨_, _, hcross⟩ := List.pairwise_append.1 hd
    cases hdrop : t.postorder.drop n with
    | nil => have := List.drop_eq_nil_iff.1 hdrop; omega
    | cons e rest =>
      have he : e ∈ t.postorder := by
        have : e ∈ t.postorder.drop n := by rw [hdrop]; exact List.mem_cons_self ..
        exact List.mem_of_mem_drop this
      have hmem := (foldF_mem h f hp (t.postorder.take n) e).2
        ⟨(mem_postorder_iff t e).1 he, fun c hc _ heq =>
          hcross c hc e (by rw [hdrop]; exact List.mem_cons_self ..) heq.symm⟩
      rw [hnil] at hmem
      simp [entries] at hmem

theorem sub_of_take {t : Tree w V} (n : Nat) :
    ∀ e ∈ t.postorder.take n, ∃ e' ∈ t.entries, e'.1.net = e.1.net :=
  fun e he => ⟨e, (mem_postorder_iff t e).1 (List.mem_of_mem_take he), rfl⟩

/-! ### unfolding `retainF` along its branches -/

section unfold
variable (f : Pfx w → V → Bool) (s : Nat) (p : Pfx w) (v : Option V) (l r : Tree w V) (hp : Bool) (n : Nat)

theorem retainF_abortL (h : (retainF f l true n).aborted = true) :
    retainF f (node s p v l r) hp n =
      ⟨node s p v (retainF f l true n).t r, false, (retainF f l true n).freed, (retainF f l true n).removed,
        (retainF f l true n).budget, true⟩ := by
  rw [retainF]; simp [h]

theorem retainF_collapseL (h1 : (retainF f l true n).aborted = false)
    (h2 : ((retainF f l true n).leaf && hp && v.isNone) = true) :
    retainF f (node s p v l r) hp n =
      ⟨(retainF f r hp (retainF f l true n).budget).t, (retainF f r hp (retainF f l true n).budget).leaf,
        (retainF f l true n).freed ++ [s] ++ (retainF f r hp (retainF f l true n).budget).freed,
        (retainF f l true n).removed + (retainF f r hp (retainF f l true n).budget).removed,
        (retainF f r hp (retainF f l true n).budget).budget,
        (retainF f r hp (retainF f l true n).budget).aborted⟩ := by
  rw [retainF]; simp only [h1, Bool.false_eq_true, ite_false, h2, ite_true]

theorem retainF_abortR (h1 : (retainF f l true n).aborted = false)
    (h2 : ((retainF f l true n).leaf && hp && v.isNone) = false)
    (h3 : (retainF f r true (retainF f l true n).budget).aborted = true) :
    retainF f (node s p v l r) hp n =
      ⟨node s p v (retainF f l true n).t (retainF f r true (retainF f l true n).budget).t, false,
        (retainF f l true n).freed ++ (retainF f r true (retainF f l true n).budget).freed,
        (retainF f l true n).removed + (retainF f r true (retainF f l true n).budget).removed,
        (retainF f r true (retainF f l true n).budget).budget, true⟩ := by
  rw [retainF]; simp only [h1, Bool.false_eq_true, ite_false, h2, h3, ite_true]

theorem retainF_collapseR (h1 : (retainF f l true n).aborted = false)
    (h2 : ((retainF f l true n).leaf && hp && v.isNone) = false)
    (h3 : (retainF f r true (retainF f l true n).budget).aborted = false)
    (h4 : ((retainF f r true (retainF f l true n).budget).leaf && hp && v.isNone) = true) :
    retainF f (node s p v l r) hp n =
      ⟨(retainF f l true n).t, false,
        (retainF f l true n).freed ++ (retainF f r true (retainF f l true n).budget).freed ++ [s],
        (retainF f l true n).removed + (retainF f r true (retainF f l true n).budget).removed,
        (retainF f r true (retainF f l true n).budget).budget, false⟩ := by
  rw [retainF]; simp only [h1, Bool.false_eq_true, ite_false, h2, h3, h4, ite_true]

theorem retainF_own_none (h1 : (retainF f l true n).aborted = false)
    (h2 : ((retainF f l true n).leaf && hp) = false)
    (h3 : (retainF f r true (retainF f l true n).budget).aborted = false)
    (h4 : ((retainF f r true (retainF f l true n).budget).leaf && hp) = false) :
    retainF f (node s p none l r) hp n =
      ⟨node s p none (retainF f l true n).t (retainF f r true (retainF f l true n).budget).t, false,
            (retainF f l true n).freed ++ (retainF f r true (retainF f l true n).budget).freed,
            (retainF f l true n).removed + (retainF f r true (retainF f l true n).budget).removed,
            (retainF f r true (retainF f l true n).budget).budget, false⟩ := by
  rw [retainF]; simp [h1, h2, h3, h4]

theorem retainF_own_some (x : V) (h1 : (retainF f l true n).aborted = false)
    (h3 : (retainF f r true (retainF f l true n).budget).aborted = false) :
    retainF f (node s p (some x) l r) hp n =
      (if (retainF f r true (retainF f l true n).budget).budget = 0 then
          ⟨node s p (some x) (retainF f l true n).t (retainF f r true (retainF f l true n).budget).t, false,
              (retainF f l true n).freed ++ (retainF f r true (retainF f l true n).budget).freed,
              (retainF f l true n).removed + (retainF f r true (retainF f l true n).budget).removed, 0, true⟩
       else if f p x then
              ⟨node s p (some x) (retainF f l true n).t (retainF f r true (retainF f l true n).budget).t, false,
                (retainF f l true n).freed ++ (retainF f r true (retainF f l true n).budget).freed,
                (retainF f l true n).removed + (retainF f r true (retainF f l true n).budget).removed,
                (retainF f r true (retainF f l true n).budget).budget - 1, false⟩
            else
              ⟨(removeHere s p (some x) (retainF f l true n).t (retainF f r true (retainF f l true n).budget).t hp).t,
                (removeHere s p (some x) (retainF f l true n).t (retainF f r true (retainF f l true n).budget).t hp).leaf,
                (retainF f l true n).freed ++ (retainF f r true (retainF f l true n).budget).freed ++
                  (removeHere s p (some x) (retainF f l true n).t (retainF f r true (retainF f l true n).budget).t hp).freed,
                (retainF f l true n).removed + (retainF f r true (retainF f l true n).budget).removed + 1,
                (retainF f r true (retainF f l true n).budget).budget - 1, false⟩) := by
  rw [retainF]
  simp only [h1, h3, Bool.false_eq_true, ite_false, Option.isNone_some, Bool.and_false]
  cases hb : (retainF f r true (retainF f l true n).budget).budget with
  | zero => simp
  | succ b => simp

end unfold

end Tree

namespace Tree
variable {w : Nat} {V : Type}
open Pfx PMap

theorem FoldAcc.ext' {a b : FoldAcc w V} (h1 : a.t = b.t) (h2 : a.leaf = b.leaf) (h3 : a.freed = b.freed)
    (h4 : a.removed = b.removed) : a = b := by
  cases a; cases b; simp_all

/-- **the recursion computes the fold**: `_retain` on a subtree, allowed `n` predicate calls, leaves the
tree, flag, freed slots and removal count of folding `_remove_node`-by-key over the first `n` entries of
the subtree in post-order; it aborts exactly when `n` is less than the number of entries -/
theorem retainF_eq_fold (f : Pfx w → V → Bool) {k : List Bool} {t : Tree w V} (hwf : WF k t) (hp : Bool) (n : Nat) :
    (retainF f t hp n).acc = foldF f hp (t.postorder.take n) t ∧
    (retainF f t hp n).budget = n - t.postorder.length ∧
    (retainF f t hp n).aborted = decide (n < t.postorder.length) := by
  induction t generalizing k hp n with
  | nil => simp [retainF, RetRes.acc, postorder, foldF_nil]
  | node s p v l r ihl ihr =>
    obtain ⟨hlA, hlB, hlC⟩ := ihl hwf.2.1 true n
    have hlt := congrArg FoldAcc.t hlA
    have hll := congrArg FoldAcc.leaf hlA
    have hlf := congrArg FoldAcc.freed hlA
    have hlr := congrArg FoldAcc.removed hlA
    simp only [RetRes.acc] at hlt hll hlf hlr
    rw [postorder_node]
    have hsubL : ∀ m, ∀ e ∈ l.postorder.take m, ∃ e' ∈ (child l r false).entries, e'.1.net = e.1.net :=
      fun m => sub_of_take m
    have hdL : ∀ m, (l.postorder.take m).Pairwise (fun a b => a.1.net ≠ b.1.net) :=
      fun m => (postorder_keys_distinct hwf.2.1).sublist (List.take_sublist _ _)
    have liftL := fun m => fold_lift f (v := v) false hp (l.postorder.take m) l r hwf (hsubL m) (hdL m)
    simp only [child_false, Bool.not_false, child_true] at liftL
    by_cases hn : n < l.postorder.length
    · -- the predicate panics inside the left subtree
      have hab : (retainF f l true n).aborted = true := by rw [hlC]; simp [hn]
      have htake : (l.postorder ++ r.postorder ++ own p v).take n = l.postorder.take n := by
        rw [List.append_assoc, List.take_append]
        have : n - l.postorder.length = 0 := by omega
        rw [this]; simp
      have hleaf := foldF_prefix_leaf hwf.2.1 f true n hn
      rw [retainF_abortL f s p v l r hp n hab, htake, liftL n, hleaf]
      refine ⟨?_, ?_, ?_⟩
      · simp only [Bool.false_and, Bool.false_eq_true, ite_false, RetRes.acc, setChild]
        rw [hlt, hlf, hlr]
      · simp only [List.length_append]; rw [hlB]; omega
      · simp only [List.length_append]; simp; omega
    · have hn' : l.postorder.length ≤ n := Nat.le_of_not_lt hn
      have hab : (retainF f l true n).aborted = false := by rw [hlC]; simp [hn]
      have htl : l.postorder.take n = l.postorder := List.take_of_length_le hn'
      rw [htl] at hlt hll hlf hlr
      have liftL' := liftL n
      rw [htl] at liftL'
      have htake : (l.postorder ++ r.postorder ++ own p v).take n =
          l.postorder ++ (r.postorder ++ own p v).take (n - l.postorder.length) := by
        rw [List.append_assoc, List.take_append, htl]
      rw [htake, foldF_append, liftL', foldFrom_shift]
      by_cases hcol : ((retainF f l true n).leaf && hp && v.isNone) = true
      · -- the left child went as a leaf and took this node with it: the right child stands here now
        have hv : v = none := by
          simp only [Bool.and_eq_true, Option.isNone_iff_eq_none] at hcol; exact hcol.2
        subst hv
        obtain ⟨hrA, hrB, hrC⟩ := ihr (WF.up hwf.1 hwf.2.2) hp (n - l.postorder.length)
        have hrt := congrArg FoldAcc.t hrA
        have hrl := congrArg FoldAcc.leaf hrA
        have hrf := congrArg FoldAcc.freed hrA
        have hrr := congrArg FoldAcc.removed hrA
        simp only [RetRes.acc] at hrt hrl hrf hrr
        rw [retainF_collapseL f s p none l r hp n hab hcol, hlB]
        rw [← hll, hcol]
        simp only [ite_true, own, List.append_nil]
        refine ⟨?_, ?_, ?_⟩
        · apply FoldAcc.ext' <;> simp only [RetRes.acc]
          · exact hrt
          · rw [hrl]
            by_cases he : r.postorder.take (n - l.postorder.length) = []
            · simp [he, foldF_nil]
            · simp [he]
          · rw [hrf, hlf]
          · rw [hrr, hlr]
        · rw [hrB]; simp only [List.length_append, List.length_nil]; omega
        · rw [hrC]; simp only [List.length_append, List.length_nil]
          have : (n - l.postorder.length < r.postorder.length) ↔ (n < l.postorder.length + r.postorder.length + 0) := by omega
          simp [this]
      · have hcol' : ((retainF f l true n).leaf && hp && v.isNone) = false := by
          cases hh : ((retainF f l true n).leaf && hp && v.isNone) with
          | false => rfl
          | true => exact absurd hh hcol
        rw [← hll, hcol']
        simp only [Bool.false_eq_true, ite_false, setChild]
        -- the node after the left part
        have hwl : WF (p.net ++ [false]) (foldF f true l.postorder l).t := foldF_wf hwf.2.1 f true _
        have hwf' : WF k (node s p v (foldF f true l.postorder l).t r) := ⟨hwf.1, hwl, hwf.2.2⟩
        obtain ⟨hrA, hrB, hrC⟩ := ihr hwf.2.2 true (n - l.postorder.length)
        have hrt := congrArg FoldAcc.t hrA
        have hrl := congrArg FoldAcc.leaf hrA
        have hrf := congrArg FoldAcc.freed hrA
        have hrr := congrArg FoldAcc.removed hrA
        simp only [RetRes.acc] at hrt hrl hrf hrr
        have hsubR : ∀ m, ∀ e ∈ r.postorder.take m,
            ∃ e' ∈ (child (foldF f true l.postorder l).t r true).entries, e'.1.net = e.1.net :=
          fun m => sub_of_take m
        have hdR : ∀ m, (r.postorder.take m).Pairwise (fun a b => a.1.net ≠ b.1.net) :=
          fun m => (postorder_keys_distinct hwf.2.2).sublist (List.take_sublist _ _)
        have liftR := fun m => fold_lift f (v := v) true hp (r.postorder.take m) _ r hwf' (hsubR m) (hdR m)
        simp only [child_false, Bool.not_true, child_true, setChild, ite_true] at liftR
        by_cases hn2 : n - l.postorder.length < r.postorder.length
        · -- the predicate panics inside the right subtree
          have habR : (retainF f r true (retainF f l true n).budget).aborted = true := by
            rw [hlB, hrC]; simp [hn2]
          have htake2 : (r.postorder ++ own p v).take (n - l.postorder.length) =
              r.postorder.take (n - l.postorder.length) := by
            rw [List.take_append]
            have : n - l.postorder.length - r.postorder.length = 0 := by omega
            rw [this]; simp
          have hleaf := foldF_prefix_leaf hwf.2.2 f true _ hn2
          rw [retainF_abortR f s p v l r hp n hab hcol' habR, hlB, htake2, liftR, hleaf]
          refine ⟨?_, ?_, ?_⟩
          · apply FoldAcc.ext' <;> simp only [RetRes.acc, Bool.false_and, Bool.false_eq_true, ite_false]
            · rw [hlt, hrt]
            · split <;> rfl
            · rw [hlf, hrf]
            · rw [hlr, hrr]
          · rw [hrB]; simp only [List.length_append]; omega
          · simp only [List.length_append]; simp; omega
        · have hn2' : r.postorder.length ≤ n - l.postorder.length := Nat.le_of_not_lt hn2
          have habR : (retainF f r true (retainF f l true n).budget).aborted = false := by
            rw [hlB, hrC]; simp [hn2]
          have htr : r.postorder.take (n - l.postorder.length) = r.postorder := List.take_of_length_le hn2'
          rw [htr] at hrt hrl hrf hrr
          have liftR' := liftR (n - l.postorder.length)
          rw [htr] at liftR'
          have htake2 : (r.postorder ++ own p v).take (n - l.postorder.length) =
              r.postorder ++ (own p v).take (n - l.postorder.length - r.postorder.length) := by
            rw [List.take_append, htr]
          rw [htake2, foldF_append, liftR', foldFrom_shift]
          rw [hlB] at habR
          by_cases hcolR : ((retainF f r true (n - l.postorder.length)).leaf && hp && v.isNone) = true
          · -- the right child went as a leaf and took this node with it: the left child stands here now
            have hv : v = none := by
              simp only [Bool.and_eq_true, Option.isNone_iff_eq_none] at hcolR; exact hcolR.2
            subst hv
            rw [retainF_collapseR f s p none l r hp n hab hcol' (hlB ▸ habR) (hlB ▸ hcolR), hlB]
            rw [← hrl, hcolR]
            simp only [ite_true, own, List.take_nil, foldF_nil, List.append_nil, Nat.add_zero]
            refine ⟨?_, ?_, ?_⟩
            · apply FoldAcc.ext' <;> simp only [RetRes.acc, ite_true]
              · exact hlt
              · first | rfl | (split <;> rfl) | simp
              · rw [hlf, hrf, List.append_assoc]
              · rw [hlr, hrr]
            · rw [hrB]; simp only [List.length_append, List.length_nil]; omega
            · simp only [List.length_append, List.length_nil]; simp; omega
          · have hcolR' : ((retainF f r true (n - l.postorder.length)).leaf && hp && v.isNone) = false := by
              cases hh : ((retainF f r true (n - l.postorder.length)).leaf && hp && v.isNone) with
              | false => rfl
              | true => exact absurd hh hcolR
            rw [← hrl, hcolR']
            simp only [Bool.false_eq_true, ite_false]
            cases v with
            | none =>
              have h2 : ((retainF f l true n).leaf && hp) = false := by simpa using hcol'
              have h4 : ((retainF f r true (retainF f l true n).budget).leaf && hp) = false := by
                rw [hlB]; simpa using hcolR'
              rw [retainF_own_none f s p l r hp n hab h2 (hlB ▸ habR) h4, hlB]
              simp only [own, List.take_nil, foldF_nil, List.append_nil, Nat.add_zero, ite_true]
              refine ⟨?_, ?_, ?_⟩
              · apply FoldAcc.ext' <;> simp only [RetRes.acc]
                · rw [hlt, hrt]
                · first | rfl | (split <;> rfl) | simp
                · rw [hlf, hrf]
                · rw [hlr, hrr]
              · rw [hrB]; simp only [List.length_append, List.length_nil]; omega
              · simp only [List.length_append, List.length_nil]; simp; omega
            | some x =>
              rw [retainF_own_some f s p l r hp n x hab (hlB ▸ habR), hlB, hrB]
              simp only [own]
              by_cases hb : n - l.postorder.length - r.postorder.length = 0
              · -- the predicate panics at this node's own call
                simp only [hb, ite_true, List.take_zero, foldF_nil, List.append_nil, Nat.add_zero]
                refine ⟨?_, ?_, ?_⟩
                · apply FoldAcc.ext' <;> simp only [RetRes.acc, ite_true]
                  · rw [hlt, hrt]
                  · first | rfl | (split <;> rfl) | simp
                  · rw [hlf, hrf]
                  · rw [hlr, hrr]
                · simp only [List.length_append, List.length_cons, List.length_nil]; omega
                · simp only [List.length_append, List.length_cons, List.length_nil]; simp; omega
              · have htk : [(p, x)].take (n - l.postorder.length - r.postorder.length) = [(p, x)] :=
                  List.take_of_length_le (by simp; omega)
                simp only [hb, ite_false, htk]
                rw [foldF_cons_eq, foldF_nil]
                by_cases hfx : f p x = true
                · simp only [hfx, ite_true, foldF_nil]
                  refine ⟨?_, ?_, ?_⟩
                  · apply FoldAcc.ext' <;> simp only [RetRes.acc]
                    · rw [hlt, hrt]
                    · simp
                    · rw [hlf, hrf]; simp
                    · rw [hlr, hrr]; simp
                  · simp only [List.length_append, List.length_cons, List.length_nil]; omega
                  · simp only [List.length_append, List.length_cons, List.length_nil]; simp; omega
                · simp only [hfx, Bool.false_eq_true, ite_false, foldF_nil, ite_true]
                  rw [remove_of_key rfl hp]
                  refine ⟨?_, ?_, ?_⟩
                  · apply FoldAcc.ext' <;> simp only [RetRes.acc, removeHere_val]
                    · rw [hlt, hrt]
                    · rw [hlt, hrt]; simp
                    · rw [hlt, hrt, hlf, hrf]; simp [List.append_assoc]
                    · rw [hlr, hrr]; simp; omega
                  · simp only [List.length_append, List.length_cons, List.length_nil]; omega
                  · simp only [List.length_append, List.length_cons, List.length_nil]; simp; omega

end Tree

namespace PMap
variable {w : Nat} {V : Type}
open Tree

/-- the map around a fold accumulator -/
def liftAcc (m : PMap w V) (a : FoldAcc w V) : PMap w V := ⟨a.t, m.free ++ a.freed, m.alloc, m.count - a.removed⟩

theorem retain_fold_aux (m0 : PMap w V) (f : Pfx w → V → Bool) (cs : List (Pfx w × V)) (a : FoldAcc w V) :
    cs.foldl (retainStep f) (liftAcc m0 a) = liftAcc m0 (foldFrom f false a cs) := by
  induction cs generalizing a with
  | nil => rfl
  | cons e cs ih =>
    simp only [List.foldl_cons, foldFrom]
    have : retainStep f (liftAcc m0 a) e = liftAcc m0 (foldStep f false a e) := by
      unfold retainStep foldStep
      by_cases hf : f e.1 e.2 = true
      · simp [hf, liftAcc]
      · simp only [hf, Bool.false_eq_true, ite_false]
        unfold PMap.remove withRem liftAcc
        simp only [List.append_assoc]
        congr 1
        split <;> omega
    rw [this]
    exact ih _

/-- `PMap.retain` (the fold used by the theorems) in terms of the subtree fold -/
theorem retain_eq_foldF (m : PMap w V) (f : Pfx w → V → Bool) (stop : Option Nat) :
    m.retain f stop = liftAcc m (foldF f false (m.retainCalls stop) m.root) := by
  unfold retain
  have := retain_fold_aux m f (m.retainCalls stop) ⟨m.root, false, [], 0⟩
  simpa [liftAcc, foldF] using this

/-- **`_retain` as written (the recursion) is the post-order fold of `_remove_node`**, for complete runs
and for runs cut short by a panicking predicate at any call index: same tree, same free list (order
included), same counter -/
theorem retainRec_eq {m : PMap w V} (h : m.TreeWF) (f : Pfx w → V → Bool) (stop : Option Nat) :
    m.retainRec f stop = m.retain f stop := by
  rw [retain_eq_foldF]
  unfold retainRec liftAcc
  cases stop with
  | none =>
    obtain ⟨hA, _, _⟩ := retainF_eq_fold f h.wf false m.root.postorder.length
    simp only [List.take_of_length_le (Nat.le_refl _)] at hA
    simp only [retainCalls]
    rw [← hA]; rfl
  | some k =>
    obtain ⟨hA, _, _⟩ := retainF_eq_fold f h.wf false (k - 1)
    simp only [retainCalls]
    rw [← hA]; rfl

end PMap
