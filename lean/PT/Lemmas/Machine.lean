import PT.SetOps
/-!
# The generic explicit-stack machine against a denotation

If every stack entry `e` has a denotation `sem e` that unfolds as "what the step yields, followed
by the denotations of what it pushes, in pop order", and pushing weighs less than what was popped,
then running the machine with enough fuel yields the concatenated denotations of the stack.
-/
namespace Machine
variable {E I : Type}

/-- total weight of a stack: every entry costs its measure plus one -/
def wt (μ : E → Nat) (st : List E) : Nat := (st.map (fun e => μ e + 1)).sum

theorem wt_nil (μ : E → Nat) : wt μ [] = 0 := rfl
theorem wt_cons (μ : E → Nat) (e : E) (st : List E) : wt μ (e :: st) = μ e + 1 + wt μ st := by simp [wt]
theorem wt_append (μ : E → Nat) (a b : List E) : wt μ (a ++ b) = wt μ a + wt μ b := by simp [wt]
theorem wt_reverse (μ : E → Nat) (a : List E) : wt μ a.reverse = wt μ a := by
  induction a with
  | nil => rfl
  | cons x xs ih => simp [wt_cons, wt_append, wt_nil, ih]; omega

theorem run_eq (step : E → Option I × List E) (μ : E → Nat) (sem : E → List I) (Ok : E → Prop)
    (hstep : ∀ e, Ok e →
      (∀ c ∈ (step e).2, Ok c) ∧
      sem e = (step e).1.toList ++ (step e).2.reverse.flatMap sem ∧
      wt μ (step e).2 ≤ μ e) :
    ∀ (fuel : Nat) (st : List E), (∀ e ∈ st, Ok e) → wt μ st ≤ fuel →
      runMachine step fuel st = st.flatMap sem := by
  intro fuel
  induction fuel with
  | zero =>
    intro st _ hw
    cases st with
    | nil => rfl
    | cons e es => simp [wt_cons] at hw
  | succ f ih =>
    intro st hok hw
    cases st with
    | nil => rfl
    | cons e es =>
      obtain ⟨h1, h2, h3⟩ := hstep e (hok e (List.mem_cons_self ..))
      have hok' : ∀ c ∈ (step e).2.reverse ++ es, Ok c := by
        intro c hc
        rcases List.mem_append.1 hc with hc | hc
        · exact h1 c (List.mem_reverse.1 hc)
        · exact hok c (List.mem_cons_of_mem _ hc)
      have hw' : wt μ ((step e).2.reverse ++ es) ≤ f := by
        rw [wt_append, wt_reverse]; rw [wt_cons] at hw; omega
      have := ih _ hok' hw'
      simp only [runMachine, List.flatMap_cons]
      rw [h2]
      cases hs : (step e).1 with
      | none => simp [this, List.flatMap_append]
      | some i => simp [this, List.flatMap_append]

end Machine

namespace Machine
variable {E I J : Type}

/-- total weight with weights given directly (each entry weighs at least one) -/
def wt1 (ν : E → Nat) (st : List E) : Nat := (st.map ν).sum

theorem wt1_nil (ν : E → Nat) : wt1 ν [] = 0 := rfl
theorem wt1_cons (ν : E → Nat) (e : E) (st : List E) : wt1 ν (e :: st) = ν e + wt1 ν st := by simp [wt1]
theorem wt1_append (ν : E → Nat) (a b : List E) : wt1 ν (a ++ b) = wt1 ν a + wt1 ν b := by simp [wt1]
theorem wt1_reverse (ν : E → Nat) (a : List E) : wt1 ν a.reverse = wt1 ν a := by
  induction a with
  | nil => rfl
  | cons x xs ih => simp [wt1_cons, wt1_append, wt1_nil, ih]; omega

/-- variant of `run_eq`: the yielded items are observed through `g` (items `g` maps to `none` are
dropped), and every step strictly decreases the total weight -/
theorem run_eq_filterMap (step : E → Option I × List E) (g : I → Option J) (ν : E → Nat) (sem : E → List J)
    (Ok : E → Prop)
    (hstep : ∀ e, Ok e →
      (∀ c ∈ (step e).2, Ok c) ∧
      sem e = ((step e).1.bind g).toList ++ (step e).2.reverse.flatMap sem ∧
      wt1 ν (step e).2 + 1 ≤ ν e) :
    ∀ (fuel : Nat) (st : List E), (∀ e ∈ st, Ok e) → wt1 ν st ≤ fuel →
      (runMachine step fuel st).filterMap g = st.flatMap sem := by
  intro fuel
  induction fuel with
  | zero =>
    intro st hok hw
    cases st with
    | nil => rfl
    | cons e es =>
      have := (hstep e (hok e (List.mem_cons_self ..))).2.2
      simp [wt1_cons] at hw; omega
  | succ f ih =>
    intro st hok hw
    cases st with
    | nil => rfl
    | cons e es =>
      obtain ⟨h1, h2, h3⟩ := hstep e (hok e (List.mem_cons_self ..))
      have hok' : ∀ c ∈ (step e).2.reverse ++ es, Ok c := by
        intro c hc
        rcases List.mem_append.1 hc with hc | hc
        · exact h1 c (List.mem_reverse.1 hc)
        · exact hok c (List.mem_cons_of_mem _ hc)
      have hw' : wt1 ν ((step e).2.reverse ++ es) ≤ f := by
        rw [wt1_append, wt1_reverse]; rw [wt1_cons] at hw; omega
      have := ih _ hok' hw'
      simp only [runMachine, List.flatMap_cons]
      rw [h2]
      cases hs : (step e).1 with
      | none => simp [this, List.flatMap_append]
      | some i =>
        simp only [List.filterMap_cons, Option.bind_some]
        cases hg : g i with
        | none => simp [this, List.flatMap_append]
        | some j => simp [this, List.flatMap_append]

end Machine
