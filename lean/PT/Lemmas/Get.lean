import PT.Lemmas.WF
/-!
# Observers against the entry list: exact match, cover, longest / shortest prefix match
-/
namespace Tree
variable {w : Nat} {V : Type}
open Pfx

/-- two entries of a well-formed subtree with the same key are the same entry -/
theorem WF.key_inj {k : List Bool} {t : Tree w V} (h : WF k t) {e1 e2 : Pfx w × V}
    (h1 : e1 ∈ t.entries) (h2 : e2 ∈ t.entries) (hk : e1.1.net = e2.1.net) : e1 = e2 := by
  induction t generalizing k with
  | nil => simp [entries] at h1
  | node s p v l r ihl ihr =>
    rw [mem_entries_node] at h1 h2
    have hl := fun {e : Pfx w × V} (he : e ∈ l.entries) => WF.mem_child_entries h false he
    have hr := fun {e : Pfx w × V} (he : e ∈ r.entries) => WF.mem_child_entries h true he
    rcases h1 with h1 | h1 | h1 <;> rcases h2 with h2 | h2 | h2
    · rw [mem_own] at h1 h2
      obtain ⟨a1, a2⟩ := h1
      obtain ⟨b1, b2⟩ := h2
      cases e1; cases e2
      simp_all
    · rw [mem_own] at h1
      exact absurd (h1.2 ▸ hk).symm (List.ne_of_snoc_prefix (hl h2))
    · rw [mem_own] at h1
      exact absurd (h1.2 ▸ hk).symm (List.ne_of_snoc_prefix (hr h2))
    · rw [mem_own] at h2
      exact absurd (h2.2 ▸ hk) (List.ne_of_snoc_prefix (hl h1))
    · exact ihl h.2.1 h1 h2
    · exact absurd hk (List.ne_of_sides (by simp) (hl h1) (hr h2))
    · rw [mem_own] at h2
      exact absurd (h2.2 ▸ hk) (List.ne_of_snoc_prefix (hr h1))
    · exact absurd hk.symm (List.ne_of_sides (by simp) (hl h2) (hr h1))
    · exact ihr h.2.2 h1 h2

/-! ### exact match -/

/-- soundness of the descent: what it reaches has the query's key and is an entry if valued -/
theorem findNode_sound {t : Tree w V} {q p : Pfx w} {v : Option V} (h : findNode t q = some (p, v)) :
    p.net = q.net ∧ ∀ x, v = some x → (p, x) ∈ t.entries := by
  induction t with
  | nil => simp [findNode] at h
  | node s p0 v0 l r ihl ihr =>
    unfold findNode at h
    split at h
    · next hd =>
      simp only [Option.some.injEq, Prod.mk.injEq] at h
      obtain ⟨rfl, rfl⟩ := h
      refine ⟨getDir_reached hd, fun x hx => ?_⟩
      rw [mem_entries_node, mem_own]; exact .inl ⟨hx, rfl⟩
    · obtain ⟨h1, h2⟩ := ihr h
      exact ⟨h1, fun x hx => by rw [mem_entries_node]; exact .inr (.inr (h2 x hx))⟩
    · obtain ⟨h1, h2⟩ := ihl h
      exact ⟨h1, fun x hx => by rw [mem_entries_node]; exact .inr (.inl (h2 x hx))⟩
    · simp at h

/-- completeness: every entry is found under its key (any representation of it) -/
theorem findNode_complete {k : List Bool} {t : Tree w V} (hwf : WF k t) {q p : Pfx w} {x : V}
    (he : (p, x) ∈ t.entries) (hk : p.net = q.net) : findNode t q = some (p, some x) := by
  induction t generalizing k with
  | nil => simp [entries] at he
  | node s p0 v0 l r ihl ihr =>
    rw [mem_entries_node] at he
    unfold findNode
    rcases he with he | he | he
    · rw [mem_own] at he
      obtain ⟨hv, hp⟩ := he
      simp only at hv hp
      subst hp
      rw [getDir_of_net_eq hk, hv]
    · rw [getDir_of_under hwf (b := false) he hk]
      exact ihl hwf.2.1 he
    · rw [getDir_of_under hwf (b := true) he hk]
      exact ihr hwf.2.2 he

theorem getKeyValue_iff {k : List Bool} {t : Tree w V} (hwf : WF k t) (q p : Pfx w) (x : V) :
    getKeyValue t q = some (p, x) ↔ (p, x) ∈ t.entries ∧ p.net = q.net := by
  unfold getKeyValue
  constructor
  · intro h
    split at h
    · next p' v' hf =>
      simp only [Option.some.injEq, Prod.mk.injEq] at h
      obtain ⟨rfl, rfl⟩ := h
      obtain ⟨h1, h2⟩ := findNode_sound hf
      exact ⟨h2 _ rfl, h1⟩
    · simp at h
  · rintro ⟨he, hk⟩
    rw [findNode_complete hwf he hk]

/-- `get` returns the value stored under the query's key, for every query -/
theorem get_iff {k : List Bool} {t : Tree w V} (hwf : WF k t) (q : Pfx w) (x : V) :
    get t q = some x ↔ ∃ p, (p, x) ∈ t.entries ∧ p.net = q.net := by
  unfold get
  constructor
  · intro h
    split at h
    · next p' v' hf =>
      obtain ⟨h1, h2⟩ := findNode_sound hf
      exact ⟨p', h2 x h, h1⟩
    · simp at h
  · rintro ⟨p, he, hk⟩
    rw [findNode_complete hwf he hk]

theorem get_none_iff {k : List Bool} {t : Tree w V} (hwf : WF k t) (q : Pfx w) :
    get t q = none ↔ ∀ e ∈ t.entries, e.1.net ≠ q.net := by
  constructor
  · intro h e he hk
    have := (get_iff hwf q e.2).2 ⟨e.1, he, hk⟩
    rw [h] at this; simp at this
  · intro h
    cases hg : get t q with
    | none => rfl
    | some x =>
      obtain ⟨p, he, hk⟩ := (get_iff hwf q x).1 hg
      exact absurd hk (h _ he)

theorem containsKey_iff {k : List Bool} {t : Tree w V} (hwf : WF k t) (q : Pfx w) :
    containsKey t q = true ↔ ∃ e ∈ t.entries, e.1.net = q.net := by
  unfold containsKey
  rw [Option.isSome_iff_exists]
  constructor
  · rintro ⟨x, hx⟩
    obtain ⟨p, he, hk⟩ := (get_iff hwf q x).1 hx
    exact ⟨(p, x), he, hk⟩
  · rintro ⟨e, he, hk⟩
    exact ⟨e.2, (get_iff hwf q e.2).2 ⟨e.1, he, hk⟩⟩

/-- lookups depend on the network part of the query only (host bits are irrelevant) -/
theorem findNode_congr {t : Tree w V} {q q' : Pfx w} (h : q.net = q'.net) :
    findNode t q = findNode t q' := by
  have hc : ∀ (a : Pfx w), a.contains q = a.contains q' := fun a => by
    rw [Bool.eq_iff_iff, contains_iff, contains_iff, h]
  have he : ∀ (a : Pfx w), a.eqv q = a.eqv q' := fun a => by
    rw [Bool.eq_iff_iff, eqv_iff, eqv_iff, h]
  have ht : ∀ (a : Pfx w), toRight a q = toRight a q' := fun a => by
    rw [toRight_eq, toRight_eq, h]
  induction t with
  | nil => rfl
  | node s p v l r ihl ihr =>
    have hd : getDir p l r q = getDir p l r q' := by
      unfold getDir dirChild
      rw [he, ht]
      cases (child l r (toRight p q')).pfx? with
      | none => rfl
      | some cp => simp only [hc]
    unfold findNode
    rw [hd, ihl, ihr]

/-! ### cover, longest and shortest prefix match -/

/-- the entries of `t` whose prefix covers `q` -/
def covering (t : Tree w V) (q : Pfx w) : List (Pfx w × V) := t.entries.filter (fun e => e.1.contains q)

theorem filter_covering_eq_nil_of_sides {k : List Bool} {t : Tree w V} {b : Bool} {q : Pfx w}
    (hwf : WF (k ++ [b]) t) (hq : k ++ [!b] <+: q.net) : covering t q = [] := by
  unfold covering
  rw [List.filter_eq_nil_iff]
  intro e he hc
  have h1 := WF.mem_entries hwf he
  exact List.not_prefix_of_sides (by cases b <;> simp) h1 hq ((contains_iff _ _).1 hc)

theorem covering_eq_nil_of_below {k : List Bool} {t : Tree w V} {b : Bool} {q : Pfx w}
    (hwf : WF (k ++ [b]) t) (hq : q.net <+: k) : covering t q = [] := by
  unfold covering
  rw [List.filter_eq_nil_iff]
  intro e he hc
  have h1 := WF.mem_entries hwf he
  have := (h1.trans ((contains_iff _ _).1 hc)).trans hq
  have := this.length_le
  simp at this; omega

theorem covering_eq_nil_of_root {k : List Bool} {s : Nat} {p : Pfx w} {v : Option V} {l r : Tree w V}
    {q : Pfx w} (hwf : WF k (node s p v l r)) (h : ¬ p.net <+: q.net) :
    covering (node s p v l r) q = [] := by
  unfold covering
  rw [List.filter_eq_nil_iff]
  intro e he hc
  exact h ((WF.mem_entries (WF.self hwf) he).trans ((contains_iff _ _).1 hc))

theorem covering_node (s : Nat) (p : Pfx w) (v : Option V) (l r : Tree w V) (q : Pfx w) :
    covering (node s p v l r) q = (own p v).filter (fun e => e.1.contains q) ++ covering l q ++ covering r q := by
  unfold covering; rw [entries_node]; simp [List.filter_append]

theorem pvList_eq_own (s : Nat) (p : Pfx w) (v : Option V) (l r : Tree w V) :
    (node s p v l r).pvList = own p v := by
  cases v <;> rfl

theorem own_filter_of_covers {p q : Pfx w} {v : Option V} (h : p.net <+: q.net) :
    (own p v).filter (fun e => e.1.contains q) = own p v := by
  cases v with
  | none => rfl
  | some x => simp [own, (contains_iff p q).2 h]

/-- below a node that covers `q`, `Cover` walks exactly the covering entries -/
theorem coverGo_eq {k : List Bool} {t : Tree w V} (hwf : WF k t) (q : Pfx w)
    (hcov : ∀ p, t.pfx? = some p → p.net <+: q.net) :
    t.pvList ++ coverGo t q = covering t q := by
  induction t generalizing k with
  | nil => simp [pvList, pv, coverGo, covering, entries]
  | node s p v l r ihl ihr =>
    have hp : p.net <+: q.net := hcov p rfl
    rw [pvList_eq_own, covering_node, own_filter_of_covers hp, List.append_assoc]
    congr 1
    unfold coverGo
    split
    · next hd =>
      obtain ⟨hne, hb, cs, cp, cv, cl, cr, hc, hcq⟩ := getDir_enter hd
      simp only [child_true] at hc
      have hside := side_prefix hp hne
      rw [← hb] at hside
      rw [filter_covering_eq_nil_of_sides hwf.2.1 (by simpa using hside), List.nil_append]
      exact ihr hwf.2.2 (fun p' hp' => by rw [hc] at hp'; simp [pfx?] at hp'; subst hp'; exact hcq)
    · next hd =>
      obtain ⟨hne, hb, cs, cp, cv, cl, cr, hc, hcq⟩ := getDir_enter hd
      simp only [child_false] at hc
      have hside := side_prefix hp hne
      rw [← hb] at hside
      rw [filter_covering_eq_nil_of_sides hwf.2.2 (by simpa using hside), List.append_nil]
      exact ihl hwf.2.1 (fun p' hp' => by rw [hc] at hp'; simp [pfx?] at hp'; subst hp'; exact hcq)
    · next hd1 hd2 =>
      -- reached or missing: nothing below covers q
      cases hd : getDir p l r q with
      | enter b => cases b <;> simp_all
      | reached =>
        have he := getDir_reached hd
        rw [covering_eq_nil_of_below hwf.2.1 (he ▸ List.prefix_refl _),
          covering_eq_nil_of_below hwf.2.2 (he ▸ List.prefix_refl _)]
        rfl
      | missing =>
        obtain ⟨hne, hm⟩ := getDir_missing hd
        have hside := side_prefix hp hne
        have key : ∀ b, covering (child l r b) q = [] := by
          intro b
          by_cases hb : b = toRight p q
          · subst hb
            cases hc : child l r (toRight p q) with
            | nil => simp [covering, entries]
            | node cs cp cv cl cr =>
              have hcw : WF (p.net ++ [toRight p q]) (node cs cp cv cl cr) := hc ▸ WF.of_child hwf _
              exact covering_eq_nil_of_root hcw (hm cs cp cv cl cr hc)
          · have : toRight p q = !b := by cases b <;> cases h : toRight p q <;> simp_all
            exact filter_covering_eq_nil_of_sides (WF.of_child hwf b) (by rw [← this]; exact hside)
        have h1 := key false
        have h2 := key true
        simp only [child_false, child_true] at h1 h2
        rw [h1, h2]; rfl

/-- `cover(q)` yields exactly the stored entries whose prefix covers `q` -/
theorem cover_eq_covering {t : Tree w V} (hwf : WF [] t) (hroot : ∀ p, t.pfx? = some p → p.net = []) (q : Pfx w) :
    cover t q = covering t q := by
  unfold cover
  exact coverGo_eq hwf q (fun p hp => by rw [hroot p hp]; exact List.nil_prefix)

theorem own_filter_pairwise (p : Pfx w) (v : Option V) (f : Pfx w × V → Bool) (R : Pfx w × V → Pfx w × V → Prop) :
    ((own p v).filter f).Pairwise R := by
  cases v with
  | none => simp [own]
  | some x => cases h : f (p, x) <;> simp [own, List.filter, h]

/-- the covering entries appear in strictly increasing prefix length -/
theorem covering_sorted {k : List Bool} {t : Tree w V} (hwf : WF k t) (q : Pfx w) :
    (covering t q).Pairwise (fun a b => a.1.len < b.1.len) := by
  induction t generalizing k with
  | nil => simp [covering, entries]
  | node s p v l r ihl ihr =>
    by_cases hp : p.net <+: q.net
    · by_cases hne : p.net = q.net
      · rw [covering_node, covering_eq_nil_of_below hwf.2.1 (hne ▸ List.prefix_refl _),
          covering_eq_nil_of_below hwf.2.2 (hne ▸ List.prefix_refl _)]
        simpa using own_filter_pairwise p v _ _
      · have hside := side_prefix hp hne
        have hlen : ∀ b, ∀ e ∈ covering (child l r b) q, p.len < e.1.len := by
          intro b e he
          have := (WF.mem_child_entries hwf b (List.mem_filter.1 he).1).length_le
          simp [net_length] at this; omega
        have hown : ∀ a ∈ (own p v).filter (fun e => e.1.contains q), a.1 = p := by
          intro a ha
          exact (mem_own.1 (List.mem_filter.1 ha).1).2
        rw [covering_node]
        cases hb : toRight p q
        · rw [hb] at hside
          rw [filter_covering_eq_nil_of_sides hwf.2.2 (by simpa using hside), List.append_nil]
          rw [List.pairwise_append]
          refine ⟨own_filter_pairwise p v _ _, ihl hwf.2.1, ?_⟩
          intro a ha b hb'
          rw [hown a ha]; exact hlen false b hb'
        · rw [hb] at hside
          rw [filter_covering_eq_nil_of_sides hwf.2.1 (by simpa using hside), List.append_nil]
          rw [List.pairwise_append]
          refine ⟨own_filter_pairwise p v _ _, ihr hwf.2.2, ?_⟩
          intro a ha b hb'
          rw [hown a ha]; exact hlen true b hb'
    · rw [covering_eq_nil_of_root hwf hp]; exact List.Pairwise.nil

/-- `a.or(b)` -/
def orElse {α : Type} (a b : Option α) : Option α :=
  match a with
  | some x => some x
  | none => b

theorem pvOr_eq (p : Pfx w) (v : Option V) (best : Option (Pfx w × V)) :
    pvOr p v best = orElse ((own p v).getLast?) best := by
  cases v <;> rfl

theorem orElse_getLast_append {α : Type} (xs ys : List α) (best : Option α) :
    orElse ((xs ++ ys).getLast?) best = orElse ys.getLast? (orElse xs.getLast? best) := by
  rw [List.getLast?_append]
  cases ys.getLast? <;> cases xs.getLast? <;> cases best <;> rfl

/-- longest-prefix match = the last (= longest) covering entry, `best` if there is none -/
theorem getLpm_eq {k : List Bool} {t : Tree w V} (hwf : WF k t) (q : Pfx w) (best : Option (Pfx w × V))
    (hcov : ∀ p, t.pfx? = some p → p.net <+: q.net) :
    getLpm t q best = orElse (covering t q).getLast? best := by
  induction t generalizing k best with
  | nil => simp [getLpm, covering, entries, orElse]
  | node s p v l r ihl ihr =>
    have hp : p.net <+: q.net := hcov p rfl
    rw [covering_node, own_filter_of_covers hp, List.append_assoc, orElse_getLast_append, ← pvOr_eq]
    unfold getLpm
    split
    · next hd =>
      obtain ⟨hne, hb, cs, cp, cv, cl, cr, hc, hcq⟩ := getDir_enter hd
      simp only [child_true] at hc
      have hside := side_prefix hp hne
      rw [← hb] at hside
      rw [filter_covering_eq_nil_of_sides hwf.2.1 (by simpa using hside), List.nil_append]
      exact ihr hwf.2.2 _ (fun p' hp' => by rw [hc] at hp'; simp [pfx?] at hp'; subst hp'; exact hcq)
    · next hd =>
      obtain ⟨hne, hb, cs, cp, cv, cl, cr, hc, hcq⟩ := getDir_enter hd
      simp only [child_false] at hc
      have hside := side_prefix hp hne
      rw [← hb] at hside
      rw [filter_covering_eq_nil_of_sides hwf.2.2 (by simpa using hside), List.append_nil]
      exact ihl hwf.2.1 _ (fun p' hp' => by rw [hc] at hp'; simp [pfx?] at hp'; subst hp'; exact hcq)
    · next hd1 hd2 =>
      have hnil : covering l q ++ covering r q = [] := by
        have := coverGo_eq hwf q hcov
        rw [pvList_eq_own, covering_node, own_filter_of_covers hp, List.append_assoc] at this
        have h2 : coverGo (node s p v l r) q = [] := by
          unfold coverGo
          cases hd : getDir p l r q with
          | enter b => cases b <;> simp_all
          | reached => rfl
          | missing => rfl
        rw [h2] at this
        exact (List.append_cancel_left this).symm
      rw [hnil]; simp [orElse]

end Tree

namespace Tree
variable {w : Nat} {V : Type}
open Pfx

theorem pvList_of_pv {t : Tree w V} : t.pvList = t.pv.toList := rfl

/-- the loop of `get_spm`, entered at a node without a value, returns the first item `Cover` yields
below that node -/
theorem getSpmGo_eq (t : Tree w V) (q : Pfx w) (h : t.pv = none) : getSpmGo t q = (coverGo t q).head? := by
  induction t with
  | nil => rfl
  | node s p v l r ihl ihr =>
    have hv : v = none := by cases v <;> simp_all [pv]
    subst hv
    unfold getSpmGo coverGo
    cases hd : getDir p l r q with
    | reached => rfl
    | missing => rfl
    | enter b =>
      cases b
      · simp only
        cases hp : l.pv with
        | some x => simp [pvList_of_pv, hp]
        | none => simp [pvList_of_pv, hp, ihl hp]
      · simp only
        cases hp : r.pv with
        | some x => simp [pvList_of_pv, hp]
        | none => simp [pvList_of_pv, hp, ihr hp]

/-- shortest-prefix match = the first item of `cover` -/
theorem getSpm_eq (t : Tree w V) (q : Pfx w) : getSpm t q = (cover t q).head? := by
  unfold getSpm cover
  cases hp : t.pv with
  | some x => simp [pvList_of_pv, hp]
  | none => simp [pvList_of_pv, hp, getSpmGo_eq t q hp]

end Tree
