import PT.Lemmas.Ipnet
/-!
# The iteration order in numbers: ascending by network address, then by prefix length
-/
namespace Pfx
variable {w : Nat}

theorem mask_le_of_net_prefix {a b : Pfx w} (h : a.net <+: b.net) : a.mask.toNat ≤ b.mask.toNat := by
  obtain ⟨hl, hb⟩ := (net_isPrefix_iff a b).1 h
  apply toNat_le_of_bits
  intro i _ _ hx
  rw [getMsbD_mask] at hx ⊢
  simp only [Bool.and_eq_true, decide_eq_true_eq] at hx ⊢
  exact ⟨(hb i hx.2) ▸ hx.1, by omega⟩

theorem net_prefix_of_mask_eq {a b : Pfx w} (hm : a.mask = b.mask) (hl : a.len ≤ b.len) : a.net <+: b.net := by
  rw [net_isPrefix_iff]
  refine ⟨hl, fun i hi => ?_⟩
  have := congrArg (fun x => x.getMsbD i) hm
  simp only [getMsbD_mask] at this
  have h2 : i < b.len := by omega
  simpa [hi, h2] using this

/-- the lexicographic key order is "network address ascending, then prefix length ascending" -/
theorem keyLt_iff_numeric (a b : Pfx w) :
    Spec.keyLt a.net b.net = true ↔ a.mask.toNat < b.mask.toNat ∨ (a.mask = b.mask ∧ a.len < b.len) := by
  by_cases h1 : a.net <+: b.net
  · by_cases he : a.net = b.net
    · rw [he, Spec.keyLt_irrefl]
      have hl : a.len = b.len := by rw [← net_length a, ← net_length b, he]
      have hm : a.mask = b.mask := (mask_eq_iff a b hl).2 ((net_eq_iff a b).1 he).2
      constructor
      · intro h; cases h
      · rintro (h | ⟨_, h⟩)
        · rw [hm] at h; omega
        · omega
    · have hk := Spec.keyLt_of_proper_prefix h1 he
      have hlen : a.len < b.len := by
        have h2 := h1.length_le
        rw [net_length, net_length] at h2
        rcases Nat.lt_or_ge a.len b.len with h3 | h3
        · exact h3
        · exact absurd (h1.eq_of_length (by rw [net_length, net_length]; omega)) he
      have hle := mask_le_of_net_prefix h1
      constructor
      · intro _
        rcases Nat.lt_or_ge a.mask.toNat b.mask.toNat with h3 | h3
        · exact .inl h3
        · exact .inr ⟨BitVec.eq_of_toNat_eq (by omega), hlen⟩
      · intro _; exact hk
  · by_cases h2 : b.net <+: a.net
    · have hne : b.net ≠ a.net := fun e => h1 (e ▸ List.prefix_refl _)
      have hk := Spec.keyLt_of_proper_prefix h2 hne
      have hle := mask_le_of_net_prefix h2
      have hlen : b.len ≤ a.len := by have := h2.length_le; rwa [net_length, net_length] at this
      constructor
      · intro h
        have := Spec.keyLt_trans h hk
        rw [Spec.keyLt_irrefl] at this; cases this
      · rintro (h | ⟨_, h⟩) <;> omega
    · rw [← maskLt_iff_keyLt a b h1 h2]
      unfold maskLt
      simp only [decide_eq_true_eq]
      constructor
      · exact .inl
      · rintro (h | ⟨hm, hl⟩)
        · exact h
        · exact absurd (net_prefix_of_mask_eq hm (Nat.le_of_lt hl)) h1

end Pfx
