import PT.Lemmas.Children
import PT.View
/-!
# Views: navigation (`find`, `find_exact`, `find_lpm`, `left`, `right`) against the entry list
-/
namespace Tree
variable {w : Nat} {V : Type}
open Pfx

theorem sub_nil (t : Tree w V) : t.sub [] = t := by cases t <;> rfl

theorem sub_cons_node (s : Nat) (p : Pfx w) (v : Option V) (l r : Tree w V) (b : Bool) (bs : List Bool) :
    (node s p v l r).sub (b :: bs) = (child l r b).sub bs := rfl

theorem sub_nil_tree (bs : List Bool) : (nil : Tree w V).sub bs = nil := by cases bs <;> rfl

theorem sub_append (t : Tree w V) (p1 p2 : List Bool) : t.sub (p1 ++ p2) = (t.sub p1).sub p2 := by
  induction p1 generalizing t with
  | nil => simp [sub_nil]
  | cons b bs ih =>
    cases t with
    | nil => simp [sub_nil_tree]
    | node s p v l r => simp only [List.cons_append, sub_cons_node, ih]

/-- what a successful `find` descent reports about the node it ends at -/
structure FindOk (t : Tree w V) (q : Pfx w) (vt : Option (Pfx w)) (pa : List Bool) : Prop where
  node : ∃ kk s np nv nl nr, t.sub pa = .node s np nv nl nr ∧ WF kk (.node s np nv nl nr) ∧
    (vt = none → np.net = q.net) ∧ (∀ q', vt = some q' → q' = q ∧ q.net <+: np.net ∧ q.net ≠ np.net)
  mem : ∀ e, e ∈ (t.sub pa).entries ↔ e ∈ t.entries ∧ q.net <+: e.1.net

theorem findGo_enter {s : Nat} {p : Pfx w} {v : Option V} {l r : Tree w V} {q : Pfx w} {b : Bool}
    (hd : dirIns p l r q = .enter b) :
    findGo (node s p v l r) q = ((child l r b).findGo q).map (fun x => (x.1, b :: x.2)) := by
  cases b <;> simp [findGo, hd]

/-- the loop of `find`, started at a node that covers `q` -/
theorem findGo_spec {k : List Bool} {t : Tree w V} (hwf : WF k t) {q : Pfx w} (hc : RootCovers t q) :
    (findGo t q = none → ∀ e ∈ t.entries, ¬ q.net <+: e.1.net) ∧
    (∀ vt pa, findGo t q = some (vt, pa) → FindOk t q vt pa) := by
  induction t generalizing k with
  | nil => simp [findGo, entries]
  | node s p v l r ihl ihr =>
    have hp : p.net <+: q.net := hc p rfl
    cases hd : dirIns p l r q with
    | reached =>
      have hpq := dirIns_reached hd
      refine ⟨fun h => by simp [findGo, hd] at h, fun vt pa h => ?_⟩
      simp only [findGo, hd, Option.some.injEq, Prod.mk.injEq] at h
      obtain ⟨rfl, rfl⟩ := h
      refine ⟨⟨k, s, p, v, l, r, rfl, hwf, fun _ => hpq, fun q' h => by simp at h⟩, fun e => ?_⟩
      rw [sub_nil]
      exact ⟨fun h => ⟨h, hpq ▸ WF.mem_entries (WF.self hwf) h⟩, fun h => h.1⟩
    | enter b =>
      obtain ⟨hne, hb, cs, cp, cv, cl, cr, hch, hcq⟩ := dirIns_enter hd
      obtain ⟨hown, hoth⟩ := not_covered_outside hwf hp hne
      rw [← hb] at hoth
      have hcw : WF (p.net ++ [b]) (child l r b) := WF.of_child hwf b
      have hcc : RootCovers (child l r b) q := by rw [hch]; exact RootCovers.node hcq
      have ih : (findGo (child l r b) q = none → ∀ e ∈ (child l r b).entries, ¬ q.net <+: e.1.net) ∧
          (∀ vt pa, findGo (child l r b) q = some (vt, pa) → FindOk (child l r b) q vt pa) := by
        cases b
        · exact ihl hcw hcc
        · exact ihr hcw hcc
      rw [findGo_enter hd]
      refine ⟨fun h e he => ?_, fun vt pa h => ?_⟩
      · simp only [Option.map_eq_none_iff] at h
        rcases (mem_entries_children b).1 he with h' | h' | h'
        · exact hown e h'
        · exact ih.1 h e h'
        · exact hoth e h'
      · simp only [Option.map_eq_some_iff, Prod.mk.injEq] at h
        obtain ⟨⟨vt', pa'⟩, hf, rfl, rfl⟩ := h
        obtain ⟨hn, hm⟩ := ih.2 vt' pa' hf
        refine ⟨by simpa [sub_cons_node] using hn, fun e => ?_⟩
        rw [sub_cons_node, hm e]
        constructor
        · rintro ⟨h1, h2⟩; exact ⟨(mem_entries_children (s := s) b).2 (.inr (.inl h1)), h2⟩
        · rintro ⟨h1, h2⟩
          rcases (mem_entries_children b).1 h1 with h' | h' | h'
          · exact absurd h2 (hown e h')
          · exact ⟨h', h2⟩
          · exact absurd h2 (hoth e h')
    | newLeaf b =>
      obtain ⟨hne, hb, hch⟩ := dirIns_newLeaf hd
      obtain ⟨hown, hoth⟩ := not_covered_outside hwf hp hne
      rw [← hb] at hoth
      refine ⟨fun _ e he => ?_, fun vt pa h => by simp [findGo, hd] at h⟩
      rcases (mem_entries_children b).1 he with h | h | h
      · exact hown e h
      · rw [hch] at h; simp [entries] at h
      · exact hoth e h
    | newBranch bp b pr =>
      obtain ⟨hne, hb, cs, cp, cv, cl, cr, hch, h1, h2, _, _⟩ := dirIns_newBranch hd
      obtain ⟨hown, hoth⟩ := not_covered_outside hwf hp hne
      rw [← hb] at hoth
      have hcw : WF (p.net ++ [b]) (node cs cp cv cl cr) := hch ▸ WF.of_child hwf b
      refine ⟨fun _ e he => ?_, fun vt pa h => by simp [findGo, hd] at h⟩
      rcases (mem_entries_children b).1 he with h | h | h
      · exact hown e h
      · rw [hch] at h; exact not_covered_of_incomparable hcw h1 h2 e h
      · exact hoth e h
    | newChild b c =>
      obtain ⟨hne, hb, cs, cp, cv, cl, cr, hch, h1, h2, _⟩ := dirIns_newChild hd
      obtain ⟨hown, hoth⟩ := not_covered_outside hwf hp hne
      rw [← hb] at hoth
      have hcw : WF (p.net ++ [b]) (node cs cp cv cl cr) := hch ▸ WF.of_child hwf b
      have hall : ∀ e ∈ (child l r b).entries, q.net <+: e.1.net := by
        rw [hch]; exact all_covered_of_root hcw h2
      refine ⟨fun h => by simp [findGo, hd] at h, fun vt pa h => ?_⟩
      simp only [findGo, hd, Option.some.injEq, Prod.mk.injEq] at h
      obtain ⟨rfl, rfl⟩ := h
      have hnq : q.net ≠ cp.net := fun e => h1 (e ▸ List.prefix_refl _)
      refine ⟨⟨_, cs, cp, cv, cl, cr, by rw [sub_cons_node, hch, sub_nil], hcw,
        fun h => by simp at h, fun q' h => by simp at h; exact ⟨h.symm, h2, hnq⟩⟩, fun e => ?_⟩
      rw [sub_cons_node, sub_nil]
      constructor
      · intro h; exact ⟨(mem_entries_children (s := s) b).2 (.inr (.inl h)), hall e h⟩
      · rintro ⟨h, hq⟩
        rcases (mem_entries_children b).1 h with h | h | h
        · exact absurd hq (hown e h)
        · exact h
        · exact absurd hq (hoth e h)

/-- a node that neither covers `q` nor is strictly covered by it: `find` fails, rightly -/
theorem findGo_incomparable {k : List Bool} {s : Nat} {p : Pfx w} {v : Option V} {l r : Tree w V}
    (hwf : WF k (node s p v l r)) {q : Pfx w} (h1 : ¬ p.net <+: q.net) (h2 : ¬ q.net <+: p.net) :
    findGo (node s p v l r) q = none := by
  have hne : p.net ≠ q.net := fun e => h1 (e ▸ List.prefix_refl _)
  cases hd : dirIns p l r q with
  | reached => exact absurd (dirIns_reached hd) hne
  | enter b =>
    obtain ⟨_, _, cs, cp, cv, cl, cr, hch, hcq⟩ := dirIns_enter hd
    have hcw : WF (p.net ++ [b]) (node cs cp cv cl cr) := hch ▸ WF.of_child hwf b
    exact absurd (((List.prefix_append _ _).trans hcw.1).trans hcq) h1
  | newLeaf b => simp [findGo, hd]
  | newBranch bp b c => simp [findGo, hd]
  | newChild b c =>
    obtain ⟨_, _, cs, cp, cv, cl, cr, hch, _, hqc, _⟩ := dirIns_newChild hd
    have hcw : WF (p.net ++ [b]) (node cs cp cv cl cr) := hch ▸ WF.of_child hwf b
    have hpc : p.net <+: cp.net := (List.prefix_append _ _).trans hcw.1
    rcases Nat.le_total p.net.length q.net.length with hl | hl
    · exact absurd (List.prefix_of_prefix_length_le hpc hqc hl) h1
    · exact absurd (List.prefix_of_prefix_length_le hqc hpc hl) h2

end Tree

namespace Tree
variable {w : Nat} {V : Type}
open Pfx

/-! ### `find_exact` -/

theorem findExactGo_enter {s : Nat} {p : Pfx w} {v : Option V} {l r : Tree w V} {q : Pfx w} {b : Bool}
    (hd : getDir p l r q = .enter b) :
    findExactGo (node s p v l r) q = ((child l r b).findExactGo q).map (fun x => b :: x) := by
  cases b <;> simp [findExactGo, hd]

/-- `find_exact` ends at a valued node whose key is the query's … -/
theorem findExactGo_some {k : List Bool} {t : Tree w V} (hwf : WF k t) {q : Pfx w} {pa : List Bool}
    (h : findExactGo t q = some pa) :
    ∃ kk s np x nl nr, t.sub pa = .node s np (some x) nl nr ∧ WF kk (.node s np (some x) nl nr) ∧
      np.net = q.net ∧ (np, x) ∈ t.entries := by
  induction t generalizing k pa with
  | nil => simp [findExactGo] at h
  | node s p v l r ihl ihr =>
    cases hd : getDir p l r q with
    | reached =>
      simp only [findExactGo, hd] at h
      cases v with
      | none => simp at h
      | some x =>
        simp only [Option.isSome_some, ite_true, Option.some.injEq] at h
        subst h
        exact ⟨k, s, p, x, l, r, rfl, hwf, getDir_reached hd, by rw [mem_entries_node, mem_own]; exact .inl ⟨rfl, rfl⟩⟩
    | missing => simp [findExactGo, hd] at h
    | enter b =>
      rw [findExactGo_enter hd] at h
      simp only [Option.map_eq_some_iff] at h
      obtain ⟨pa', hf, rfl⟩ := h
      have ih : ∃ kk s np x nl nr, (child l r b).sub pa' = .node s np (some x) nl nr ∧
          WF kk (.node s np (some x) nl nr) ∧ np.net = q.net ∧ (np, x) ∈ (child l r b).entries := by
        cases b
        · exact ihl hwf.2.1 hf
        · exact ihr hwf.2.2 hf
      obtain ⟨kk, s', np, x, nl, nr, h1, h2, h3, h4⟩ := ih
      exact ⟨kk, s', np, x, nl, nr, by rw [sub_cons_node]; exact h1, h2, h3,
        (mem_entries_children (s := s) b).2 (.inr (.inl h4))⟩

/-- … and fails only if the key is not stored under the start node -/
theorem findExactGo_none {k : List Bool} {t : Tree w V} (hwf : WF k t) {q : Pfx w}
    (h : findExactGo t q = none) : ∀ e ∈ t.entries, e.1.net ≠ q.net := by
  induction t generalizing k with
  | nil => simp [entries]
  | node s p v l r ihl ihr =>
    intro e he hk
    cases hd : getDir p l r q with
    | reached =>
      have hpq := getDir_reached hd
      simp only [findExactGo, hd] at h
      have hv : v = none := by cases v <;> simp_all
      rcases (mem_entries_node).1 he with h' | h' | h'
      · rw [hv] at h'; simp [own] at h'
      · exact List.ne_of_snoc_prefix (WF.mem_child_entries hwf false h') (hk.trans hpq.symm)
      · exact List.ne_of_snoc_prefix (WF.mem_child_entries hwf true h') (hk.trans hpq.symm)
    | missing => exact no_key_of_missing hwf hd e he hk
    | enter b =>
      rw [findExactGo_enter hd] at h
      simp only [Option.map_eq_none_iff] at h
      rcases (mem_entries_children b).1 he with h' | h' | h'
      · exact (getDir_enter hd).1 ((mem_own.1 h').2 ▸ hk)
      · cases b
        · exact ihl hwf.2.1 h e h' hk
        · exact ihr hwf.2.2 h e h' hk
      · have := getDir_of_under hwf (b := !b) h' hk
        rw [hd] at this
        cases b <;> simp at this

/-! ### `find_lpm`: the path version of the longest-prefix-match descent -/

/-- `best` (a path) and `bestpv` (an entry) describe the same valued node of `t0`, or both nothing -/
def LpmAgree (t0 : Tree w V) (best : Option (List Bool)) (bestpv : Option (Pfx w × V)) : Prop :=
  (best = none ∧ bestpv = none) ∨
  (∃ pb s np x nl nr, best = some pb ∧ bestpv = some (np, x) ∧ t0.sub pb = .node s np (some x) nl nr)

theorem findLpmGo_agree (t0 : Tree w V) (t : Tree w V) (q : Pfx w) (here : List Bool)
    (hsub : t0.sub here = t) (best : Option (List Bool)) (bestpv : Option (Pfx w × V))
    (hag : LpmAgree t0 best bestpv) :
    LpmAgree t0 (findLpmGo t q here best) (getLpm t q bestpv) := by
  induction t generalizing here best bestpv with
  | nil => simpa [findLpmGo, getLpm] using hag
  | node s p v l r ihl ihr =>
    have hstep : LpmAgree t0 (if v.isSome then some here else best) (pvOr p v bestpv) := by
      cases v with
      | none => simpa [pvOr] using hag
      | some x => exact .inr ⟨here, s, p, x, l, r, by simp, by simp [pvOr], hsub⟩
    unfold findLpmGo getLpm
    cases hd : getDir p l r q with
    | reached => exact hstep
    | missing => exact hstep
    | enter b =>
      cases b
      · exact ihl (here ++ [false]) (by rw [sub_append, hsub]; rfl) _ _ hstep
      · exact ihr (here ++ [true]) (by rw [sub_append, hsub]; rfl) _ _ hstep

end Tree

namespace View
variable {w : Nat} {V : Type}
open Tree Pfx

/-- a view that points at an existing node of a well-formed tree; a virtual prefix lies strictly
above that node -/
def Good (t : Tree w V) (v : View w) : Prop :=
  ∃ kk s np nv nl nr, t.sub v.path = .node s np nv nl nr ∧ WF kk (.node s np nv nl nr) ∧
    ∀ q, v.virt = some q → q.net <+: np.net ∧ q.net ≠ np.net

/-- the entries a view addresses: those of its real node -/
def ents (t : Tree w V) (v : View w) : List (Pfx w × V) := (v.node t).entries

theorem iter_eq_ents (t : Tree w V) (v : View w) : v.iter t = v.ents t := iterAll_root _

theorem root_good {t : Tree w V} {s : Nat} {p : Pfx w} {x : Option V} {l r : Tree w V}
    (ht : t = .node s p x l r) (hwf : WF [] t) : Good t (root : View w) :=
  ⟨[], s, p, x, l, r, by simp [root, sub_nil, ht], ht ▸ hwf, fun q h => by simp [root] at h⟩

/-- the view's prefix, in network form, under `Good` -/
theorem good_pfx {t : Tree w V} {v : View w} (h : Good t v) : ∃ P, v.pfx t = some P := by
  obtain ⟨kk, s, np, nv, nl, nr, hs, _, _⟩ := h
  unfold pfx
  cases hv : v.virt with
  | some q => exact ⟨q, rfl⟩
  | none => exact ⟨np, by simp [node, hs, pfx?]⟩

/-- `find(q)` from a good view: `None` only if the view holds nothing covered by `q`; otherwise a
good view positioned at `q` (network form) that addresses exactly the view's entries covered by `q` -/
theorem find_spec {t : Tree w V} {v : View w} (hg : Good t v) (q : Pfx w) :
    (v.find t q = none → ∀ e ∈ v.ents t, ¬ q.net <+: e.1.net) ∧
    (∀ v', v.find t q = some v' →
      Good t v' ∧ (∃ P, v'.pfx t = some P ∧ P.net = q.net) ∧
      (∀ e, e ∈ v'.ents t ↔ e ∈ v.ents t ∧ q.net <+: e.1.net)) := by
  obtain ⟨kk, s, np, nv, nl, nr, hs, hwf, hvirt⟩ := hg
  unfold find ents node
  simp only [hs, pfx?]
  by_cases hpre : (decide (q.len < np.len) && q.contains np) = true
  · -- the query lies above the view's first real node: it selects the entire view
    simp only [hpre, ite_true]
    simp only [Bool.and_eq_true, decide_eq_true_eq] at hpre
    have hq := (contains_iff q np).1 hpre.2
    have hne : q.net ≠ np.net := net_ne_of_len_ne (by omega)
    refine ⟨fun h => by simp at h, fun v' h => ?_⟩
    simp only [Option.some.injEq] at h
    subst h
    refine ⟨⟨kk, s, np, nv, nl, nr, hs, hwf, fun q' h => by simp at h; subst h; exact ⟨hq, hne⟩⟩,
      ⟨q, by simp [pfx], rfl⟩, fun e => ?_⟩
    simp only [hs]
    exact ⟨fun h => ⟨h, hq.trans (WF.mem_entries (WF.self hwf) h)⟩, fun h => h.1⟩
  · rw [if_neg hpre]
    by_cases hcov : np.net <+: q.net
    · obtain ⟨h1, h2⟩ := findGo_spec hwf (RootCovers.node hcov)
      refine ⟨fun h => ?_, fun v' h => ?_⟩
      · simp only [Option.map_eq_none_iff] at h
        exact h1 h
      · simp only [Option.map_eq_some_iff] at h
        obtain ⟨⟨vt, pa⟩, hf, rfl⟩ := h
        obtain ⟨⟨kk', s', np', nv', nl', nr', hs', hwf', hn1, hn2⟩, hm⟩ := h2 vt pa hf
        have hsub : t.sub (v.path ++ pa) = .node s' np' nv' nl' nr' := by rw [sub_append, hs, hs']
        refine ⟨⟨kk', s', np', nv', nl', nr', hsub, hwf', fun q' hq' => ?_⟩, ?_, fun e => ?_⟩
        · obtain ⟨rfl, h3, h4⟩ := hn2 q' hq'; exact ⟨h3, h4⟩
        · unfold pfx View.node
          cases vt with
          | none => exact ⟨np', by simp [hsub, pfx?], hn1 rfl⟩
          | some q' => obtain ⟨rfl, _, _⟩ := hn2 q' rfl; exact ⟨q', rfl, rfl⟩
        · simp only [sub_append, hs]; exact hm e
    · -- the view's node does not cover q (and q is not strictly above it): nothing to find
      have hq2 : ¬ q.net <+: np.net := by
        intro hq
        apply hpre
        simp only [Bool.and_eq_true, decide_eq_true_eq]
        refine ⟨?_, (contains_iff q np).2 hq⟩
        have hl := hq.length_le
        simp only [net_length] at hl
        rcases Nat.lt_or_ge q.len np.len with h | h
        · exact h
        · exact absurd (hq.eq_of_length_le (by simp [net_length]; omega) ▸ List.prefix_refl _) hcov
      have := findGo_incomparable hwf hcov hq2
      simp only [this, Option.map_none]
      refine ⟨fun _ e he => not_covered_of_incomparable hwf hcov hq2 e he, fun v' h => by simp at h⟩

/-- `find_exact(q)` from a good view: a view positioned at `q` exactly when `q` is stored in it -/
theorem findExact_spec {t : Tree w V} {v : View w} (hg : Good t v) (q : Pfx w) :
    (v.findExact t q = none → ∀ e ∈ v.ents t, e.1.net ≠ q.net) ∧
    (∀ v', v.findExact t q = some v' →
      Good t v' ∧ v'.virt = none ∧ ∃ P x, v'.prefixValue t = some (P, x) ∧ P.net = q.net ∧ (P, x) ∈ v.ents t) := by
  obtain ⟨kk, s, np, nv, nl, nr, hs, hwf, hvirt⟩ := hg
  unfold findExact ents node
  simp only [hs]
  refine ⟨fun h => ?_, fun v' h => ?_⟩
  · simp only [Option.map_eq_none_iff] at h
    exact findExactGo_none hwf h
  · simp only [Option.map_eq_some_iff] at h
    obtain ⟨pa, hf, rfl⟩ := h
    obtain ⟨kk', s', np', x, nl', nr', h1, h2, h3, h4⟩ := findExactGo_some hwf hf
    have hsub : t.sub (v.path ++ pa) = .node s' np' (some x) nl' nr' := by rw [sub_append, hs, h1]
    exact ⟨⟨kk', s', np', some x, nl', nr', hsub, h2, fun q' h => by simp at h⟩, rfl,
      np', x, by simp [prefixValue, View.node, hsub, pv], h3, h4⟩

/-- `find_lpm(q)` from a good view: the view positioned at the longest prefix stored in the view that
covers `q`; `None` when the view stores no prefix covering `q` -/
theorem findLpm_spec {t : Tree w V} {v : View w} (hg : Good t v) (q : Pfx w) :
    (v.findLpm t q = none → ∀ e ∈ v.ents t, ¬ e.1.net <+: q.net) ∧
    (∀ v', v.findLpm t q = some v' →
      Good t v' ∧ v'.virt = none ∧ ∃ e, v'.prefixValue t = some e ∧
        (covering (v.node t) q).getLast? = some e) := by
  obtain ⟨kk, s, np, nv, nl, nr, hs, hwf, hvirt⟩ := hg
  unfold findLpm ents
  simp only [node, hs, pfx?]
  by_cases hcov : np.contains q = true
  · have hcov' := (contains_iff np q).1 hcov
    simp only [hcov, Bool.not_true, Bool.false_eq_true, ite_false]
    have hag := findLpmGo_agree (.node s np nv nl nr) (.node s np nv nl nr) q [] (sub_nil _) none none (.inl ⟨rfl, rfl⟩)
    have hlpm := getLpm_eq hwf q none (RootCovers.node hcov')
    refine ⟨fun h => ?_, fun v' h => ?_⟩
    · simp only [Option.map_eq_none_iff] at h
      rw [h] at hag
      rcases hag with ⟨_, h2⟩ | ⟨pb, _, _, _, _, _, h1, _⟩
      · rw [hlpm] at h2
        have : (covering (.node s np nv nl nr) q).getLast? = none := by
          cases hc : (covering (.node s np nv nl nr) q).getLast? <;> simp [hc, orElse] at h2 ⊢
        rw [List.getLast?_eq_none_iff] at this
        intro e he hcq
        have : e ∈ covering (.node s np nv nl nr) q := List.mem_filter.2 ⟨he, (contains_iff _ _).2 hcq⟩
        simp_all
      · simp at h1
    · simp only [Option.map_eq_some_iff] at h
      obtain ⟨pa, hf, rfl⟩ := h
      rw [hf] at hag
      rcases hag with ⟨h1, _⟩ | ⟨pb, s', np', x, nl', nr', h1, h2, h3⟩
      · simp at h1
      · simp only [Option.some.injEq] at h1
        subst h1
        have hsub : t.sub (v.path ++ pa) = .node s' np' (some x) nl' nr' := by rw [sub_append, hs, h3]
        -- well-formedness of the reached node: it is a subtree of a well-formed tree
        have hwf' : ∃ kk', WF kk' (.node s' np' (some x) nl' nr') := by
          clear hf h2 hlpm hsub
          generalize (Tree.node s np nv nl nr) = t0 at hwf h3
          clear hs hvirt hcov hcov'
          induction pa generalizing t0 kk with
          | nil => rw [sub_nil] at h3; exact ⟨kk, h3 ▸ hwf⟩
          | cons b bs ih =>
            cases t0 with
            | nil => simp [sub_nil_tree] at h3
            | node s0 p0 v0 l0 r0 =>
              rw [sub_cons_node] at h3
              exact ih _ _ (WF.of_child hwf b) h3
        obtain ⟨kk', hwf'⟩ := hwf'
        refine ⟨⟨kk', s', np', some x, nl', nr', hsub, hwf', fun q' h => by simp at h⟩, rfl, (np', x),
          by simp [prefixValue, View.node, hsub, pv], ?_⟩
        rw [hlpm] at h2
        cases hc : (covering (.node s np nv nl nr) q).getLast? with
        | none => simp [hc, orElse] at h2
        | some e => simp [hc, orElse] at h2; rw [h2]
  · have hcov' : ¬ np.net <+: q.net := fun h => hcov ((contains_iff np q).2 h)
    simp only [hcov, Bool.not_false, ite_true]
    refine ⟨fun _ e he hcq => hcov' ((WF.mem_entries (WF.self hwf) he).trans hcq), fun v' h => by simp at h⟩

end View

namespace View
variable {w : Nat} {V : Type}
open Tree Pfx

/-- the side view selected by bit `c` (`false` = `left()`, `true` = `right()`) -/
def side (t : Tree w V) (v : View w) (c : Bool) : Option (View w) := if c then v.right t else v.left t

theorem side_node {t : Tree w V} {v : View w} {s : Nat} {np : Pfx w} {nv : Option V} {nl nr : Tree w V}
    (hs : t.sub v.path = .node s np nv nl nr) (hv : v.virt = none) (c : Bool) :
    side t v c = (match child nl nr c with
      | .node .. => some ⟨none, v.path ++ [c]⟩
      | .nil => none) := by
  unfold side left right node
  cases c <;> simp only [hv, hs, Bool.false_eq_true, ite_false, ite_true, child_false, child_true]
  · cases nl <;> rfl
  · cases nr <;> rfl

theorem side_virtual {t : Tree w V} {v : View w} {s : Nat} {np : Pfx w} {nv : Option V} {nl nr : Tree w V}
    {q : Pfx w} (hs : t.sub v.path = .node s np nv nl nr) (hv : v.virt = some q) (c : Bool) :
    side t v c = if toRight q np = c then some ⟨none, v.path⟩ else none := by
  unfold side left right node
  cases c <;> cases hb : toRight q np <;> simp [hv, hs, hb]

/-- `left()` / `right()` of a good view address exactly the view's entries under the view's prefix
whose next bit is 0 / 1; they fail only if there are none -/
theorem side_spec {t : Tree w V} {v : View w} (hg : Good t v) {P : Pfx w} (hP : v.pfx t = some P) (c : Bool) :
    (side t v c = none → ∀ e ∈ v.ents t, ¬ P.net ++ [c] <+: e.1.net) ∧
    (∀ v', side t v c = some v' →
      Good t v' ∧ ∀ e, e ∈ v'.ents t ↔ e ∈ v.ents t ∧ P.net ++ [c] <+: e.1.net) := by
  obtain ⟨kk, s, np, nv, nl, nr, hs, hwf, hvirt⟩ := hg
  cases hv : v.virt with
  | none =>
    have hPn : P = np := by simp [pfx, hv, node, hs, pfx?] at hP; exact hP.symm
    subst hPn
    rw [side_node hs hv c]
    have hother : ∀ e ∈ (child nl nr (!c)).entries, ¬ P.net ++ [c] <+: e.1.net := fun e he hq =>
      List.not_prefix_of_sides (x := c) (y := !c) (by cases c <;> simp) hq
        (WF.mem_child_entries hwf (!c) he) (List.prefix_refl _)
    have hown : ∀ e ∈ own P nv, ¬ P.net ++ [c] <+: e.1.net := fun e he hq => by
      rw [(mem_own.1 he).2] at hq
      have := hq.length_le; simp at this; omega
    cases hch : child nl nr c with
    | nil =>
      refine ⟨fun _ e he => ?_, fun v' h => by cases h⟩
      unfold ents node at he; rw [hs] at he
      rcases (mem_entries_children c).1 he with h | h | h
      · exact hown e h
      · rw [hch] at h; simp [Tree.entries] at h
      · exact hother e h
    | node cs cp cv cl cr =>
      refine ⟨fun h => by simp at h, fun v' h => ?_⟩
      simp only [Option.some.injEq] at h
      subst h
      have hsub : t.sub (v.path ++ [c]) = .node cs cp cv cl cr := by
        rw [sub_append, hs, sub_cons_node, hch, sub_nil]
      have hcw : WF (P.net ++ [c]) (.node cs cp cv cl cr) := hch ▸ WF.of_child hwf c
      refine ⟨⟨_, cs, cp, cv, cl, cr, hsub, hcw, fun q h => by simp at h⟩, fun e => ?_⟩
      unfold ents node
      simp only [hsub, hs]
      constructor
      · intro h
        exact ⟨(mem_entries_children (s := s) c).2 (.inr (.inl (hch ▸ h))), WF.mem_entries hcw h⟩
      · rintro ⟨h, hq⟩
        rcases (mem_entries_children c).1 h with h | h | h
        · exact absurd hq (hown e h)
        · rw [hch] at h; exact h
        · exact absurd hq (hother e h)
  | some q =>
    have hPq : P = q := by simp [pfx, hv] at hP; exact hP.symm
    subst hPq
    obtain ⟨hq1, hq2⟩ := hvirt P hv
    have hside := side_prefix hq1 hq2
    rw [side_virtual hs hv c]
    by_cases hb : toRight P np = c
    · rw [hb] at hside
      simp only [hb, ite_true]
      refine ⟨fun h => by simp at h, fun v' h => ?_⟩
      simp only [Option.some.injEq] at h
      subst h
      refine ⟨⟨kk, s, np, nv, nl, nr, hs, hwf, fun q h => by simp at h⟩, fun e => ?_⟩
      unfold ents node
      simp only [hs]
      exact ⟨fun h => ⟨h, hside.trans (WF.mem_entries (WF.self hwf) h)⟩, fun h => h.1⟩
    · simp only [hb, ite_false]
      refine ⟨fun _ e he hq => ?_, fun v' h => by simp at h⟩
      unfold ents node at he; rw [hs] at he
      have h1 := hside.trans (WF.mem_entries (WF.self hwf) he)
      exact List.not_prefix_of_sides (x := c) (y := toRight P np) (fun h => hb h.symm) hq h1 (List.prefix_refl _)

/-- the view's entries are its own entry plus the entries of the two sides -/
theorem ents_decompose {t : Tree w V} {v : View w} (hg : Good t v) :
    v.ents t = (v.prefixValue t).toList ++
      (match side t v false with | some l => l.ents t | none => []) ++
      (match side t v true with | some r => r.ents t | none => []) := by
  obtain ⟨kk, s, np, nv, nl, nr, hs, hwf, hvirt⟩ := hg
  cases hv : v.virt with
  | none =>
    rw [side_node hs hv false, side_node hs hv true]
    unfold ents prefixValue node
    simp only [hv, hs, child_false, child_true]
    rw [entries_node]
    have e1 : (Tree.node s np nv nl nr).pv.toList = own np nv := by cases nv <;> rfl
    rw [e1]
    congr 1
    · congr 1
      cases hl : nl with
      | nil => rfl
      | node cs cp cv cl cr => simp [sub_append, hs, sub_cons_node, hl, sub_nil]
    · cases hr : nr with
      | nil => rfl
      | node cs cp cv cl cr => simp [sub_append, hs, sub_cons_node, hr, sub_nil]
  | some q =>
    rw [side_virtual hs hv false, side_virtual hs hv true]
    unfold ents prefixValue node
    simp only [hv, hs]
    cases toRight q np <;> simp [hs]

/-- `value()` of a good view is the value stored exactly at the view's prefix -/
theorem value_spec {t : Tree w V} {v : View w} (hg : Good t v) {P : Pfx w} (hP : v.pfx t = some P) (x : V) :
    v.value t = some x ↔ ∃ p, (p, x) ∈ v.ents t ∧ p.net = P.net := by
  obtain ⟨kk, s, np, nv, nl, nr, hs, hwf, hvirt⟩ := hg
  unfold value ents node
  cases hv : v.virt with
  | none =>
    have hPn : P = np := by simp [pfx, hv, node, hs, pfx?] at hP; exact hP.symm
    subst hPn
    simp only [hs, value?]
    constructor
    · intro h; exact ⟨P, by rw [mem_entries_node, mem_own]; exact .inl ⟨h, rfl⟩, rfl⟩
    · rintro ⟨p, he, hk⟩
      rcases mem_entries_node.1 he with h | h | h
      · exact (mem_own.1 h).1
      · exact absurd hk (List.ne_of_snoc_prefix (WF.mem_child_entries hwf false h))
      · exact absurd hk (List.ne_of_snoc_prefix (WF.mem_child_entries hwf true h))
  | some q =>
    have hPq : P = q := by simp [pfx, hv] at hP; exact hP.symm
    subst hPq
    obtain ⟨hq1, hq2⟩ := hvirt P hv
    simp only [hs]
    constructor
    · intro h; simp at h
    · rintro ⟨p, he, hk⟩
      exfalso
      have h1 := WF.mem_entries (WF.self hwf) he
      exact hq2 (hq1.eq_of_length_le (hk ▸ h1).length_le)

end View
