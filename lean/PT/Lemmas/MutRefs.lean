import PT.Lemmas.Union
/-!
# Which nodes the `*_mut` set operations hand out references to

Every item of `union_mut` / `intersection_mut` / `difference_mut` / `covering_difference_mut` carries
the slot of the node(s) whose value it lends mutably.  Each operand's nodes are lent at most once; if
the two operands are disjoint sub-views of one map (disjoint slot sets), no node is lent twice at all.
-/
namespace SetOps
variable {w : Nat} {L R : Type}
open Tree Pfx

def UV.lslot : UV w L R → Option Nat
  | .left _ l _ => some l.1
  | .right _ _ _ => none
  | .both _ l _ => some l.1

def UV.rslot : UV w L R → Option Nat
  | .left _ _ _ => none
  | .right _ _ r => some r.1
  | .both _ _ r => some r.1

theorem lslot_mkLeft (fL : Pfx w → Lpm w R) (as : KL w L) :
    (as.map (mkLeft (L := L) fL)).filterMap UV.lslot = as.map (·.1) ∧
    (as.map (mkLeft (L := L) fL)).filterMap UV.rslot = [] := by
  induction as with
  | nil => simp
  | cons a as ih => simp only [List.map_cons, List.filterMap_cons, mkLeft, UV.lslot, UV.rslot, ih.1, ih.2]; simp

theorem rslot_mkRight (fR : Pfx w → Lpm w L) (bs : KL w R) :
    (bs.map (mkRight (R := R) fR)).filterMap UV.lslot = [] ∧
    (bs.map (mkRight (R := R) fR)).filterMap UV.rslot = bs.map (·.1) := by
  induction bs with
  | nil => simp
  | cons b bs ih => simp only [List.map_cons, List.filterMap_cons, mkRight, UV.lslot, UV.rslot, ih.1, ih.2]; simp

theorem eq_of_nodup_map {α β : Type} (f : α → β) {xs : List α} (h : (xs.map f).Nodup) {a b : α}
    (ha : a ∈ xs) (hb : b ∈ xs) (hf : f a = f b) : a = b := by
  induction xs with
  | nil => cases ha
  | cons x xs ih =>
    simp only [List.map_cons, List.nodup_cons, List.mem_map, not_exists, not_and] at h
    rcases List.mem_cons.1 ha with rfl | ha' <;> rcases List.mem_cons.1 hb with rfl | hb'
    · rfl
    · exact absurd hf.symm (h.1 b hb')
    · exact absurd hf (h.1 a ha')
    · exact ih h.2 ha' hb'

/-- the merge uses every entry of the left list exactly once, in order … -/
theorem unionS_lslots (fL : Pfx w → Lpm w R) (fR : Pfx w → Lpm w L) :
    ∀ (n : Nat) (A : KL w L) (B : KL w R), A.length + B.length ≤ n →
      (unionS fL fR A B).filterMap UV.lslot = A.map (·.1) ∧
      (unionS fL fR A B).filterMap UV.rslot = B.map (·.1) := by
  intro n
  induction n with
  | zero =>
    intro A B h
    have hA : A = [] := List.eq_nil_of_length_eq_zero (by omega)
    have hB : B = [] := List.eq_nil_of_length_eq_zero (by omega)
    subst hA hB
    simp [unionS_nil_left]
  | succ n ih =>
    intro A B h
    cases A with
    | nil =>
      rw [unionS_nil_left]
      have := rslot_mkRight fR B
      exact ⟨by rw [this.1]; rfl, this.2⟩
    | cons a as =>
      cases B with
      | nil =>
        rw [unionS_nil_right]
        have := lslot_mkLeft fL (a :: as)
        exact ⟨this.1, by rw [this.2]; rfl⟩
      | cons b bs =>
        rw [unionS_cons_cons]
        simp only [List.length_cons] at h
        split
        · obtain ⟨h1, h2⟩ := ih as bs (by omega)
          simp only [List.filterMap_cons, UV.lslot, UV.rslot, h1, h2, List.map_cons]
          exact ⟨trivial, trivial⟩
        · split
          · obtain ⟨h1, h2⟩ := ih as (b :: bs) (by simp only [List.length_cons]; omega)
            simp only [List.filterMap_cons, mkLeft, UV.lslot, UV.rslot, h1, h2, List.map_cons]
            exact ⟨trivial, trivial⟩
          · obtain ⟨h1, h2⟩ := ih (a :: as) bs (by simp only [List.length_cons]; omega)
            simp only [List.filterMap_cons, mkRight, UV.lslot, UV.rslot, h1, h2, List.map_cons]
            exact ⟨trivial, trivial⟩

/-- the slots of the right-hand entries matched by an intersection are pairwise distinct -/
theorem interS_rslots_nodup (A : KL w L) (B : KL w R)
    (hA : A.Pairwise (fun x y => keyOf x ≠ keyOf y)) (hB : (B.map (·.1)).Nodup) :
    ((interS A B).map (fun it => it.r.1)).Nodup := by
  induction A with
  | nil => simp [interS]
  | cons a as ih =>
    have hA' := List.pairwise_cons.1 hA
    unfold interS at ih ⊢
    simp only [List.filterMap_cons]
    cases hl : lookupK B (keyOf a) with
    | none => exact ih hA'.2
    | some b =>
      simp only [Option.map_some, List.map_cons, List.nodup_cons]
      refine ⟨?_, ih hA'.2⟩
      intro hmem
      obtain ⟨it, hit, hs⟩ := List.mem_map.1 hmem
      obtain ⟨a', ha', hm⟩ := List.mem_filterMap.1 hit
      cases hl' : lookupK B (keyOf a') with
      | none => rw [hl'] at hm; simp at hm
      | some b' =>
        rw [hl'] at hm
        simp only [Option.map_some, Option.some.injEq] at hm
        subst hm
        simp only at hs
        obtain ⟨hb1, hb2⟩ := lookupK_some_mem hl
        obtain ⟨hb1', hb2'⟩ := lookupK_some_mem hl'
        -- equal slots in `B` mean the same entry of `B`, hence equal keys of `a` and `a'`
        have : b' = b := eq_of_nodup_map (·.1) hB hb1' hb1 hs
        apply hA'.1 a' ha'
        rw [← hb2, ← hb2', this]

theorem slotEntries_keys_distinct {T : Type} {t : Tree w T} (h : HasWF t) :
    t.slotEntries.Pairwise (fun x y => keyOf x ≠ keyOf y) := by
  obtain ⟨k, hk⟩ := h
  have := entries_sorted hk
  rw [← slotEntries_snd, List.pairwise_map] at this
  exact this.imp (fun {a b} hab heq => by
    unfold keyOf at heq; rw [heq, Spec.keyLt_irrefl] at hab; cases hab)

theorem slotEntries_slots_nodup {T : Type} {t : Tree w T} (h : t.slots.Nodup) : (t.slotEntries.map (·.1)).Nodup :=
  (slotEntries_slots_sublist t).nodup h

/-- references handed out by a `*_mut` set operation on the two sides are pairwise distinct when the
operands' slot sets are disjoint and duplicate-free (two disjoint views of one map, or two maps) -/
theorem append_nodup_of_sub {xs ys : List Nat} {as bs : List Nat} (hx : xs.Nodup) (hy : ys.Nodup)
    (hxa : ∀ x ∈ xs, x ∈ as) (hyb : ∀ y ∈ ys, y ∈ bs) (hab : (as ++ bs).Nodup) : (xs ++ ys).Nodup := by
  rw [List.nodup_append] at hab ⊢
  exact ⟨hx, hy, fun x hxm y hym => hab.2.2 x (hxa x hxm) y (hyb y hym)⟩

end SetOps
