import PT.Lemmas.Insert
/-!
# `remove` (`_remove_node` with parent / grand-parent collapse), `remove_keep_tree`, value updates
-/
namespace Tree
variable {w : Nat} {V : Type}
open Pfx

theorem WF.up {k : List Bool} {p : Pfx w} {b : Bool} {t : Tree w V} (hk : k <+: p.net)
    (h : WF (p.net ++ [b]) t) : WF k t :=
  WF.mono h (hk.trans (List.prefix_append _ _))

/-! ### `_remove_node` at the node itself -/

theorem removeHere_entries (s : Nat) (p : Pfx w) (v : Option V) (l r : Tree w V) (hp : Bool) :
    (removeHere s p v l r hp).t.entries = l.entries ++ r.entries := by
  unfold removeHere
  cases l <;> cases r <;> cases hp <;> simp [entries]

theorem removeHere_val (s : Nat) (p : Pfx w) (v : Option V) (l r : Tree w V) (hp : Bool) :
    (removeHere s p v l r hp).val = v := by
  unfold removeHere
  cases l <;> cases r <;> cases hp <;> rfl

theorem removeHere_wf {k : List Bool} {s : Nat} {p : Pfx w} {v : Option V} {l r : Tree w V}
    (h : WF k (node s p v l r)) (hp : Bool) : WF k (removeHere s p v l r hp).t := by
  unfold removeHere
  cases l <;> cases r <;> cases hp <;> simp only [Bool.false_eq_true, ite_false, ite_true]
  all_goals first
    | exact ⟨h.1, h.2.1, h.2.2⟩
    | trivial
    | exact WF.up h.1 h.2.1
    | exact WF.up h.1 h.2.2

theorem removeHere_leaf {s : Nat} {p : Pfx w} {v : Option V} {l r : Tree w V} {hp : Bool}
    (h : (removeHere s p v l r hp).leaf = true) : (removeHere s p v l r hp).t = nil := by
  unfold removeHere at h ⊢
  cases l <;> cases r <;> cases hp <;> simp_all

/-! ### `remove` -/

theorem afterChild_leaf (s : Nat) (p : Pfx w) (v : Option V) (l r : Tree w V) (b hp : Bool) (res : RemRes w V) :
    (afterChild s p v l r b hp res).leaf = false := by
  unfold afterChild; split <;> rfl

theorem afterChild_val (s : Nat) (p : Pfx w) (v : Option V) (l r : Tree w V) (b hp : Bool) (res : RemRes w V) :
    (afterChild s p v l r b hp res).val = res.val := by
  unfold afterChild; split <;> rfl

theorem get_node (s : Nat) (p : Pfx w) (v : Option V) (l r : Tree w V) (q : Pfx w) :
    get (node s p v l r) q = (match getDir p l r q with
      | .reached => v
      | .enter true => get r q
      | .enter false => get l q
      | .missing => none) := by
  unfold get
  rw [findNode]
  cases getDir p l r q with
  | reached => rfl
  | missing => rfl
  | enter b => cases b <;> rfl

theorem remove_leaf {t : Tree w V} {q : Pfx w} {hp : Bool} (h : (remove t q hp).leaf = true) :
    (remove t q hp).t = nil := by
  cases t with
  | nil => rfl
  | node s p v l r =>
    unfold remove at h ⊢
    cases hd : getDir p l r q with
    | reached => rw [hd] at h; exact removeHere_leaf h
    | missing => rw [hd] at h; simp at h
    | enter b =>
      rw [hd] at h
      cases b <;> simp only [afterChild_leaf] at h <;> simp at h

/-- nothing in the subtree has key `q` when the descent reports `Missing` -/
theorem no_key_of_missing {k : List Bool} {s : Nat} {p : Pfx w} {v : Option V} {l r : Tree w V}
    (hwf : WF k (node s p v l r)) {q : Pfx w} (hd : getDir p l r q = .missing) :
    ∀ e ∈ (node s p v l r).entries, e.1.net ≠ q.net := by
  intro e he hk
  rw [mem_entries_node] at he
  rcases he with he | he | he
  · exact (getDir_missing hd).1 ((mem_own.1 he).2 ▸ hk)
  · have := getDir_of_under hwf (b := false) he hk; rw [hd] at this; simp at this
  · have := getDir_of_under hwf (b := true) he hk; rw [hd] at this; simp at this

theorem remove_wf {k : List Bool} {t : Tree w V} (hwf : WF k t) (q : Pfx w) (hp : Bool) :
    WF k (remove t q hp).t := by
  induction t generalizing k hp with
  | nil => simp [remove]; trivial
  | node s p v l r ihl ihr =>
    unfold remove
    split
    · exact removeHere_wf hwf hp
    · unfold afterChild
      split
      · exact WF.up hwf.1 (by simpa using hwf.2.1)
      · exact ⟨hwf.1, hwf.2.1, ihr hwf.2.2 true⟩
    · unfold afterChild
      split
      · exact WF.up hwf.1 (by simpa using hwf.2.2)
      · exact ⟨hwf.1, ihl hwf.2.1 true, hwf.2.2⟩
    · exact hwf

/-- the entries after `remove q`: every old entry with a different key (any representation of the
key removes it) -/
theorem remove_mem {k : List Bool} {t : Tree w V} (hwf : WF k t) (q : Pfx w) (hp : Bool) (e : Pfx w × V) :
    e ∈ (remove t q hp).t.entries ↔ e ∈ t.entries ∧ e.1.net ≠ q.net := by
  induction t generalizing k hp with
  | nil => simp [remove, entries]
  | node s p v l r ihl ihr =>
    have hunder : ∀ b, ∀ e' ∈ (child l r b).entries, p.net ++ [b] <+: e'.1.net :=
      fun b e' he' => WF.mem_child_entries hwf b he'
    unfold remove
    split
    · next hd =>
      have he := getDir_reached hd
      rw [removeHere_entries, mem_entries_node, List.mem_append]
      constructor
      · rintro (h | h)
        · exact ⟨.inr (.inl h), he ▸ List.ne_of_snoc_prefix (hunder false e h)⟩
        · exact ⟨.inr (.inr h), he ▸ List.ne_of_snoc_prefix (hunder true e h)⟩
      · rintro ⟨h | h | h, hn⟩
        · exact absurd ((mem_own.1 h).2 ▸ he) hn
        · exact .inl h
        · exact .inr h
    · next hd =>
      obtain ⟨hne, hb, cs, cp, cv, cl, cr, hch, hcq⟩ := getDir_enter hd
      have hside := side_prefix (p := p) (q := q) ?_ hne
      · rw [← hb] at hside
        have ih := ihr hwf.2.2 true
        have hoth : ∀ e' ∈ l.entries, e'.1.net ≠ q.net :=
          fun e' he' => List.ne_of_sides (by simp) (hunder false e' he') hside
        unfold afterChild
        split
        · next hcol =>
          simp only [Bool.and_eq_true, Option.isNone_iff_eq_none] at hcol
          obtain ⟨⟨hleaf, _⟩, hv⟩ := hcol
          have hnil := remove_leaf hleaf
          simp only [Bool.not_true, child_false, mem_entries_node]
          constructor
          · intro h; exact ⟨.inr (.inl h), hoth e h⟩
          · rintro ⟨h | h | h, hn⟩
            · rw [hv] at h; simp [own] at h
            · exact h
            · have := ih.2 ⟨h, hn⟩; rw [hnil] at this; simp [entries] at this
        · simp only [setChild_true, mem_entries_node, ih]
          constructor
          · rintro (h | h | h)
            · exact ⟨.inl h, (mem_own.1 h).2 ▸ hne⟩
            · exact ⟨.inr (.inl h), hoth e h⟩
            · exact ⟨.inr (.inr h.1), h.2⟩
          · rintro ⟨h | h | h, hn⟩
            · exact .inl h
            · exact .inr (.inl h)
            · exact .inr (.inr ⟨h, hn⟩)
      · simp only [child_true] at hch
        have := hwf.2.2; rw [hch] at this
        exact ((List.prefix_append _ _).trans this.1).trans hcq
    · next hd =>
      obtain ⟨hne, hb, cs, cp, cv, cl, cr, hch, hcq⟩ := getDir_enter hd
      have hside := side_prefix (p := p) (q := q) ?_ hne
      · rw [← hb] at hside
        have ih := ihl hwf.2.1 true
        have hoth : ∀ e' ∈ r.entries, e'.1.net ≠ q.net :=
          fun e' he' => List.ne_of_sides (by simp) (hunder true e' he') hside
        unfold afterChild
        split
        · next hcol =>
          simp only [Bool.and_eq_true, Option.isNone_iff_eq_none] at hcol
          obtain ⟨⟨hleaf, _⟩, hv⟩ := hcol
          have hnil := remove_leaf hleaf
          simp only [Bool.not_false, child_true, mem_entries_node]
          constructor
          · intro h; exact ⟨.inr (.inr h), hoth e h⟩
          · rintro ⟨h | h | h, hn⟩
            · rw [hv] at h; simp [own] at h
            · have := ih.2 ⟨h, hn⟩; rw [hnil] at this; simp [entries] at this
            · exact h
        · simp only [setChild_false, mem_entries_node, ih]
          constructor
          · rintro (h | h | h)
            · exact ⟨.inl h, (mem_own.1 h).2 ▸ hne⟩
            · exact ⟨.inr (.inl h.1), h.2⟩
            · exact ⟨.inr (.inr h), hoth e h⟩
          · rintro ⟨h | h | h, hn⟩
            · exact .inl h
            · exact .inr (.inl ⟨h, hn⟩)
            · exact .inr (.inr h)
      · simp only [child_false] at hch
        have := hwf.2.1; rw [hch] at this
        exact ((List.prefix_append _ _).trans this.1).trans hcq
    · next hd =>
      constructor
      · intro h; exact ⟨h, no_key_of_missing hwf hd e h⟩
      · intro h; exact h.1

/-- the value returned by `remove` is the value stored under the key -/
theorem remove_val (t : Tree w V) (q : Pfx w) (hp : Bool) : (remove t q hp).val = get t q := by
  induction t generalizing hp with
  | nil => rfl
  | node s p v l r ihl ihr =>
    rw [get_node]
    unfold remove
    cases hd : getDir p l r q with
    | reached => simp [removeHere_val]
    | missing => rfl
    | enter b =>
      cases b
      · simp only [afterChild_val]; exact ihl true
      · simp only [afterChild_val]; exact ihr true

/-! ### `remove_keep_tree` / `OccupiedEntry::remove`: take the value, keep the node -/

theorem takeValue_wf {k : List Bool} {t : Tree w V} (hwf : WF k t) (q : Pfx w) : WF k (takeValue t q) := by
  induction t generalizing k with
  | nil => exact hwf
  | node s p v l r ihl ihr =>
    unfold takeValue
    split
    · exact ⟨hwf.1, hwf.2.1, hwf.2.2⟩
    · exact ⟨hwf.1, hwf.2.1, ihr hwf.2.2⟩
    · exact ⟨hwf.1, ihl hwf.2.1, hwf.2.2⟩
    · exact hwf

theorem takeValue_mem {k : List Bool} {t : Tree w V} (hwf : WF k t) (q : Pfx w) (e : Pfx w × V) :
    e ∈ (takeValue t q).entries ↔ e ∈ t.entries ∧ e.1.net ≠ q.net := by
  induction t generalizing k with
  | nil => simp [takeValue, entries]
  | node s p v l r ihl ihr =>
    have hunder : ∀ b, ∀ e' ∈ (child l r b).entries, p.net ++ [b] <+: e'.1.net :=
      fun b e' he' => WF.mem_child_entries hwf b he'
    unfold takeValue
    split
    · next hd =>
      have he := getDir_reached hd
      simp only [mem_entries_node]
      constructor
      · rintro (h | h | h)
        · simp [own] at h
        · exact ⟨.inr (.inl h), he ▸ List.ne_of_snoc_prefix (hunder false e h)⟩
        · exact ⟨.inr (.inr h), he ▸ List.ne_of_snoc_prefix (hunder true e h)⟩
      · rintro ⟨h | h | h, hn⟩
        · exact absurd ((mem_own.1 h).2 ▸ he) hn
        · exact .inr (.inl h)
        · exact .inr (.inr h)
    · next hd =>
      obtain ⟨hne, hb, cs, cp, cv, cl, cr, hch, hcq⟩ := getDir_enter hd
      simp only [child_true] at hch
      have hpq : p.net <+: q.net := by
        have := hwf.2.2; rw [hch] at this
        exact ((List.prefix_append _ _).trans this.1).trans hcq
      have hside := side_prefix hpq hne
      rw [← hb] at hside
      simp only [mem_entries_node, ihr hwf.2.2]
      constructor
      · rintro (h | h | h)
        · exact ⟨.inl h, (mem_own.1 h).2 ▸ hne⟩
        · exact ⟨.inr (.inl h), List.ne_of_sides (by simp) (hunder false e h) hside⟩
        · exact ⟨.inr (.inr h.1), h.2⟩
      · rintro ⟨h | h | h, hn⟩
        · exact .inl h
        · exact .inr (.inl h)
        · exact .inr (.inr ⟨h, hn⟩)
    · next hd =>
      obtain ⟨hne, hb, cs, cp, cv, cl, cr, hch, hcq⟩ := getDir_enter hd
      simp only [child_false] at hch
      have hpq : p.net <+: q.net := by
        have := hwf.2.1; rw [hch] at this
        exact ((List.prefix_append _ _).trans this.1).trans hcq
      have hside := side_prefix hpq hne
      rw [← hb] at hside
      simp only [mem_entries_node, ihl hwf.2.1]
      constructor
      · rintro (h | h | h)
        · exact ⟨.inl h, (mem_own.1 h).2 ▸ hne⟩
        · exact ⟨.inr (.inl h.1), h.2⟩
        · exact ⟨.inr (.inr h), List.ne_of_sides (by simp) (hunder true e h) hside⟩
      · rintro ⟨h | h | h, hn⟩
        · exact .inl h
        · exact .inr (.inl ⟨h, hn⟩)
        · exact .inr (.inr h)
    · next hd =>
      constructor
      · intro h; exact ⟨h, no_key_of_missing hwf hd e h⟩
      · intro h; exact h.1

/-! ### value-only writes (`get_mut`, `and_modify`, `OccupiedEntry::get_mut`) -/

theorem modifyValue_wf {k : List Bool} {t : Tree w V} (hwf : WF k t) (q : Pfx w) (f : V → V) :
    WF k (modifyValue t q f) := by
  induction t generalizing k with
  | nil => exact hwf
  | node s p v l r ihl ihr =>
    unfold modifyValue
    split
    · exact ⟨hwf.1, hwf.2.1, hwf.2.2⟩
    · exact ⟨hwf.1, hwf.2.1, ihr hwf.2.2⟩
    · exact ⟨hwf.1, ihl hwf.2.1, hwf.2.2⟩
    · exact hwf

/-- a write through `get_mut(q)` replaces the value of exactly the entry with key `q` (keeping its
stored representation) and leaves every other entry alone -/
theorem modifyValue_mem {k : List Bool} {t : Tree w V} (hwf : WF k t) (q : Pfx w) (f : V → V) (e : Pfx w × V) :
    e ∈ (modifyValue t q f).entries ↔
      (e ∈ t.entries ∧ e.1.net ≠ q.net) ∨ (∃ x, (e.1, x) ∈ t.entries ∧ e.1.net = q.net ∧ e.2 = f x) := by
  induction t generalizing k with
  | nil => simp [modifyValue, entries]
  | node s p v l r ihl ihr =>
    have hunder : ∀ b, ∀ e' ∈ (child l r b).entries, p.net ++ [b] <+: e'.1.net :=
      fun b e' he' => WF.mem_child_entries hwf b he'
    unfold modifyValue
    split
    · next hd =>
      have he := getDir_reached hd
      have hbelow : ∀ b, ∀ e' ∈ (child l r b).entries, e'.1.net ≠ q.net :=
        fun b e' he' => he ▸ List.ne_of_snoc_prefix (hunder b e' he')
      simp only [mem_entries_node]
      constructor
      · rintro (h | h | h)
        · rw [mem_own] at h
          obtain ⟨h1, h2⟩ := h
          cases v with
          | none => simp at h1
          | some x0 =>
            simp only [Option.map_some, Option.some.injEq] at h1
            exact .inr ⟨x0, .inl (by rw [mem_own]; exact ⟨rfl, h2⟩), h2 ▸ he, h1.symm⟩
        · exact .inl ⟨.inr (.inl h), hbelow false e h⟩
        · exact .inl ⟨.inr (.inr h), hbelow true e h⟩
      · rintro (⟨h | h | h, hn⟩ | ⟨x, h | h | h, hk, hv⟩)
        · exact absurd ((mem_own.1 h).2 ▸ he) hn
        · exact .inr (.inl h)
        · exact .inr (.inr h)
        · rw [mem_own] at h ⊢
          simp only at h
          exact .inl ⟨by rw [h.1]; simp [hv], h.2⟩
        · exact absurd hk (hbelow false (e.1, x) h)
        · exact absurd hk (hbelow true (e.1, x) h)
    · next hd =>
      obtain ⟨hne, hb, cs, cp, cv, cl, cr, hch, hcq⟩ := getDir_enter hd
      simp only [child_true] at hch
      have hpq : p.net <+: q.net := by
        have := hwf.2.2; rw [hch] at this
        exact ((List.prefix_append _ _).trans this.1).trans hcq
      have hside := side_prefix hpq hne
      rw [← hb] at hside
      have hoth : ∀ e' ∈ l.entries, e'.1.net ≠ q.net :=
        fun e' he' => List.ne_of_sides (by simp) (hunder false e' he') hside
      simp only [mem_entries_node, ihr hwf.2.2]
      constructor
      · rintro (h | h | h)
        · exact .inl ⟨.inl h, (mem_own.1 h).2 ▸ hne⟩
        · exact .inl ⟨.inr (.inl h), hoth e h⟩
        · rcases h with ⟨h, hn⟩ | ⟨x, h, hk, hv⟩
          · exact .inl ⟨.inr (.inr h), hn⟩
          · exact .inr ⟨x, .inr (.inr h), hk, hv⟩
      · rintro (⟨h | h | h, hn⟩ | ⟨x, h | h | h, hk, hv⟩)
        · exact .inl h
        · exact .inr (.inl h)
        · exact .inr (.inr (.inl ⟨h, hn⟩))
        · exact absurd ((mem_own.1 h).2 ▸ hk : p.net = q.net) hne
        · exact absurd hk (hoth (e.1, x) h)
        · exact .inr (.inr (.inr ⟨x, h, hk, hv⟩))
    · next hd =>
      obtain ⟨hne, hb, cs, cp, cv, cl, cr, hch, hcq⟩ := getDir_enter hd
      simp only [child_false] at hch
      have hpq : p.net <+: q.net := by
        have := hwf.2.1; rw [hch] at this
        exact ((List.prefix_append _ _).trans this.1).trans hcq
      have hside := side_prefix hpq hne
      rw [← hb] at hside
      have hoth : ∀ e' ∈ r.entries, e'.1.net ≠ q.net :=
        fun e' he' => List.ne_of_sides (by simp) (hunder true e' he') hside
      simp only [mem_entries_node, ihl hwf.2.1]
      constructor
      · rintro (h | h | h)
        · exact .inl ⟨.inl h, (mem_own.1 h).2 ▸ hne⟩
        · rcases h with ⟨h, hn⟩ | ⟨x, h, hk, hv⟩
          · exact .inl ⟨.inr (.inl h), hn⟩
          · exact .inr ⟨x, .inr (.inl h), hk, hv⟩
        · exact .inl ⟨.inr (.inr h), hoth e h⟩
      · rintro (⟨h | h | h, hn⟩ | ⟨x, h | h | h, hk, hv⟩)
        · exact .inl h
        · exact .inr (.inl (.inl ⟨h, hn⟩))
        · exact .inr (.inr h)
        · exact absurd ((mem_own.1 h).2 ▸ hk : p.net = q.net) hne
        · exact .inr (.inl (.inr ⟨x, h, hk, hv⟩))
        · exact absurd hk (hoth (e.1, x) h)
    · next hd =>
      constructor
      · intro h; exact .inl ⟨h, no_key_of_missing hwf hd e h⟩
      · rintro (h | ⟨x, h, hk, _⟩)
        · exact h.1
        · exact absurd hk (no_key_of_missing hwf hd (e.1, x) h)

end Tree
