import PT.Lemmas.Reach
import PT.SetOps
/-!
# Writes through the `&mut` handed out by mutable traversals
-/
namespace Tree
variable {w : Nat} {V : Type}
open Pfx

/-- valued nodes in pre-order, with their slots -/
def slotEntries : Tree w V → List (Nat × Pfx w × V)
  | nil => []
  | node s p v l r => (match v with | some x => [(s, p, x)] | none => []) ++ slotEntries l ++ slotEntries r

theorem slotEntries_snd (t : Tree w V) : t.slotEntries.map (·.2) = t.entries := by
  induction t with
  | nil => rfl
  | node s p v l r ihl ihr => cases v <;> simp [slotEntries, entries, ihl, ihr]

theorem slotEntries_slot_mem (t : Tree w V) : ∀ it ∈ t.slotEntries, it.1 ∈ t.slots := by
  induction t with
  | nil => simp [slotEntries]
  | node s p v l r ihl ihr =>
    intro it hit
    simp only [slotEntries, List.mem_append] at hit
    simp only [slots, List.mem_cons, List.mem_append]
    rcases hit with (h | h) | h
    · cases v <;> simp at h; exact .inl (by rw [h])
    · exact .inr (.inl (ihl it h))
    · exact .inr (.inr (ihr it h))

/-- the slots of the yielded items, as a sublist of the node slots -/
theorem slotEntries_slots_sublist (t : Tree w V) : (t.slotEntries.map (·.1)).Sublist t.slots := by
  induction t with
  | nil => simp [slotEntries, slots]
  | node s p v l r ihl ihr =>
    simp only [slotEntries, slots, List.map_append]
    cases v with
    | none =>
      simp only [List.map_nil, List.nil_append]
      exact List.Sublist.cons _ (List.Sublist.append ihl ihr)
    | some x =>
      simp only [List.map_cons, List.map_nil, List.cons_append, List.nil_append]
      exact List.Sublist.cons₂ _ (List.Sublist.append ihl ihr)

/-- what the explicit-stack iterator yields, with slots -/
def denoteS (st : List (Tree w V)) : List (Nat × Pfx w × V) := (st.map slotEntries).flatten

theorem pushChild_denoteS (st : List (Tree w V)) (c : Tree w V) :
    denoteS (pushChild st c) = c.slotEntries ++ denoteS st := by
  cases c <;> simp [pushChild, denoteS, slotEntries]

theorem iterNext_specS (st : List (Tree w V)) :
    (iterNext st = none → denoteS st = []) ∧
    (∀ it st', iterNext st = some (it, st') → denoteS st = it :: denoteS st') := by
  fun_induction iterNext st with
  | case1 => simp [denoteS]
  | case2 st ih => simpa [denoteS, slotEntries] using ih
  | case3 s p x l r st =>
    refine ⟨by simp, ?_⟩
    intro it st' h
    simp only [Option.some.injEq, Prod.mk.injEq] at h
    obtain ⟨h1, h2⟩ := h
    subst h1 h2
    rw [pushChild_denoteS, pushChild_denoteS]
    simp [denoteS, slotEntries]
  | case4 s p l r st ih =>
    have hd : denoteS (node s p none l r :: st) = denoteS (pushChild (pushChild st r) l) := by
      rw [pushChild_denoteS, pushChild_denoteS]; simp [denoteS, slotEntries]
    rw [hd]; exact ih

/-- the mutable iterators hand out, in order, the valued nodes in pre-order -/
theorem iterAllS_root (t : Tree w V) : iterAllS [t] = t.slotEntries := by
  have : ∀ st : List (Tree w V), iterAllS st = denoteS st := by
    intro st
    fun_induction iterAllS st with
    | case1 st h => simp [(iterNext_specS st).1 h]
    | case2 st it st' h ih => rw [(iterNext_specS st).2 it st' h, ih]
  rw [this]; simp [denoteS]

/-- a write through the reference for slot `k` leaves a subtree that does not contain `k` alone -/
theorem modifySlot_of_not_mem (t : Tree w V) (k : Nat) (f : V → V) (h : k ∉ t.slots) : t.modifySlot k f = t := by
  induction t with
  | nil => rfl
  | node s p v l r ihl ihr =>
    simp only [slots, List.mem_cons, List.mem_append, not_or] at h
    unfold modifySlot
    have : ¬ s = k := fun e => h.1 e.symm
    simp [this, ihl h.2.1, ihr h.2.2]

/-- a write through the reference yielded for slot `k` changes the value of exactly that item;
prefixes, slots, order and all other values are untouched -/
theorem slotEntries_modifySlot (t : Tree w V) (k : Nat) (f : V → V) (hnd : t.slots.Nodup) :
    (t.modifySlot k f).slotEntries =
      t.slotEntries.map (fun it => if it.1 = k then (it.1, it.2.1, f it.2.2) else it) := by
  induction t with
  | nil => rfl
  | node s p v l r ihl ihr =>
    simp only [slots, List.nodup_cons, List.mem_append, not_or, List.nodup_append] at hnd
    obtain ⟨⟨hsl, hsr⟩, hl, hr, hdis⟩ := hnd
    unfold modifySlot
    by_cases hk : s = k
    · subst hk
      simp only [ite_true, slotEntries, List.map_append]
      have idl : l.slotEntries.map (fun it => if it.1 = s then (it.1, it.2.1, f it.2.2) else it) = l.slotEntries := by
        have : ∀ it ∈ l.slotEntries, (fun it : Nat × Pfx w × V => if it.1 = s then (it.1, it.2.1, f it.2.2) else it) it = id it := by
          intro it hit
          have : it.1 ≠ s := fun e => hsl (e ▸ slotEntries_slot_mem l it hit)
          simp [this]
        rw [List.map_congr_left this, List.map_id]
      have idr : r.slotEntries.map (fun it => if it.1 = s then (it.1, it.2.1, f it.2.2) else it) = r.slotEntries := by
        have : ∀ it ∈ r.slotEntries, (fun it : Nat × Pfx w × V => if it.1 = s then (it.1, it.2.1, f it.2.2) else it) it = id it := by
          intro it hit
          have : it.1 ≠ s := fun e => hsr (e ▸ slotEntries_slot_mem r it hit)
          simp [this]
        rw [List.map_congr_left this, List.map_id]
      rw [idl, idr]
      cases v <;> simp
    · simp only [hk, ite_false, slotEntries, List.map_append, ihl hl, ihr hr]
      cases v <;> simp [hk]

theorem slots_modifySlot (t : Tree w V) (k : Nat) (f : V → V) : (t.modifySlot k f).slots = t.slots := by
  induction t with
  | nil => rfl
  | node s p v l r ihl ihr =>
    unfold modifySlot
    split <;> simp [slots, ihl, ihr]

/-- writes through references to distinct slots commute -/
theorem modifySlot_comm (t : Tree w V) (k1 k2 : Nat) (f g : V → V) (h : k1 ≠ k2) :
    (t.modifySlot k1 f).modifySlot k2 g = (t.modifySlot k2 g).modifySlot k1 f := by
  induction t with
  | nil => rfl
  | node s p v l r ihl ihr =>
    by_cases h1 : s = k1 <;> by_cases h2 : s = k2
    · exact absurd (h1.symm.trans h2) h
    · subst h1; simp [modifySlot, h]
    · subst h2; have h' : ¬ s = k1 := h1; simp [modifySlot, h']
    · simp [modifySlot, h1, h2, ihl, ihr]

/-- a sequence of writes, each through the reference for one slot -/
def applyWrites (t : Tree w V) (ws : List (Nat × (V → V))) : Tree w V :=
  ws.foldl (fun t x => t.modifySlot x.1 x.2) t

theorem applyWrites_append (t : Tree w V) (w1 w2 : List (Nat × (V → V))) :
    applyWrites t (w1 ++ w2) = applyWrites (applyWrites t w1) w2 := by
  simp [applyWrites, List.foldl_append]

theorem applyWrites_comm_one (t : Tree w V) (x : Nat × (V → V)) (ws : List (Nat × (V → V)))
    (h : ∀ y ∈ ws, y.1 ≠ x.1) :
    applyWrites (t.modifySlot x.1 x.2) ws = (applyWrites t ws).modifySlot x.1 x.2 := by
  induction ws generalizing t with
  | nil => rfl
  | cons y ys ih =>
    simp only [applyWrites, List.foldl_cons]
    have hy : y.1 ≠ x.1 := h y (List.mem_cons_self ..)
    rw [modifySlot_comm t x.1 y.1 x.2 y.2 (fun e => hy e.symm)]
    exact ih _ (fun z hz => h z (List.mem_cons_of_mem _ hz))

/-- `ws` is an interleaving of `w1` and `w2` (a schedule of two threads) -/
inductive Interleave {α : Type} : List α → List α → List α → Prop
  | nil : Interleave [] [] []
  | left {a : α} {l1 l2 l : List α} : Interleave l1 l2 l → Interleave (a :: l1) l2 (a :: l)
  | right {a : α} {l1 l2 l : List α} : Interleave l1 l2 l → Interleave l1 (a :: l2) (a :: l)

/-- mutating two disjoint sub-views concurrently gives the same final tree as doing so
sequentially: every interleaving of two write sequences on disjoint slot sets equals their
concatenation -/
theorem interleave_eq_append (t : Tree w V) (w1 w2 ws : List (Nat × (V → V))) (hi : Interleave w1 w2 ws)
    (hdis : ∀ x ∈ w1, ∀ y ∈ w2, x.1 ≠ y.1) : applyWrites t ws = applyWrites t (w1 ++ w2) := by
  induction hi generalizing t with
  | nil => rfl
  | left hi ih =>
    rename_i a l1 l2 l
    simp only [applyWrites, List.foldl_cons, List.cons_append]
    exact ih _ (fun x hx y hy => hdis x (List.mem_cons_of_mem _ hx) y hy)
  | right hi ih =>
    rename_i a l1 l2 l
    have ih' := ih (t.modifySlot a.1 a.2) (fun x hx y hy => hdis x hx y (List.mem_cons_of_mem _ hy))
    show applyWrites (t.modifySlot a.1 a.2) l = _
    rw [ih', applyWrites_append, applyWrites_append]
    rw [applyWrites_comm_one t a l1 (fun y hy => hdis y hy a (List.mem_cons_self ..))]
    simp [applyWrites]

end Tree
