import PT.Lemmas.Card
import PT.Lemmas.Map
/-!
# The map invariant: tree shape, entry counter, slot partition — and its preservation
-/
namespace PMap
variable {w : Nat} {V : Type}
open Tree Pfx

/-- the invariant of a reachable map state -/
structure Inv (m : PMap w V) : Prop where
  /-- root at slot 0 with the zero-length prefix; every child strictly longer than, covered by and
  on the side selected by the next bit of its parent -/
  tree : m.TreeWF
  /-- `len()` is the number of stored entries -/
  count : m.count = m.root.card
  /-- every slot ever allocated (`< alloc`) is exactly once in the tree or in the free list — never
  both, never neither … -/
  slots_lt : ∀ a, a < m.alloc → (m.root.slots ++ m.free).count a = 1
  /-- … and nothing else is -/
  slots_ge : ∀ a, m.alloc ≤ a → (m.root.slots ++ m.free).count a = 0

theorem empty_inv : (empty : PMap w V).Inv := by
  refine ⟨empty_treeWF, rfl, fun a ha => ?_, fun a ha => ?_⟩
  · have : a = 0 := by simp [empty] at ha; omega
    subst this; simp [empty, Tree.slots]
  · have : ¬ 0 = a := by simp [empty] at ha; omega
    simp [empty, Tree.slots, count_cons', this]

/-! ### `new_node`: popping the free list or growing the arena -/

theorem takeSlots_one_cases (free : List Nat) (alloc : Nat) :
    (free = [] ∧ nextSlot free alloc = alloc ∧ takeSlots 1 free alloc = ([], alloc + 1)) ∨
    (∃ ys x, free = ys ++ [x] ∧ nextSlot free alloc = x ∧ takeSlots 1 free alloc = (ys, alloc)) := by
  cases h : free.getLast? with
  | none =>
    have : free = [] := List.getLast?_eq_none_iff.1 h
    subst this
    exact .inl ⟨rfl, rfl, rfl⟩
  | some x =>
    obtain ⟨ys, hys⟩ := List.getLast?_eq_some_iff.1 h
    subst hys
    refine .inr ⟨ys, x, rfl, ?_, ?_⟩
    · simp [nextSlot]
    · simp [takeSlots]

theorem takeSlots_one (free : List Nat) (alloc : Nat) (a : Nat) :
    (alloc ≤ a → a < (takeSlots 1 free alloc).2 →
      (if nextSlot free alloc = a then 1 else 0) + (takeSlots 1 free alloc).1.count a = free.count a + 1) ∧
    (¬ (alloc ≤ a ∧ a < (takeSlots 1 free alloc).2) →
      (if nextSlot free alloc = a then 1 else 0) + (takeSlots 1 free alloc).1.count a = free.count a) ∧
    alloc ≤ (takeSlots 1 free alloc).2 ∧ (takeSlots 1 free alloc).2 ≤ alloc + 1 := by
  rcases takeSlots_one_cases free alloc with ⟨h1, h2, h3⟩ | ⟨ys, x, h1, h2, h3⟩
  · rw [h2, h3, h1]
    refine ⟨fun ha hb => ?_, fun hn => ?_, by simp, by simp⟩
    · have : alloc = a := by simp at hb; omega
      simp [this]
    · have : ¬ alloc = a := by simp at hn; omega
      simp [this]
  · rw [h2, h3, h1]
    refine ⟨fun ha hb => ?_, fun _ => ?_, by simp, by simp⟩
    · simp at hb; omega
    · simp only [List.count_append, count_cons', List.count_nil]; omega

theorem takeSlots_two (free : List Nat) (alloc : Nat) :
    takeSlots 2 free alloc = takeSlots 1 (takeSlots 1 free alloc).1 (takeSlots 1 free alloc).2 := by
  cases h : free.getLast? <;> simp [takeSlots, h]

/-- the slots handed out by `used ≤ 2` calls of `new_node` come from the free list or are fresh -/
theorem takeSlots_spec (used : Nat) (hu : used ≤ 2) (free : List Nat) (alloc : Nat) (a : Nat) :
    (alloc ≤ a → a < (takeSlots used free alloc).2 →
      (newSlots used (nextSlot free alloc) (secondSlot free alloc)).count a + (takeSlots used free alloc).1.count a =
        free.count a + 1) ∧
    (¬ (alloc ≤ a ∧ a < (takeSlots used free alloc).2) →
      (newSlots used (nextSlot free alloc) (secondSlot free alloc)).count a + (takeSlots used free alloc).1.count a =
        free.count a) ∧
    alloc ≤ (takeSlots used free alloc).2 := by
  match used, hu with
  | 0, _ =>
    refine ⟨fun ha hb => ?_, fun _ => ?_, by simp [takeSlots]⟩
    · simp [takeSlots] at hb; omega
    · simp [newSlots, takeSlots]
  | 1, _ =>
    obtain ⟨h1, h2, h3, _⟩ := takeSlots_one free alloc a
    refine ⟨fun ha hb => ?_, fun hn => ?_, h3⟩
    · have := h1 ha hb
      simp only [newSlots, List.take, count_cons', List.count_nil]; omega
    · have := h2 hn
      simp only [newSlots, List.take, count_cons', List.count_nil]; omega
  | 2, _ =>
    obtain ⟨h1, h2, h3, h4⟩ := takeSlots_one free alloc a
    obtain ⟨g1, g2, g3, g4⟩ := takeSlots_one (takeSlots 1 free alloc).1 (takeSlots 1 free alloc).2 a
    rw [takeSlots_two]
    have hc : (newSlots 2 (nextSlot free alloc) (secondSlot free alloc)).count a =
        (if nextSlot free alloc = a then 1 else 0) +
        (if nextSlot (takeSlots 1 free alloc).1 (takeSlots 1 free alloc).2 = a then 1 else 0) := by
      simp only [newSlots, List.take, count_cons', List.count_nil, secondSlot]; omega
    rw [hc]
    refine ⟨fun ha hb => ?_, fun hn => ?_, by omega⟩
    · by_cases c1 : a < (takeSlots 1 free alloc).2
      · have e1 := h1 ha c1
        have e2 := g2 (by omega)
        omega
      · have e1 := h2 (by omega)
        have e2 := g1 (by omega) hb
        omega
    · have e1 := h2 (by omega)
      have e2 := g2 (by omega)
      omega

/-! ### preservation -/

theorem insert_inv {m : PMap w V} (h : m.Inv) (q : Pfx w) (x : V) : (m.insert q x).1.Inv := by
  have hs := slots_insert m.root q x (nextSlot m.free m.alloc) (secondSlot m.free m.alloc)
  have hu := used_le_two m.root q x (nextSlot m.free m.alloc) (secondSlot m.free m.alloc)
  refine ⟨insert_treeWF h.tree q x, ?_, fun a ha => ?_, fun a ha => ?_⟩
  · have := card_insert m.root h.tree.root_ne_nil q x (nextSlot m.free m.alloc) (secondSlot m.free m.alloc)
    show (if (m.insertRes q x).old.isSome then m.count else m.count + 1) = (m.insertRes q x).t.card
    unfold insertRes
    rw [this, h.count]
    split <;> simp
  · obtain ⟨t1, t2, t3⟩ := takeSlots_spec _ hu m.free m.alloc a
    simp only [insert, withIns, insertRes, List.count_append] at ha ⊢
    rw [hs a]
    by_cases c : a < m.alloc
    · have := h.slots_lt a c
      have e := t2 (by omega)
      simp only [List.count_append] at this; omega
    · have := h.slots_ge a (by omega)
      have e := t1 (by omega) ha
      simp only [List.count_append] at this; omega
  · obtain ⟨t1, t2, t3⟩ := takeSlots_spec _ hu m.free m.alloc a
    simp only [insert, withIns, insertRes, List.count_append] at ha ⊢
    rw [hs a]
    have := h.slots_ge a (by omega)
    have e := t2 (by omega)
    simp only [List.count_append] at this; omega

theorem remove_inv {m : PMap w V} (h : m.Inv) (q : Pfx w) : (m.remove q).1.Inv := by
  refine ⟨remove_treeWF h.tree q, ?_, fun a ha => ?_, fun a ha => ?_⟩
  · have := card_remove m.root q false
    show (if (m.root.remove q false).val.isSome then m.count - 1 else m.count) = (m.root.remove q false).t.card
    rw [h.count]
    split <;> simp_all <;> omega
  · have hs := slots_remove m.root q false a
    have hi := h.slots_lt a ha
    simp only [remove, withRem, List.count_append] at hi ⊢
    omega
  · have hs := slots_remove m.root q false a
    have hi := h.slots_ge a ha
    simp only [remove, withRem, List.count_append] at hi ⊢
    omega

theorem removeKeepTree_inv {m : PMap w V} (h : m.Inv) (q : Pfx w) : (m.removeKeepTree q).1.Inv := by
  refine ⟨removeKeepTree_treeWF h.tree q, ?_, fun a ha => ?_, fun a ha => ?_⟩
  · have := card_takeValue m.root q
    show (if (m.root.get q).isSome then m.count - 1 else m.count) = (m.root.takeValue q).card
    rw [h.count]
    split <;> simp_all <;> omega
  · simp only [removeKeepTree, slots_takeValue]; exact h.slots_lt a ha
  · simp only [removeKeepTree, slots_takeValue]; exact h.slots_ge a ha

theorem modify_inv {m : PMap w V} (h : m.Inv) (q : Pfx w) (f : V → V) : (m.modify q f).Inv := by
  refine ⟨modify_treeWF h.tree q f, ?_, fun a ha => ?_, fun a ha => ?_⟩
  · simp only [modify, card_modifyValue]; exact h.count
  · simp only [modify, slots_modifyValue]; exact h.slots_lt a ha
  · simp only [modify, slots_modifyValue]; exact h.slots_ge a ha

theorem clear_inv (m : PMap w V) : m.clear.Inv := empty_inv

theorem orInsert_inv {m : PMap w V} (h : m.Inv) (q : Pfx w) (x : V) : (m.orInsert q x).1.Inv := by
  unfold orInsert
  cases m.root.get q with
  | none => exact insert_inv h q x
  | some v => exact h

theorem retain_inv {m : PMap w V} (h : m.Inv) (f : Pfx w → V → Bool) (stop : Option Nat) :
    (m.retain f stop).Inv := by
  unfold retain
  generalize m.retainCalls stop = calls
  induction calls generalizing m with
  | nil => exact h
  | cons e es ih =>
    simp only [List.foldl_cons]
    apply ih
    unfold retainStep
    split
    · exact h
    · exact remove_inv h e.1

theorem collect_inv (xs : List (Pfx w × V)) : (collect xs).Inv := by
  unfold collect
  suffices ∀ (m : PMap w V), m.Inv → (xs.foldl (fun m e => (m.insert e.1 e.2).1) m).Inv from
    this _ empty_inv
  induction xs with
  | nil => intro m h; exact h
  | cons e es ih => intro m h; exact ih _ (insert_inv h e.1 e.2)

end PMap
