import PT.Lemmas.Writes
/-!
# Value writes through mutable views at different nodes commute

`PMap.writeAt m p nv`: the value slot of the node at path `p` becomes `nv` (`TrieViewMut::set`: `some x`,
`TrieViewMut::remove`: `none`) and the entry counter is adjusted.  Two such writes at different
nodes commute on every state satisfying the invariant, so any interleaving of the writes of two
threads working on disjoint sub-views ends in the state of running one thread after the other.
-/
namespace Tree
variable {w : Nat} {V : Type}

theorem sub_setAt_isNil (t : Tree w V) (p q : List Bool) (nv : Option V) :
    ((setAt t p nv).sub q).isNil = (t.sub q).isNil := by
  induction q generalizing t p with
  | nil => rw [sub_nil, sub_nil, setAt_isNil]
  | cons c cs ih =>
    cases t with
    | nil => rw [setAt_nil_tree]
    | node s pf v l r =>
      cases p with
      | nil => rw [setAt_nil]; rfl
      | cons d ds =>
        rw [setAt_cons, sub_cons_node]
        unfold setChild
        cases d <;> cases c <;> simp only [Bool.false_eq_true, ite_false, ite_true, sub_cons_node, child_false, child_true]
        · exact ih l ds
        · exact ih r ds

/-- the value at another node is untouched -/
theorem value_sub_setAt (t : Tree w V) {p q : List Bool} (h : p ≠ q) (nv : Option V) :
    ((setAt t p nv).sub q).value? = (t.sub q).value? := by
  induction q generalizing t p with
  | nil =>
    cases p with
    | nil => exact absurd rfl h
    | cons d ds =>
      rw [sub_nil, sub_nil]
      cases t with
      | nil => rw [setAt_nil_tree]
      | node s pf v l r => rw [setAt_cons]; unfold setChild; split <;> rfl
  | cons c cs ih =>
    cases t with
    | nil => rw [setAt_nil_tree]
    | node s pf v l r =>
      cases p with
      | nil => rw [setAt_nil]; rfl
      | cons d ds =>
        rw [setAt_cons, sub_cons_node]
        unfold setChild
        cases d <;> cases c <;> simp only [Bool.false_eq_true, ite_false, ite_true, sub_cons_node, child_false, child_true]
        · exact ih l (fun e => h (by rw [e]))
        · exact ih r (fun e => h (by rw [e]))

theorem setAt_comm (t : Tree w V) {p q : List Bool} (h : p ≠ q) (a b : Option V) :
    setAt (setAt t p a) q b = setAt (setAt t q b) p a := by
  induction p generalizing t q with
  | nil =>
    cases q with
    | nil => exact absurd rfl h
    | cons c cs =>
      cases t with
      | nil => simp [setAt_nil_tree]
      | node s pf v l r =>
        rw [setAt_nil, setAt_cons]
        simp only [withValue]
        rw [setAt_cons]
        unfold setChild
        cases c <;> simp only [Bool.false_eq_true, ite_false, ite_true, setAt_nil, withValue, child_false, child_true]
  | cons d ds ih =>
    cases t with
    | nil => simp [setAt_nil_tree]
    | node s pf v l r =>
      cases q with
      | nil =>
        rw [setAt_nil, setAt_cons]
        unfold setChild
        cases d <;> simp only [Bool.false_eq_true, ite_false, ite_true, setAt_nil, withValue, setAt_cons, setChild, child_false, child_true]
      | cons c cs =>
        rw [setAt_cons, setAt_cons]
        unfold setChild
        cases d <;> cases c <;>
          simp only [Bool.false_eq_true, ite_false, ite_true, setAt_cons, setChild, child_false, child_true]
        · rw [ih l (fun e => h (by rw [e]))]
        · rw [ih r (fun e => h (by rw [e]))]

end Tree

namespace PMap
variable {w : Nat} {V : Type}
open Tree

/-- the entry counter after the value slot of a node changed from `old` to `nv` -/
def bumpCount (c : Nat) (old nv : Option V) : Nat :=
  match old, nv with
  | some _, none => c - 1
  | none, some _ => c + 1
  | _, _ => c

/-- `TrieViewMut::set` (`nv = some x`) / `remove` (`nv = none`) on the node at path `p` -/
def writeAt (m : PMap w V) (p : List Bool) (nv : Option V) : PMap w V :=
  ⟨setAt m.root p nv, m.free, m.alloc, bumpCount m.count (m.root.sub p).value? nv⟩

theorem viewSet_eq_writeAt (m : PMap w V) (v : View w) (x : V) (hv : v.virt = none) :
    (m.viewSet v x).1 = m.writeAt v.path (some x) := by
  unfold viewSet writeAt setAt View.node bumpCount
  rw [hv]
  cases (m.root.sub v.path).value? <;> rfl

theorem viewRemove_eq_writeAt (m : PMap w V) (v : View w) (hv : v.virt = none) :
    (m.viewRemove v).1 = m.writeAt v.path none := by
  unfold viewRemove writeAt setAt View.node bumpCount
  rw [hv]
  cases (m.root.sub v.path).value? <;> rfl

/-- a write at an existing node keeps the invariant -/
theorem writeAt_inv {m : PMap w V} (h : m.Inv) {p : List Bool} (hp : (m.root.sub p).isNil = false) (nv : Option V) :
    (m.writeAt p nv).Inv := by
  cases hs : m.root.sub p with
  | nil => rw [hs] at hp; cases hp
  | node s np ov l r =>
    refine ⟨setAt_treeWF h.tree _ _ _ _ _, ?_, fun a ha => ?_, fun a ha => ?_⟩
    · have := setAt_card hs nv
      show bumpCount m.count (m.root.sub p).value? nv = (setAt m.root p nv).card
      rw [hs, h.count]
      unfold bumpCount
      cases ov <;> cases nv <;> simp [value?] at this ⊢ <;> omega
    · show (Tree.slots (setAt m.root p nv) ++ m.free).count a = 1
      rw [setAt_slots]; exact h.slots_lt a ha
    · show (Tree.slots (setAt m.root p nv) ++ m.free).count a = 0
      rw [setAt_slots]; exact h.slots_ge a ha

/-- writes at two different existing nodes commute -/
theorem writeAt_comm {m : PMap w V} (h : m.Inv) {p q : List Bool} (hpq : p ≠ q)
    (hp : (m.root.sub p).isNil = false) (hq : (m.root.sub q).isNil = false) (a b : Option V) :
    (m.writeAt p a).writeAt q b = (m.writeAt q b).writeAt p a := by
  have h1 : ((m.writeAt p a).writeAt q b).Inv :=
    writeAt_inv (writeAt_inv h hp a) (by show ((setAt m.root p a).sub q).isNil = false; rw [sub_setAt_isNil]; exact hq) b
  have h2 : ((m.writeAt q b).writeAt p a).Inv :=
    writeAt_inv (writeAt_inv h hq b) (by show ((setAt m.root q b).sub p).isNil = false; rw [sub_setAt_isNil]; exact hp) a
  have hr : ((m.writeAt p a).writeAt q b).root = ((m.writeAt q b).writeAt p a).root := setAt_comm m.root hpq a b
  have hc : ((m.writeAt p a).writeAt q b).count = ((m.writeAt q b).writeAt p a).count := by
    rw [h1.count, h2.count, hr]
  have e1 : (m.writeAt p a).writeAt q b = ⟨((m.writeAt p a).writeAt q b).root, m.free, m.alloc, ((m.writeAt p a).writeAt q b).count⟩ := rfl
  have e2 : (m.writeAt q b).writeAt p a = ⟨((m.writeAt q b).writeAt p a).root, m.free, m.alloc, ((m.writeAt q b).writeAt p a).count⟩ := rfl
  rw [e1, e2, hr, hc]

/-- a sequence of view writes (one thread's work) -/
def applyViewWrites (m : PMap w V) (ws : List (List Bool × Option V)) : PMap w V :=
  ws.foldl (fun m x => m.writeAt x.1 x.2) m

theorem writeAt_keeps_nodes (m : PMap w V) (p q : List Bool) (nv : Option V) :
    ((m.writeAt p nv).root.sub q).isNil = (m.root.sub q).isNil := sub_setAt_isNil m.root p q nv

theorem applyViewWrites_comm_one {m : PMap w V} (h : m.Inv) (x : List Bool × Option V) (ws : List (List Bool × Option V))
    (hx : (m.root.sub x.1).isNil = false) (hws : ∀ y ∈ ws, (m.root.sub y.1).isNil = false) (hne : ∀ y ∈ ws, y.1 ≠ x.1) :
    applyViewWrites (m.writeAt x.1 x.2) ws = (applyViewWrites m ws).writeAt x.1 x.2 := by
  induction ws generalizing m with
  | nil => rfl
  | cons y ys ih =>
    simp only [applyViewWrites, List.foldl_cons]
    have hy := hws y (List.mem_cons_self ..)
    rw [writeAt_comm h (hne y (List.mem_cons_self ..)).symm hx hy]
    exact ih (writeAt_inv h hy y.2) (by rw [writeAt_keeps_nodes]; exact hx)
      (fun z hz => by rw [writeAt_keeps_nodes]; exact hws z (List.mem_cons_of_mem _ hz))
      (fun z hz => hne z (List.mem_cons_of_mem _ hz))

theorem applyViewWrites_inv {m : PMap w V} (h : m.Inv) (ws : List (List Bool × Option V))
    (hws : ∀ y ∈ ws, (m.root.sub y.1).isNil = false) :
    (applyViewWrites m ws).Inv ∧ ∀ q, ((applyViewWrites m ws).root.sub q).isNil = (m.root.sub q).isNil := by
  induction ws generalizing m with
  | nil => exact ⟨h, fun _ => rfl⟩
  | cons y ys ih =>
    simp only [applyViewWrites, List.foldl_cons]
    have hy := hws y (List.mem_cons_self ..)
    have := ih (writeAt_inv h hy y.2) (fun z hz => by rw [writeAt_keeps_nodes]; exact hws z (List.mem_cons_of_mem _ hz))
    exact ⟨this.1, fun q => (this.2 q).trans (writeAt_keeps_nodes m y.1 q y.2)⟩

/-- **concurrent = sequential for `set` / `remove` through views**: every interleaving `ws` of the write
sequences `w1`, `w2` of two threads that address different existing nodes (disjoint sub-views) ends in
the state — tree *and* entry counter — of `w1` followed by `w2` -/
theorem view_writes_interleave {m : PMap w V} (h : m.Inv) (w1 w2 ws : List (List Bool × Option V))
    (hi : Tree.Interleave w1 w2 ws)
    (h1 : ∀ x ∈ w1, (m.root.sub x.1).isNil = false) (h2 : ∀ y ∈ w2, (m.root.sub y.1).isNil = false)
    (hdis : ∀ x ∈ w1, ∀ y ∈ w2, x.1 ≠ y.1) :
    applyViewWrites m ws = applyViewWrites m (w1 ++ w2) := by
  induction hi generalizing m with
  | nil => rfl
  | left hi ih =>
    rename_i a l1 l2 l
    simp only [applyViewWrites, List.foldl_cons, List.cons_append]
    have ha := h1 a (List.mem_cons_self ..)
    exact ih (writeAt_inv h ha a.2)
      (fun x hx => by rw [writeAt_keeps_nodes]; exact h1 x (List.mem_cons_of_mem _ hx))
      (fun y hy => by rw [writeAt_keeps_nodes]; exact h2 y hy)
      (fun x hx y hy => hdis x (List.mem_cons_of_mem _ hx) y hy)
  | right hi ih =>
    rename_i a l1 l2 l
    have ha := h2 a (List.mem_cons_self ..)
    have ih' := ih (writeAt_inv h ha a.2)
      (fun x hx => by rw [writeAt_keeps_nodes]; exact h1 x hx)
      (fun y hy => by rw [writeAt_keeps_nodes]; exact h2 y (List.mem_cons_of_mem _ hy))
      (fun x hx y hy => hdis x hx y (List.mem_cons_of_mem _ hy))
    show applyViewWrites (m.writeAt a.1 a.2) l = _
    rw [ih']
    unfold applyViewWrites
    rw [List.foldl_append, List.foldl_append]
    have hc := applyViewWrites_comm_one h a l1 ha h1 (fun y hy => hdis y hy a (List.mem_cons_self ..))
    unfold applyViewWrites at hc
    rw [hc]
    rfl

end PMap
