import PT.Bits
/-!
# The arena as a slot-labelled tree (model of `src/inner.rs`)

`Tree w V` is the index structure reachable from a node: every node carries the number of its
arena slot, its stored prefix (host bits retained), its optional value and its two children
(`nil` = `None`).  `Dir` / `DirIns` are `Direction` / `DirectionForInsert`;
`getDir` / `dirIns` are `Table::get_direction` / `Table::get_direction_for_insert`, evaluated at a
node whose prefix is `p` and whose children are `l r`.
-/

inductive Tree (w : Nat) (V : Type) where
  | nil
  | node (slot : Nat) (p : Pfx w) (v : Option V) (l r : Tree w V)

namespace Tree
variable {w : Nat} {V : Type}

def isNil : Tree w V → Bool
  | nil => true
  | node .. => false

def size : Tree w V → Nat
  | nil => 0
  | node _ _ _ l r => 1 + size l + size r

/-- prefix of the root node of a subtree -/
def pfx? : Tree w V → Option (Pfx w)
  | nil => none
  | node _ p _ _ _ => some p

/-- `Node::prefix_value` of the root node of a subtree -/
def pv : Tree w V → Option (Pfx w × V)
  | node _ p (some v) _ _ => some (p, v)
  | _ => none

def pvList (t : Tree w V) : List (Pfx w × V) := t.pv.toList

/-- `Table::get_child` -/
def child (l r : Tree w V) (right : Bool) : Tree w V := if right then r else l

/-- `Table::set_child` / `clear_child` seen functionally: rebuild the node with one child replaced -/
def setChild (s : Nat) (p : Pfx w) (v : Option V) (l r : Tree w V) (right : Bool) (c : Tree w V) : Tree w V :=
  if right then node s p v l c else node s p v c r

/-- valued nodes in pre-order: node, left subtree, right subtree — the *entries* of a subtree -/
def entries : Tree w V → List (Pfx w × V)
  | nil => []
  | node _ p v l r => (match v with | some x => [(p, x)] | none => []) ++ entries l ++ entries r

/-- valued nodes in post-order (left, right, node): the order in which `_retain` calls its predicate -/
def postorder : Tree w V → List (Pfx w × V)
  | nil => []
  | node _ p v l r => postorder l ++ postorder r ++ (match v with | some x => [(p, x)] | none => [])

/-- arena slots of the nodes of a subtree, pre-order -/
def slots : Tree w V → List Nat
  | nil => []
  | node s _ _ l r => s :: (slots l ++ slots r)

/-- order in which `_do_remove_children` pushes the slots of a detached subtree to the free list
(explicit stack: pop, push left, push right ⇒ node, right subtree, left subtree) -/
def freeOrder : Tree w V → List Nat
  | nil => []
  | node s _ _ l r => s :: (freeOrder r ++ freeOrder l)

/-- `Direction` -/
inductive Dir where
  | reached
  | enter (right : Bool)
  | missing
deriving DecidableEq, Repr

/-- `DirectionForInsert` -/
inductive DirIns (w : Nat) where
  | reached
  | enter (right : Bool)
  | newLeaf (right : Bool)
  | newChild (right childRight : Bool)
  | newBranch (branch : Pfx w) (right prefixRight : Bool)
deriving DecidableEq

def dirChild (q : Pfx w) (right : Bool) : Option (Pfx w) → Dir
  | some cp => if cp.contains q then .enter right else .missing
  | none => .missing

/-- `Table::get_direction(cur, q)` -/
def getDir (p : Pfx w) (l r : Tree w V) (q : Pfx w) : Dir :=
  if p.eqv q then .reached
  else dirChild q (Pfx.toRight p q) (child l r (Pfx.toRight p q)).pfx?

def dirInsChild (q : Pfx w) (right : Bool) : Option (Pfx w) → DirIns w
  | none => .newLeaf right
  | some cp =>
    if cp.contains q then .enter right
    else if q.contains cp then .newChild right (Pfx.toRight q cp)
    else .newBranch (q.lcp cp) right (Pfx.toRight (q.lcp cp) q)

/-- `Table::get_direction_for_insert(cur, q)` -/
def dirIns (p : Pfx w) (l r : Tree w V) (q : Pfx w) : DirIns w :=
  if p.eqv q then .reached
  else dirInsChild q (Pfx.toRight p q) (child l r (Pfx.toRight p q)).pfx?

/-- subtree reached by following a list of child directions -/
def sub : Tree w V → List Bool → Tree w V
  | t, [] => t
  | nil, _ :: _ => nil
  | node _ _ _ l r, b :: bs => sub (child l r b) bs

/-- apply `f` to the node at a path (used for writes through `&mut` handed out by views/iterators) -/
def modifyAt : Tree w V → List Bool → (Tree w V → Tree w V) → Tree w V
  | t, [], f => f t
  | nil, _ :: _, _ => nil
  | node s p v l r, true :: bs, f => node s p v l (modifyAt r bs f)
  | node s p v l r, false :: bs, f => node s p v (modifyAt l bs f) r

/-- replace the value slot of a root node (prefix untouched) -/
def withValue : Tree w V → Option V → Tree w V
  | nil, _ => nil
  | node s p _ l r, v => node s p v l r

def value? : Tree w V → Option V
  | nil => none
  | node _ _ v _ _ => v

end Tree
