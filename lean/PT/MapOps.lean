import PT.Tree
/-!
# Map operations (model of `src/map/mod.rs`, `src/map/entry.rs`)

Tree-level functions mirror the `loop { match get_direction… }` descents as structural recursion;
`PMap` adds the free list, the arena length and the entry counter.
-/

namespace Tree
variable {w : Nat} {V : Type}

/-! ## exact-match descent (`get`, `get_mut`, `get_key_value`, `contains_key`, `entry`) -/

/-- the node at which the descent of `get*` ends with `Reached`: its stored prefix and value slot -/
def findNode : Tree w V → Pfx w → Option (Pfx w × Option V)
  | nil, _ => none
  | node _ p v l r, q =>
    match getDir p l r q with
    | .reached => some (p, v)
    | .enter true => findNode r q
    | .enter false => findNode l q
    | .missing => none

def get (t : Tree w V) (q : Pfx w) : Option V :=
  match findNode t q with
  | some (_, v) => v
  | none => none

def getKeyValue (t : Tree w V) (q : Pfx w) : Option (Pfx w × V) :=
  match findNode t q with
  | some (p, some v) => some (p, v)
  | _ => none

def containsKey (t : Tree w V) (q : Pfx w) : Bool := (get t q).isSome

/-- `a.or(b)` with `a = node.prefix_value()` -/
def pvOr (p : Pfx w) (v : Option V) (best : Option (Pfx w × V)) : Option (Pfx w × V) :=
  match v with
  | some x => some (p, x)
  | none => best

/-- `get_lpm` / `get_lpm_prefix` / `get_lpm_mut` (same descent, `best_match` updated before the
direction is evaluated) -/
def getLpm : Tree w V → Pfx w → Option (Pfx w × V) → Option (Pfx w × V)
  | nil, _, best => best
  | node _ p v l r, q, best =>
    match getDir p l r q with
    | .enter true => getLpm r q (pvOr p v best)
    | .enter false => getLpm l q (pvOr p v best)
    | _ => pvOr p v best

/-- the loop of `get_spm`, entered at a node whose own value has already been inspected -/
def getSpmGo : Tree w V → Pfx w → Option (Pfx w × V)
  | nil, _ => none
  | node _ p v l r, q =>
    match getDir p l r q with
    | .reached => pvOr p v none
    | .enter true => (match r.pv with | some x => some x | none => getSpmGo r q)
    | .enter false => (match l.pv with | some x => some x | none => getSpmGo l q)
    | .missing => none

/-- `get_spm` -/
def getSpm (t : Tree w V) (q : Pfx w) : Option (Pfx w × V) :=
  match t.pv with
  | some x => some x
  | none => getSpmGo t q

/-- the items of `Cover` after the first `next()`, from a node that has been handled -/
def coverGo : Tree w V → Pfx w → List (Pfx w × V)
  | nil, _ => []
  | node _ p _ l r, q =>
    match getDir p l r q with
    | .enter true => r.pvList ++ coverGo r q
    | .enter false => l.pvList ++ coverGo l q
    | _ => []

/-- all items of `cover(q)` -/
def cover (t : Tree w V) (q : Pfx w) : List (Pfx w × V) := t.pvList ++ coverGo t q

/-! ## insertion -/

structure InsRes (w : Nat) (V : Type) where
  t : Tree w V
  old : Option V
  used : Nat

def InsRes.mapT (res : InsRes w V) (f : Tree w V → Tree w V) : InsRes w V :=
  ⟨f res.t, res.old, res.used⟩

def leaf (s : Nat) (q : Pfx w) (x : V) : Tree w V := node s q (some x) nil nil

/-- new node `q` taking over the old child `c` on side `cr` (`NewChild`) -/
def mkChild (s : Nat) (q : Pfx w) (x : V) (c : Tree w V) (cr : Bool) : Tree w V :=
  if cr then node s q (some x) nil c else node s q (some x) c nil

/-- value-less branch node with the new leaf on side `pr` and the old child on the other (`NewBranch`) -/
def mkBranch (sb : Nat) (b : Pfx w) (sn : Nat) (q : Pfx w) (x : V) (c : Tree w V) (pr : Bool) : Tree w V :=
  if pr then node sb b none c (leaf sn q x) else node sb b none (leaf sn q x) c

/-- `PrefixMap::insert` (and the identical placement code of `VacantEntry::_insert`).
`s1`, `s2` are the slots that the first and second call of `new_node` would return. -/
def insert : Tree w V → Pfx w → V → Nat → Nat → InsRes w V
  | nil, _, _, _, _ => ⟨nil, none, 0⟩
  | node s p v l r, q, x, s1, s2 =>
    match dirIns p l r q with
    | .reached => ⟨node s q (some x) l r, v, 0⟩
    | .enter true => (insert r q x s1 s2).mapT (fun t' => node s p v l t')
    | .enter false => (insert l q x s1 s2).mapT (fun t' => node s p v t' r)
    | .newLeaf right => ⟨setChild s p v l r right (leaf s1 q x), none, 1⟩
    | .newChild right cr => ⟨setChild s p v l r right (mkChild s1 q x (child l r right) cr), none, 1⟩
    | .newBranch b right pr =>
      ⟨setChild s p v l r right (mkBranch s1 b s2 q x (child l r right) pr), none, 2⟩

/-! ## value-only updates -/

/-- write through the reference returned by `get_mut` / `OccupiedEntry::get_mut` / `and_modify`:
the value at the reached node (if any) becomes `f value`; the stored prefix is untouched -/
def modifyValue : Tree w V → Pfx w → (V → V) → Tree w V
  | nil, _, _ => nil
  | node s p v l r, q, f =>
    match getDir p l r q with
    | .reached => node s p (v.map f) l r
    | .enter true => node s p v l (modifyValue r q f)
    | .enter false => node s p v (modifyValue l q f) r
    | .missing => node s p v l r

/-- `remove_keep_tree` / `OccupiedEntry::remove`: take the value, keep the node -/
def takeValue : Tree w V → Pfx w → Tree w V
  | nil, _ => nil
  | node s p v l r, q =>
    match getDir p l r q with
    | .reached => node s p none l r
    | .enter true => node s p v l (takeValue r q)
    | .enter false => node s p v (takeValue l q) r
    | .missing => node s p v l r

/-- slot of the node on which `get_lpm_mut` settles -/
def lpmKey (t : Tree w V) (q : Pfx w) : Option (Pfx w) := (getLpm t q none).map (·.1)

/-! ## removal -/

structure RemRes (w : Nat) (V : Type) where
  t : Tree w V
  val : Option V
  freed : List Nat
  leaf : Bool

/-- `_remove_node` applied to the node itself (`hasPar` = the node is not the root) -/
def removeHere (s : Nat) (p : Pfx w) (v : Option V) (l r : Tree w V) (hasPar : Bool) : RemRes w V :=
  match l, r with
  | node .., node .. => ⟨node s p none l r, v, [], false⟩
  | nil, nil => if hasPar then ⟨nil, v, [s], true⟩ else ⟨node s p none nil nil, v, [], false⟩
  | node .., nil => if hasPar then ⟨l, v, [s], false⟩ else ⟨node s p none l r, v, [], false⟩
  | nil, node .. => if hasPar then ⟨r, v, [s], false⟩ else ⟨node s p none l r, v, [], false⟩

/-- back at the parent `node s p v …` after the child on side `right` was processed: if the child
was removed as a leaf, the parent has a grand-parent (`hasPar`) and holds no value, the parent is
collapsed into its other child `sib` (possibly `nil`) and its slot is freed -/
def afterChild (s : Nat) (p : Pfx w) (v : Option V) (l r : Tree w V) (right : Bool) (hasPar : Bool)
    (res : RemRes w V) : RemRes w V :=
  if res.leaf && hasPar && v.isNone then
    ⟨child l r (!right), res.val, res.freed ++ [s], false⟩
  else
    ⟨setChild s p v l r right res.t, res.val, res.freed, false⟩

/-- `PrefixMap::remove`: descent of `get_direction` remembering parent and grand-parent, then
`_remove_node` -/
def remove : Tree w V → Pfx w → Bool → RemRes w V
  | nil, _, _ => ⟨nil, none, [], false⟩
  | node s p v l r, q, hasPar =>
    match getDir p l r q with
    | .reached => removeHere s p v l r hasPar
    | .enter true => afterChild s p v l r true hasPar (remove r q true)
    | .enter false => afterChild s p v l r false hasPar (remove l q true)
    | .missing => ⟨node s p v l r, none, [], false⟩

/-! ## remove_children -/

inductive RcRes (w : Nat) (V : Type) where
  | notFound
  | here
  | done (t : Tree w V) (removed : Tree w V)

def rcAfter (s : Nat) (p : Pfx w) (v : Option V) (l r : Tree w V) (right : Bool) : RcRes w V → RcRes w V
  | .here => .done (setChild s p v l r right nil) (child l r right)
  | .done c' rem => .done (setChild s p v l r right c') rem
  | .notFound => .notFound

/-- `remove_children` for a prefix of non-zero length: descent of `get_direction_for_insert` -/
def rmChildren : Tree w V → Pfx w → RcRes w V
  | nil, _ => .notFound
  | node s p v l r, q =>
    match dirIns p l r q with
    | .reached => .here
    | .enter true => rcAfter s p v l r true (rmChildren r q)
    | .enter false => rcAfter s p v l r false (rmChildren l q)
    | .newLeaf _ => .notFound
    | .newBranch _ _ _ => .notFound
    | .newChild right _ => .done (setChild s p v l r right nil) (child l r right)

/-! ## children -/

/-- `lpm_children_iter_start`: the subtree from which `children(q)` iterates (`nil` = empty stack) -/
def childrenStart : Tree w V → Pfx w → Tree w V
  | nil, _ => nil
  | node s p v l r, q =>
    if p.eqv q then node s p v l r
    else match child l r (Pfx.toRight p q) with
      | nil => nil
      | node cs cp cv cl cr =>
        if cp.contains q then
          (match Pfx.toRight p q with
           | true => childrenStart r q
           | false => childrenStart l q)
        else if q.contains cp then node cs cp cv cl cr
        else nil

end Tree

/-! ## The map -/

structure PMap (w : Nat) (V : Type) where
  root : Tree w V
  free : List Nat
  alloc : Nat
  count : Nat

namespace PMap
variable {w : Nat} {V : Type}

/-- `PrefixMap::new` / `Default` -/
def empty : PMap w V := ⟨.node 0 Pfx.zero none .nil .nil, [], 1, 0⟩

def len (m : PMap w V) : Nat := m.count
def isEmpty (m : PMap w V) : Bool := m.count == 0

def entries (m : PMap w V) : List (Pfx w × V) := m.root.entries

def get (m : PMap w V) (q : Pfx w) : Option V := m.root.get q
def getKeyValue (m : PMap w V) (q : Pfx w) : Option (Pfx w × V) := m.root.getKeyValue q
def containsKey (m : PMap w V) (q : Pfx w) : Bool := m.root.containsKey q
def getLpm (m : PMap w V) (q : Pfx w) : Option (Pfx w × V) := m.root.getLpm q none
def getLpmPrefix (m : PMap w V) (q : Pfx w) : Option (Pfx w) := (m.getLpm q).map (·.1)
def getSpm (m : PMap w V) (q : Pfx w) : Option (Pfx w × V) := m.root.getSpm q
def getSpmPrefix (m : PMap w V) (q : Pfx w) : Option (Pfx w) := (m.getSpm q).map (·.1)
def cover (m : PMap w V) (q : Pfx w) : List (Pfx w × V) := m.root.cover q

/-- the slot returned by the next `new_node` call: `free.pop()` or a fresh slot -/
def nextSlot (free : List Nat) (alloc : Nat) : Nat :=
  match free.getLast? with
  | some s => s
  | none => alloc

/-- the free list and arena length after `k ≤ 2` calls of `new_node` -/
def takeSlots : Nat → List Nat → Nat → List Nat × Nat
  | 0, free, alloc => (free, alloc)
  | k + 1, free, alloc =>
    match free.getLast? with
    | some _ => takeSlots k free.dropLast alloc
    | none => takeSlots k free (alloc + 1)

def secondSlot (free : List Nat) (alloc : Nat) : Nat :=
  nextSlot (takeSlots 1 free alloc).1 (takeSlots 1 free alloc).2

def withIns (m : PMap w V) (res : Tree.InsRes w V) : PMap w V :=
  ⟨res.t, (takeSlots res.used m.free m.alloc).1, (takeSlots res.used m.free m.alloc).2,
    if res.old.isSome then m.count else m.count + 1⟩

def insertRes (m : PMap w V) (q : Pfx w) (x : V) : Tree.InsRes w V :=
  m.root.insert q x (nextSlot m.free m.alloc) (secondSlot m.free m.alloc)

/-- `PrefixMap::insert`; the result is the previous value -/
def insert (m : PMap w V) (q : Pfx w) (x : V) : PMap w V × Option V :=
  (m.withIns (m.insertRes q x), (m.insertRes q x).old)

/-- write through `get_mut` -/
def modify (m : PMap w V) (q : Pfx w) (f : V → V) : PMap w V :=
  { m with root := m.root.modifyValue q f }

def withRem (m : PMap w V) (res : Tree.RemRes w V) : PMap w V :=
  ⟨res.t, m.free ++ res.freed, m.alloc, if res.val.isSome then m.count - 1 else m.count⟩

/-- `PrefixMap::remove` -/
def remove (m : PMap w V) (q : Pfx w) : PMap w V × Option V :=
  (m.withRem (m.root.remove q false), (m.root.remove q false).val)

/-- `PrefixMap::remove_keep_tree` (and, on an occupied entry, `OccupiedEntry::remove`) -/
def removeKeepTree (m : PMap w V) (q : Pfx w) : PMap w V × Option V :=
  (⟨m.root.takeValue q, m.free, m.alloc, if (m.root.get q).isSome then m.count - 1 else m.count⟩,
    m.root.get q)

/-- `PrefixMap::clear` -/
def clear (_m : PMap w V) : PMap w V := empty

/-- `PrefixMap::remove_children` -/
def removeChildren (m : PMap w V) (q : Pfx w) : PMap w V :=
  if q.len = 0 then m.clear
  else match m.root.rmChildren q with
    | .done t rem => ⟨t, m.free ++ rem.freeOrder, m.alloc, m.count - rem.entries.length⟩
    | _ => m

/-- `PrefixMap::retain`, stopped before the predicate's `k`-th call if `stop = some k`
(`k` counted from 1: a panicking predicate); the predicate is called on the valued nodes in
post-order and every rejected node is removed by `_remove_node` at its current position -/
def retainStep (f : Pfx w → V → Bool) (m : PMap w V) (e : Pfx w × V) : PMap w V :=
  if f e.1 e.2 then m else (m.remove e.1).1

def retainCalls (m : PMap w V) (stop : Option Nat) : List (Pfx w × V) :=
  match stop with
  | none => m.root.postorder
  | some k => m.root.postorder.take (k - 1)

def retain (m : PMap w V) (f : Pfx w → V → Bool) (stop : Option Nat := none) : PMap w V :=
  (m.retainCalls stop).foldl (retainStep f) m

/-- `FromIterator` -/
def collect (xs : List (Pfx w × V)) : PMap w V :=
  xs.foldl (fun m e => (m.insert e.1 e.2).1) empty

def children (m : PMap w V) (q : Pfx w) : List (Pfx w × V) := (m.root.childrenStart q).entries

/-- `PartialEq::eq`: `self.iter().eq(other.iter())` under the key and value types' own equality -/
def beq [DecidableEq V] (a b : PMap w V) : Bool := decide (a.entries = b.entries)

/-! ### Entry API (`entry(q)` followed by one method) -/

def occupied (m : PMap w V) (q : Pfx w) : Bool := (m.root.get q).isSome

/-- `Entry::key`: the stored prefix when occupied, the query when vacant -/
def entryKey (m : PMap w V) (q : Pfx w) : Pfx w :=
  match m.root.getKeyValue q with
  | some (p, _) => p
  | none => q

/-- `Entry::or_insert`, `or_insert_with`, `or_default`, `VacantEntry::insert*`: insert when vacant;
result: the value now resident -/
def orInsert (m : PMap w V) (q : Pfx w) (x : V) : PMap w V × V :=
  match m.root.get q with
  | some v => (m, v)
  | none => ((m.insert q x).1, x)

end PMap
