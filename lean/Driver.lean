import PT.Bits
import PT.Tree
import PT.MapOps
import PT.Iter
import PT.View
import PT.SetOps
import PT.Spec
import PT.Retain
import PT.SetSpec
/-!
# `ptdriver`: line protocol → model outputs (`M …`) and specification outputs (`S …`)

One operation per input line; for every operation the driver prints the answer of the executable
model (the functions the theorems are about) and the answer computed from the abstract map by the
declarative definitions of `PT/Spec.lean`.  A field the specification does not determine is `*`.
-/

open Tree

abbrev Val := Int

/-! ## formatting -/

def hexDigit (n : Nat) : Char :=
  if n < 10 then Char.ofNat (48 + n) else Char.ofNat (87 + n)

def hexFixed (digits : Nat) (n : Nat) : String :=
  String.ofList ((List.range digits).reverse.map (fun i => hexDigit ((n / 16 ^ i) % 16)))

def fmtBV {w : Nat} (x : BitVec w) : String := hexFixed ((w + 3) / 4) x.toNat
def fmtP {w : Nat} (p : Pfx w) : String := fmtBV p.repr ++ "/" ++ toString p.len
/-- network form: host bits cleared -/
def fmtNetP {w : Nat} (p : Pfx w) : String := fmtBV p.mask ++ "/" ++ toString p.len
def fmtPV {w : Nat} (e : Pfx w × Val) : String := fmtP e.1 ++ "=" ++ toString e.2
def fmtOpt {α : Type} (f : α → String) : Option α → String
  | none => "none"
  | some x => "some:" ++ f x
def fmtList {α : Type} (f : α → String) (xs : List α) : String :=
  "[" ++ " ".intercalate (xs.map f) ++ "]"
def fmtBool (b : Bool) : String := if b then "true" else "false"
def fmtLpm {w : Nat} (x : Option (Pfx w × Val)) : String :=
  match x with
  | none => "none"
  | some e => fmtPV e

/-! ## parsing -/

def hexVal (c : Char) : Option Nat :=
  if '0' ≤ c ∧ c ≤ '9' then some (c.toNat - 48)
  else if 'a' ≤ c ∧ c ≤ 'f' then some (c.toNat - 87)
  else none

def parseHex (s : String) : Option Nat :=
  s.toList.foldl (fun acc c => match acc, hexVal c with
    | some a, some d => some (a * 16 + d)
    | _, _ => none) (some 0)

def parseP (w : Nat) (masked : Bool) (s : String) : Option (Pfx w) :=
  match s.splitOn "/" with
  | [h, l] =>
    match parseHex h, l.toNat? with
    | some r, some len =>
      if hl : len ≤ w then
        some (if masked then Pfx.fromReprLenMasked (BitVec.ofNat w r) len hl
              else Pfx.fromReprLen (BitVec.ofNat w r) len hl)
      else none
    | _, _ => none
  | _ => none

def parsePV (w : Nat) (masked : Bool) (s : String) : Option (Pfx w × Val) :=
  match s.splitOn "=" with
  | [p, v] => match parseP w masked p, v.toInt? with
    | some p, some v => some (p, v)
    | _, _ => none
  | _ => none

/-! ## state -/

structure St (w : Nat) where
  a : PMap w Val
  b : PMap w Val
  s : PMap w Val
  sa : Spec.SMap w Val
  sb : Spec.SMap w Val
  ss : Spec.SMap w Val
  masked : Bool

def St.init (w : Nat) (masked : Bool) : St w := ⟨PMap.empty, PMap.empty, PMap.empty, [], [], [], masked⟩

def St.get {w : Nat} (st : St w) (r : String) : Option (PMap w Val × Spec.SMap w Val) :=
  match r with
  | "A" => some (st.a, st.sa)
  | "B" => some (st.b, st.sb)
  | "S" => some (st.s, st.ss)
  | _ => none

def St.set {w : Nat} (st : St w) (r : String) (m : PMap w Val) (s : Spec.SMap w Val) : St w :=
  match r with
  | "A" => { st with a := m, sa := s }
  | "B" => { st with b := m, sb := s }
  | "S" => { st with s := m, ss := s }
  | _ => st

/-- result of one operation: new state, model line, spec line -/
abbrev Res (w : Nat) := St w × String × String

def bad {w : Nat} (st : St w) : Res w := (st, "bad-op", "bad-op")

/-! ## shape, snapshot -/

/-- the walk of `map.view()` through `prefix() / value() / left() / right()`, prefixes in network
form (value-less nodes keep stale host bits) -/
def shapeStr {w : Nat} : Tree w Val → String
  | .nil => "."
  | .node _ p v l r =>
    "(" ++ fmtNetP p ++ (if v.isSome then "*" else "-") ++ " " ++ shapeStr l ++ " " ++ shapeStr r ++ ")"

/-- the arena skeleton as read through the hook: prefix length and value presence of every node -/
def skelStr {w : Nat} : Tree w Val → String
  | .nil => "."
  | .node _ p v l r =>
    "(" ++ toString p.len ++ (if v.isSome then "*" else "-") ++ " " ++ skelStr l ++ " " ++ skelStr r ++ ")"

def isPermOfRange (xs : List Nat) (n : Nat) : Bool :=
  xs.length == n && (List.range n).all (fun i => xs.contains i)

def snapStr {w : Nat} (m : PMap w Val) : String :=
  let sl := m.root.slots
  "arena=" ++ toString m.alloc ++ ";free=" ++ toString m.free.length ++ ";count=" ++ toString m.count ++
  ";valued=" ++ toString m.root.entries.length ++ ";reach=" ++ toString sl.length ++
  ";partition=" ++ (if isPermOfRange (sl ++ m.free) m.alloc then "ok" else "BROKEN") ++ ";bound=ok"

def snapSpec {w : Nat} (s : Spec.SMap w Val) : String :=
  "arena=*;free=*;count=" ++ toString s.length ++ ";valued=" ++ toString s.length ++ ";reach=*;partition=ok;bound=ok"

/-! ## retain predicates -/

def parsePred (w : Nat) (toks : List String) : Option (Pfx w → Val → Bool) :=
  match toks with
  | ["true"] => some (fun _ _ => true)
  | ["false"] => some (fun _ _ => false)
  | ["mod", k, r] => match k.toNat?, r.toNat? with
    | some k, some r => some (fun _ v => v.toNat % k == r)
    | _, _ => none
  | ["lenle", n] => n.toNat?.map (fun n => fun p _ => p.len ≤ n)
  | ["lenodd"] => some (fun p _ => p.len % 2 == 1)
  | _ => none

/-! ## views -/

inductive VStep (w : Nat) where
  | at (q : Pfx w)
  | find (q : Pfx w)
  | exact (q : Pfx w)
  | lpm (q : Pfx w)
  | left
  | right

def parseVStep (w : Nat) (masked : Bool) (s : String) : Option (VStep w) :=
  match s.splitOn ":" with
  | ["left"] => some .left
  | ["right"] => some .right
  | ["at", p] => (parseP w masked p).map .at
  | ["find", p] => (parseP w masked p).map .find
  | ["exact", p] => (parseP w masked p).map .exact
  | ["lpm", p] => (parseP w masked p).map .lpm
  | _ => none

def parseVSteps (w : Nat) (masked : Bool) (toks : List String) : Option (List (VStep w)) :=
  toks.mapM (parseVStep w masked)

def applyVStep {w : Nat} (t : Tree w Val) (v : View w) : VStep w → Option (View w)
  | .at q => v.find t q
  | .find q => v.find t q
  | .exact q => v.findExact t q
  | .lpm q => v.findLpm t q
  | .left => v.left t
  | .right => v.right t

/-- run the steps on the model; `Except (index of the failing step, view before it) view` -/
def runVSteps {w : Nat} (t : Tree w Val) : List (VStep w) → View w → Nat → Except (Nat × View w) (View w)
  | [], v, _ => .ok v
  | s :: ss, v, i =>
    match applyVStep t v s with
    | none => .error (i, v)
    | some v' => runVSteps t ss v' (i + 1)

/-- the keys under `a` that are also under `b`: under the longer of the two if they are comparable -/
def meetKey (a b : Spec.Key) : Option Spec.Key :=
  if a.isPrefixOf b then some b else if b.isPrefixOf a then some a else none

/-- specification side of view navigation: a view is the *region* of keys it addresses
(`none` = provably empty region).  `pfxs` are the prefixes the model reports for the views reached
after each step (the region of a `left`/`right` step is relative to the reported prefix). -/
def specRegionStep {w : Nat} (s : Spec.SMap w Val) (reg : Option Spec.Key) (cur : Option (Pfx w)) :
    VStep w → Option Spec.Key
  | .at q | .find q => reg.bind (fun k => meetKey k (Spec.key q))
  | .exact q =>
    match reg with
    | none => none
    | some k => if k.isPrefixOf (Spec.key q) && (Spec.lookup s q).isSome then some (Spec.key q) else none
  | .lpm q =>
    match reg with
    | none => none
    | some k => (Spec.lpm (Spec.under s k) q).map (fun e => Spec.key e.1)
  | .left => reg.bind (fun k => cur.bind (fun p => meetKey k (Spec.key p ++ [false])))
  | .right => reg.bind (fun k => cur.bind (fun p => meetKey k (Spec.key p ++ [true])))

def regionEntries {w : Nat} (s : Spec.SMap w Val) : Option Spec.Key → Spec.SMap w Val
  | none => []
  | some k => Spec.under s k

/-- may this step fail (return `None` / `Err`) according to the specification? -/
def specMayFail {w : Nat} (s : Spec.SMap w Val) (reg : Option Spec.Key) (cur : Option (Pfx w)) (st : VStep w) : Bool :=
  match st with
  | .at _ | .find _ | .left | .right => (regionEntries s (specRegionStep s reg cur st)).isEmpty
  | .exact _ | .lpm _ => (specRegionStep s reg cur st).isNone

structure VRun (w : Nat) where
  view : View w
  region : Option Spec.Key
  lastExactKey : Bool   -- the last step positions the view at a prefix the spec knows

/-- both sides at once.  Result: `.error (modelMsg, specMsg)` when the model's navigation fails. -/
def runView {w : Nat} (t : Tree w Val) (s : Spec.SMap w Val) :
    List (VStep w) → View w → Option Spec.Key → Nat → Except (String × String) (View w × Option Spec.Key)
  | [], v, reg, _ => .ok (v, reg)
  | st :: rest, v, reg, i =>
    let cur := v.pfx t
    match applyVStep t v st with
    | none =>
      let back := match cur with | some p => fmtNetP p | none => "?"
      .error ("fail@" ++ toString i ++ ";back=" ++ back,
              (if specMayFail s reg cur st then "fail@" ++ toString i else "MUST-EXIST@" ++ toString i) ++ ";back=" ++ back)
    | some v' => runView t s rest v' (specRegionStep s reg cur st) (i + 1)

/-- recursive walk through `left()` / `right()` with listings, the observable of C11 -/
def walkStr {w : Nat} (t : Tree w Val) : Nat → View w → String
  | 0, _ => "…"
  | fuel + 1, v =>
    let here := (match v.pfx t with | some p => fmtNetP p | none => "?") ++
      (match v.value t with | some x => "=" ++ toString x | none => "-")
    let l := match v.left t with | some v' => walkStr t fuel v' | none => "."
    let r := match v.right t with | some v' => walkStr t fuel v' | none => "."
    "(" ++ here ++ " " ++ l ++ " " ++ r ++ ")"

/-! ## set operations: formatting of items -/

def fmtSV (x : Option (Nat × Val)) : String :=
  match x with
  | none => "-"
  | some (_, v) => toString v

def fmtUItem {w : Nat} (it : SetOps.UItem w Val Val) : String :=
  match it.l, it.r with
  | some (_, l), none => "L:" ++ fmtP it.p ++ "=" ++ toString l ++ ">" ++ fmtLpm it.lpmR
  | none, some (_, r) => "R:" ++ fmtP it.p ++ "=" ++ toString r ++ "<" ++ fmtLpm it.lpmL
  | some (_, l), some (_, r) => "B:" ++ fmtP it.p ++ "=" ++ toString l ++ "," ++ toString r
  | none, none => "?"

def fmtUV {w : Nat} (it : SetOps.UV w Val Val) : String :=
  match it with
  | .left p l lpm => "L:" ++ fmtP p ++ "=" ++ toString l.2 ++ ">" ++ fmtLpm lpm
  | .right p lpm r => "R:" ++ fmtP p ++ "=" ++ toString r.2 ++ "<" ++ fmtLpm lpm
  | .both p l r => "B:" ++ fmtP p ++ "=" ++ toString l.2 ++ "," ++ toString r.2

def fmtUMut {w : Nat} (it : SetOps.UItem w Val Val) : String :=
  fmtP it.p ++ "=" ++ fmtSV it.l ++ "," ++ fmtSV it.r

def fmtUVMut {w : Nat} (it : SetOps.UV w Val Val) : String :=
  match it with
  | .left p l _ => fmtP p ++ "=" ++ toString l.2 ++ ",-"
  | .right p _ r => fmtP p ++ "=-," ++ toString r.2
  | .both p l r => fmtP p ++ "=" ++ toString l.2 ++ "," ++ toString r.2

/-- the abstract map's entries as a keyed entry list (the specification never inspects slots) -/
def toKL {w : Nat} (e : Spec.SMap w Val) : SetOps.KL w Val := e.map (fun x => (0, x.1, x.2))

/-- apply `+d` to the value in every listed slot -/
def bumpSlots {w : Nat} (t : Tree w Val) (slots : List Nat) (d : Val) : Tree w Val :=
  slots.foldl (fun t s => t.modifySlot s (· + d)) t

def bumpKeys {w : Nat} (s : Spec.SMap w Val) (ps : List (Pfx w)) (d : Val) : Spec.SMap w Val :=
  ps.foldl (fun s p => Spec.modify s p (· + d)) s

/-! ## the step function -/

def splitColon (toks : List String) : List String × List String :=
  (toks.takeWhile (· != ":"), (toks.dropWhile (· != ":")).drop 1)

def okok {w : Nat} (st : St w) : Res w := (st, "ok", "ok")

def entryOp {w : Nat} (st : St w) (r : String) (m : PMap w Val) (s : Spec.SMap w Val) (q : Pfx w) :
    List String → Res w
  | ["get"] => (st, fmtOpt toString (m.get q), fmtOpt toString ((Spec.lookup s q).map (·.2)))
  | ["key"] => (st, fmtP (m.entryKey q), fmtP (match Spec.lookup s q with | some e => e.1 | none => q))
  | ["get_mut", v] => match v.toInt? with
    | some v => (st.set r (m.modify q (fun _ => v)) (Spec.modify s q (fun _ => v)),
        fmtOpt toString (m.get q), fmtOpt toString ((Spec.lookup s q).map (·.2)))
    | none => bad st
  | ["insert", v] => match v.toInt? with
    | some v => (st.set r (m.insert q v).1 (Spec.update s q v),
        fmtOpt toString (m.insert q v).2, fmtOpt toString ((Spec.lookup s q).map (·.2)))
    | none => bad st
  | ["or_insert", v] | ["or_insert_with", v] | ["vac_or_occ_insert", v] => match v.toInt? with
    | some v => (st.set r (m.orInsert q v).1 (match Spec.lookup s q with | some _ => s | none => Spec.update s q v),
        toString (m.orInsert q v).2, toString (match Spec.lookup s q with | some e => e.2 | none => v))
    | none => bad st
  | ["or_default"] =>
      (st.set r (m.orInsert q 0).1 (match Spec.lookup s q with | some _ => s | none => Spec.update s q 0),
        toString (m.orInsert q 0).2, toString (match Spec.lookup s q with | some e => e.2 | none => (0 : Int)))
  | ["or_insert_with_panic"] =>
      -- the closure panics when called, i.e. when the entry is vacant; the map is unchanged
      (st, (match m.get q with | some v => toString v | none => "panic"),
           (match Spec.lookup s q with | some e => toString e.2 | none => "panic"))
  | "and_modify_panic" :: rest =>
      -- the closure panics when called, i.e. when the entry is occupied; the map (value included) is unchanged
      match m.get q, Spec.lookup s q with
      | some _, some _ => (st, "panic", "panic")
      | none, none => entryOp st r m s q rest
      | some _, none => (st, "panic", "vacant?")
      | none, some _ => (st, "vacant?", "panic")
  | "and_modify" :: d :: rest => match d.toInt? with
    | some d =>
      let m' := m.modify q (· + d)
      let s' := Spec.modify s q (· + d)
      entryOp (st.set r m' s') r m' s' q rest
    | none => bad st
  | ["occ_key"] => (st, (match m.getKeyValue q with | some e => fmtP e.1 | none => "vacant"),
                        (match Spec.lookup s q with | some e => fmtP e.1 | none => "vacant"))
  | ["occ_get"] => (st, (match m.get q with | some v => toString v | none => "vacant"),
                        (match Spec.lookup s q with | some e => toString e.2 | none => "vacant"))
  | ["occ_get_mut", v] => match v.toInt? with
    | some v => (st.set r (m.modify q (fun _ => v)) (Spec.modify s q (fun _ => v)),
        (match m.get q with | some v => toString v | none => "vacant"),
        (match Spec.lookup s q with | some e => toString e.2 | none => "vacant"))
    | none => bad st
  | ["occ_insert", v] => match v.toInt? with
    | some v => match m.get q with
      | some old => (st.set r (m.insert q v).1 (Spec.update s q v), toString old,
          (match Spec.lookup s q with | some e => toString e.2 | none => "vacant"))
      | none => (st, "vacant", (match Spec.lookup s q with | some e => toString e.2 | none => "vacant"))
    | none => bad st
  | ["occ_remove"] => match m.get q with
      | some old => (st.set r (m.removeKeepTree q).1 (Spec.erase s q), toString old,
          (match Spec.lookup s q with | some e => toString e.2 | none => "vacant"))
      | none => (st, "vacant", (match Spec.lookup s q with | some e => toString e.2 | none => "vacant"))
  | ["vac_key"] => (st, (match m.get q with | some _ => "occupied" | none => fmtP q),
                        (match Spec.lookup s q with | some _ => "occupied" | none => fmtP q))
  | ["vac_insert", v] | ["vac_insert_with", v] => match v.toInt? with
    | some v => match m.get q with
      | some _ => (st, "occupied", (match Spec.lookup s q with | some _ => "occupied" | none => toString v))
      | none => (st.set r (m.insert q v).1 (Spec.update s q v), toString v,
          (match Spec.lookup s q with | some _ => "occupied" | none => toString v))
    | none => bad st
  | ["vac_default"] => match m.get q with
      | some _ => (st, "occupied", (match Spec.lookup s q with | some _ => "occupied" | none => "0"))
      | none => (st.set r (m.insert q 0).1 (Spec.update s q 0), "0",
          (match Spec.lookup s q with | some _ => "occupied" | none => "0"))
  | ["vac_insert_with_panic"] =>
      (st, (match m.get q with | some _ => "occupied" | none => "panic"),
           (match Spec.lookup s q with | some _ => "occupied" | none => "panic"))
  | _ => bad st

def viewAction {w : Nat} (st : St w) (r : String) (m : PMap w Val) (s : Spec.SMap w Val)
    (v : View w) (reg : Option Spec.Key) : List String → Res w
  | ["prefix"] =>
    let p := v.pfx m.root
    (st, "ok;prefix=" ++ (match p with | some p => fmtP p | none => "?") ++ ";net=" ++ (match p with | some p => fmtNetP p | none => "?"),
         "ok;prefix=*;net=" ++ (match p with | some p => fmtNetP p | none => "?"))
  | ["value"] =>
    (st, "ok;" ++ fmtOpt toString (v.value m.root),
         "ok;" ++ fmtOpt toString (match v.pfx m.root with
            | some p => (Spec.lookup (regionEntries s reg) p).map (·.2)
            | none => none))
  | ["pv"] =>
    (st, "ok;" ++ fmtOpt fmtPV (v.prefixValue m.root),
         "ok;" ++ fmtOpt fmtPV (match v.pfx m.root with
            | some p => Spec.lookup (regionEntries s reg) p
            | none => none))
  | ["iter"] | ["intoiter"] => (st, "ok;" ++ fmtList fmtPV (v.iter m.root), "ok;" ++ fmtList fmtPV (regionEntries s reg))
  | ["keys"] => (st, "ok;" ++ fmtList (fun e => fmtP e.1) (v.iter m.root), "ok;" ++ fmtList (fun e => fmtP e.1) (regionEntries s reg))
  | ["values"] => (st, "ok;" ++ fmtList (fun e => toString e.2) (v.iter m.root), "ok;" ++ fmtList (fun e => toString e.2) (regionEntries s reg))
  | ["walk"] => (st, "ok;" ++ walkStr m.root (w + 2) v, "ok;*")
  | ["aspv"] =>
    let p := v.pfx m.root
    (st, "ok;net=" ++ (match p with | some p => fmtNetP p | none => "?") ++ ";" ++ fmtOpt fmtPV (v.prefixValue m.root) ++ ";" ++
           fmtList (fun e => fmtP e.1) (v.iter m.root),
         "ok;net=" ++ (match p with | some p => fmtNetP p | none => "?") ++ ";" ++
           fmtOpt fmtPV (match p with | some p => Spec.lookup (regionEntries s reg) p | none => none) ++ ";" ++
           fmtList (fun e => fmtP e.1) (regionEntries s reg))
  | ["has"] =>
    (st, "ok;" ++ fmtBool (v.left m.root).isSome ++ "," ++ fmtBool (v.right m.root).isSome, "ok;*")
  | ["iter_mut", d] | ["values_mut", d] | ["into_iter", d] => match d.toInt? with
    | some d =>
      let d : Val := if r == "S" then 0 else d
      let items := Tree.iterAllS [v.node m.root]
      let m' := { m with root := bumpSlots m.root (items.map (·.1)) d }
      let ents := regionEntries s reg
      (st.set r m' (bumpKeys s (ents.map (·.1)) d),
        "ok;" ++ fmtList fmtPV (items.map (·.2)), "ok;" ++ fmtList fmtPV ents)
    | none => bad st
  | ["value_mut", x] | ["pv_mut", x] => match x.toInt? with
    | some x =>
      let x : Val := if r == "S" then 0 else x
      let old := v.value m.root
      let m' := match v.virt with
        | some _ => m
        | none => { m with root := m.root.modifyAt v.path (fun t => match t.value? with | some _ => t.withValue (some x) | none => t) }
      let sp := match v.pfx m.root with | some p => Spec.lookup (regionEntries s reg) p | none => none
      (st.set r m' (match sp with | some e => Spec.modify s e.1 (fun _ => x) | none => s),
        "ok;" ++ fmtOpt toString old, "ok;" ++ fmtOpt toString (sp.map (·.2)))
    | none => bad st
  | ["remove"] =>
    let sp := match v.pfx m.root with | some p => Spec.lookup (regionEntries s reg) p | none => none
    (st.set r (m.viewRemove v).1 (match sp with | some e => Spec.erase s e.1 | none => s),
      "ok;" ++ fmtOpt toString (m.viewRemove v).2, "ok;" ++ fmtOpt toString (sp.map (·.2)))
  | ["set", x] => match x.toInt? with
    | some x =>
      let x : Val := if r == "S" then 0 else x
      let sp := match v.pfx m.root with | some p => Spec.lookup (regionEntries s reg) p | none => none
      match (m.viewSet v x).2 with
      | none => (st, "ok;err", "ok;err")   -- virtual view: `Err(value)`, nothing changes
      | some old =>
        -- a value-less node keeps its existing prefix (documented exception of C18)
        let keyP := match sp, (v.node m.root).pfx? with
          | some e, _ => some e.1
          | none, some np => some np
          | none, none => none
        (st.set r (m.viewSet v x).1 (match keyP with | some p => Spec.update s p x | none => s),
          "ok;" ++ fmtOpt toString old, "ok;" ++ fmtOpt toString (sp.map (·.2)))
    | none => bad st
  | _ => bad st

def viewOp {w : Nat} (st : St w) (r : String) (toks : List String) : Res w :=
  match st.get r with
  | none => bad st
  | some (m, s) =>
    let (stepToks, action) := splitColon toks
    match parseVSteps w st.masked stepToks with
    | none => bad st
    | some steps =>
      match runView m.root s steps View.root (some []) 0 with
      | .error (mm, sm) => (st, mm, sm)
      | .ok (v, reg) => viewAction st r m s v reg action

/-- specification side of a set operation: the functions of `PT/SetSpec.lean` — the ones the theorems of
C05–C08 equate the machines with — applied to the two abstract maps' entries -/
def specSetop {w : Nat} (kind : String) (ea eb : Spec.SMap w Val) : Option String :=
  match kind with
  | "union" => some (fmtList fmtUV (SetOps.unionSpec (toKL ea) (toKL eb)))
  | "union_mut" => some (fmtList fmtUVMut (SetOps.unionSpec (toKL ea) (toKL eb)))
  | "intersection" | "intersection_mut" =>
    some (fmtList (fun (i : SetOps.IItem w Val Val) => fmtP i.p ++ "=" ++ toString i.l.2 ++ "," ++ toString i.r.2)
      (SetOps.interS (toKL ea) (toKL eb)))
  | "difference" | "difference_mut" =>
    some (fmtList (fun (i : SetOps.DItem w Val Val) => fmtP i.p ++ "=" ++ toString i.v.2 ++ ">" ++ fmtLpm i.right)
      (SetOps.diffS (toKL ea) (toKL eb) none))
  | "covering_difference" | "covering_difference_mut" =>
    some (fmtList (fun (i : SetOps.DItem w Val Val) => fmtP i.p ++ "=" ++ toString i.v.2) (SetOps.covDiffS (toKL ea) (toKL eb)))
  | _ => none

/-- model side of a set operation on two subtrees: the printed items, and the slots written on
each side by the `*_mut` variant (`left += d`, `right += d`) -/
def modelSetop {w : Nat} (kind : String) (ta tb : Tree w Val) : Option (String × List Nat × List Nat) :=
  match kind with
  | "union" => some (fmtList fmtUItem (SetOps.union ta tb), [], [])
  | "union_mut" =>
    let its := SetOps.union ta tb
    some (fmtList fmtUMut its, its.filterMap (fun i => i.l.map (·.1)), its.filterMap (fun i => i.r.map (·.1)))
  | "intersection" | "intersection_mut" =>
    let its := SetOps.intersection ta tb
    some (fmtList (fun (i : SetOps.IItem w Val Val) => fmtP i.p ++ "=" ++ toString i.l.2 ++ "," ++ toString i.r.2) its,
      if kind == "intersection_mut" then its.map (·.l.1) else [], if kind == "intersection_mut" then its.map (·.r.1) else [])
  | "difference" | "difference_mut" =>
    let its := SetOps.difference ta tb
    some (fmtList (fun (i : SetOps.DItem w Val Val) => fmtP i.p ++ "=" ++ toString i.v.2 ++ ">" ++ fmtLpm i.right) its,
      if kind == "difference_mut" then its.map (·.v.1) else [], [])
  | "covering_difference" | "covering_difference_mut" =>
    let its := SetOps.coveringDifference ta tb
    some (fmtList (fun (i : SetOps.DItem w Val Val) => fmtP i.p ++ "=" ++ toString i.v.2) its,
      if kind == "covering_difference_mut" then its.map (·.v.1) else [], [])
  | _ => none

/-- keys written by the `*_mut` variants according to the specification -/
def specWrites {w : Nat} (kind : String) (ea eb : Spec.SMap w Val) : List (Pfx w) × List (Pfx w) :=
  match kind with
  | "union_mut" => (ea.map (·.1), eb.map (·.1))
  | "intersection_mut" =>
    ((SetOps.interS (toKL ea) (toKL eb)).map (·.p), (SetOps.interS (toKL eb) (toKL ea)).map (·.p))
  | "difference_mut" => ((SetOps.diffS (toKL ea) (toKL eb) none).map (·.p), [])
  | "covering_difference_mut" => ((SetOps.covDiffS (toKL ea) (toKL eb)).map (·.p), [])
  | _ => ([], [])

def setOp {w : Nat} (st : St w) (kindTok : String) (toks : List String) : Res w :=
  let (kind, d) : String × Val := match kindTok.splitOn ":" with
    | [k, d] => (k, d.toInt?.getD 0)
    | _ => (kindTok, 0)
  let (left, right) := splitColon toks
  match left, right with
  | ra :: sa, rb :: sb =>
    match st.get ra, st.get rb, parseVSteps w st.masked sa, parseVSteps w st.masked sb with
    | some (ma, ea), some (mb, eb), some stepsA, some stepsB =>
      match runView ma.root ea stepsA View.root (some []) 0, runView mb.root eb stepsB View.root (some []) 0 with
      | .ok (va, rega), .ok (vb, regb) =>
        let ta := va.node ma.root
        let tb := vb.node mb.root
        let xa := regionEntries ea rega
        let xb := regionEntries eb regb
        match modelSetop kind ta tb, specSetop kind xa xb with
        | some (ms, wl, wr), some ss =>
          if ra == rb then (st, "ok;" ++ ms, "ok;" ++ ss)   -- two views of one map: read-only kinds only
          else
            let (kl, kr) := specWrites kind xa xb
            -- a set's values are `()`: writes through its `&mut ()` change nothing
            let da : Val := if ra == "S" then 0 else d
            let db : Val := if rb == "S" then 0 else d
            let st1 := st.set ra { ma with root := bumpSlots ma.root wl da } (bumpKeys ea kl da)
            let st2 := st1.set rb { mb with root := bumpSlots mb.root wr db } (bumpKeys eb kr db)
            (st2, "ok;" ++ ms, "ok;" ++ ss)
        | _, _ => bad st
      | .error (mm, sm), _ => (st, "A:" ++ mm, "A:" ++ sm)
      | _, .error (mm, sm) => (st, "B:" ++ mm, "B:" ++ sm)
    | _, _, _, _ => bad st
  | _, _ => bad st

/-- `view_mut_at(steps).split()` then `l.<kind>_mut(r)`: two disjoint mutable views of one map -/
def setOpSplit {w : Nat} (st : St w) (kindTok : String) (toks : List String) : Res w :=
  let (kind, d) : String × Val := match kindTok.splitOn ":" with
    | [k, d] => (k, d.toInt?.getD 0)
    | _ => (kindTok, 0)
  match toks with
  | r :: stepToks =>
    match st.get r, parseVSteps w st.masked stepToks with
    | some (m, e), some steps =>
      match runView m.root e steps View.root (some []) 0 with
      | .error (mm, sm) => (st, mm, sm)
      | .ok (v, _) =>
        match v.left m.root, v.right m.root with
        | some vl, some vr =>
          let cur := v.pfx m.root
          let xa := regionEntries e (cur.map (fun p => Spec.key p ++ [false]))
          let xb := regionEntries e (cur.map (fun p => Spec.key p ++ [true]))
          match modelSetop kind (vl.node m.root) (vr.node m.root), specSetop kind xa xb with
          | some (ms, wl, wr), some ss =>
            let (kl, kr) := specWrites kind xa xb
            let d : Val := if r == "S" then 0 else d
            (st.set r { m with root := bumpSlots m.root (wl ++ wr) d } (bumpKeys e (kl ++ kr) d),
              "ok;" ++ ms, "ok;" ++ ss)
          | _, _ => bad st
        | _, _ => (st, "nosplit", "*")
    | _, _ => bad st
  | _ => bad st

def pfxOp {w : Nat} (st : St w) (toks : List String) : Res w :=
  let P := parseP w st.masked
  match toks with
  | ["contains", a, b] => match P a, P b with
    | some a, some b => (st, fmtBool (a.contains b), fmtBool ((Spec.key a).isPrefixOf (Spec.key b)))
    | _, _ => bad st
  | ["eq", a, b] => match P a, P b with
    | some a, some b => (st, fmtBool (a.eqv b), fmtBool (Spec.key a == Spec.key b))
    | _, _ => bad st
  | ["lcp", a, b] => match P a, P b with
    | some a, some b =>
      -- specification: the longest common prefix of the two keys, host part zero
      let k := (List.zip (Spec.key a) (Spec.key b)).takeWhile (fun x => x.1 == x.2) |>.map (·.1)
      let r : Nat := k.foldl (fun acc bit => 2 * acc + (if bit then 1 else 0)) 0
      (st, fmtP (a.lcp b) ++ ";sym=" ++ fmtP (b.lcp a),
           hexFixed ((w + 3) / 4) (r * 2 ^ (w - k.length)) ++ "/" ++ toString k.length ++ ";sym=" ++
           hexFixed ((w + 3) / 4) (r * 2 ^ (w - k.length)) ++ "/" ++ toString k.length)
    | _, _ => bad st
  | ["pair", a, b] => match P a, P b with
    | some a, some b =>
      let ka := Spec.key a
      let kb := Spec.key b
      let k := (List.zip ka kb).takeWhile (fun x => x.1 == x.2) |>.map (·.1)
      let r : Nat := k.foldl (fun acc bit => 2 * acc + (if bit then 1 else 0)) 0
      let l := hexFixed ((w + 3) / 4) (r * 2 ^ (w - k.length)) ++ "/" ++ toString k.length
      (st, fmtBool (a.contains b) ++ "," ++ fmtBool (b.contains a) ++ ";" ++ fmtBool (a.eqv b) ++ ";" ++
             fmtP (a.lcp b) ++ ";" ++ fmtP (b.lcp a),
           fmtBool (ka.isPrefixOf kb) ++ "," ++ fmtBool (kb.isPrefixOf ka) ++ ";" ++ fmtBool (ka == kb) ++ ";" ++ l ++ ";" ++ l)
    | _, _ => bad st
  | ["bits", a] => match P a with
    | some a =>
      (st, String.ofList ((List.range 256).map (fun i => if a.isBitSet i then '1' else '0')),
           String.ofList ((List.range 256).map (fun i => if (Spec.key a)[i]?.getD false then '1' else '0')))
    | none => bad st
  | ["bit", a, i] => match P a, i.toNat? with
    | some a, some i => (st, fmtBool (a.isBitSet i), fmtBool ((Spec.key a)[i]?.getD false))
    | _, _ => bad st
  | ["mask", a] => match P a with
    | some a =>
      let r : Nat := (Spec.key a).foldl (fun acc bit => 2 * acc + (if bit then 1 else 0)) 0
      (st, fmtBV a.mask, hexFixed ((w + 3) / 4) (r * 2 ^ (w - a.len)))
    | _ => bad st
  | ["from", a] => match P a with   -- `from_repr_len(repr, len)`: echo of what the type stores
    | some a => (st, fmtP a ++ ";net=" ++ fmtNetP a, "*;net=" ++ fmtNetP a)
    | _ => bad st
  | ["zero"] => (st, fmtP (Pfx.zero : Pfx w), hexFixed ((w + 3) / 4) 0 ++ "/0")
  | ["tor", a, b] => match P a, P b with
    | some a, some b => (st, fmtBool (Pfx.toRight a b), fmtBool ((Spec.key b)[a.len]?.getD false))
    | _, _ => bad st
  | _ => bad st

def step {w : Nat} (st : St w) (line : String) : Res w :=
  let toks := (line.trimAscii.toString.splitOn " ").filter (· != "")
  let P := parseP w st.masked
  match toks with
  | [] => (st, "", "")
  | "pfx" :: rest => pfxOp st rest
  | "view" :: r :: rest => viewOp st r rest
  | "viewmut" :: r :: rest => viewOp st r rest
  | "par_bump" :: r :: d :: rest =>
    -- two threads bump the values of the two sides of a split view: any interleaving equals the
    -- sequential result (C14), which is what the model computes
    match st.get r, d.toInt?, parseVSteps w st.masked rest with
    | some (m, e), some d, some steps =>
      match runView m.root e steps View.root (some []) 0 with
      | .error (mm, sm) => (st, mm, sm)
      | .ok (v, _) =>
        let d : Val := if r == "S" then 0 else d
        let cur := v.pfx m.root
        let sl := match v.left m.root with | some vl => (Tree.iterAllS [vl.node m.root]).map (·.1) | none => []
        let sr := match v.right m.root with | some vr => (Tree.iterAllS [vr.node m.root]).map (·.1) | none => []
        let xa := regionEntries e ((specRegionStep e (some []) cur .left))
        let xb := regionEntries e ((specRegionStep e (some []) cur .right))
        let reg := (runView m.root e steps View.root (some []) 0)
        let regk := match reg with | .ok (_, k) => k | .error _ => none
        let inView := regionEntries e regk
        let ka := (xa.filter (fun x => inView.any (fun y => Spec.sameKey x.1 y.1))).map (·.1)
        let kb := (xb.filter (fun x => inView.any (fun y => Spec.sameKey x.1 y.1))).map (·.1)
        (st.set r { m with root := bumpSlots m.root (sl ++ sr) d } (bumpKeys e (ka ++ kb) d), "ok", "ok")
    | _, _, _ => bad st
  | "split_probe" :: r :: kind :: q :: rest =>
    -- both sides of a split view search for `q`; the model says which side finds what (the two sides are
    -- disjoint, so at most one of them can reach an entry)
    match st.get r, P q, parseVSteps w st.masked rest with
    | some (m, e), some q, some steps =>
      match runView m.root e steps View.root (some []) 0 with
      | .error (mm, sm) => (st, mm, sm)
      | .ok (v, _) =>
        let sk : VStep w := match kind with
          | "exact" => .exact q
          | "find" => .find q
          | _ => .lpm q
        let side (sv : Option (View w)) : String :=
          match sv with
          | none => "-"
          | some sv =>
            match applyVStep m.root sv sk with
            | some w' => "ok:" ++ (match w'.pfx m.root with | some p => fmtNetP p | none => "?")
            | none => "err"
        (st, "L=" ++ side (v.left m.root) ++ ";R=" ++ side (v.right m.root), "*")
    | _, _, _ => bad st
  | "par_mixed" :: r :: d :: rest =>
    -- one thread counts the entries of the left side (read-only re-borrow), another bumps the right side
    match st.get r, d.toInt?, parseVSteps w st.masked rest with
    | some (m, e), some d, some steps =>
      match runView m.root e steps View.root (some []) 0 with
      | .error (mm, sm) => (st, mm, sm)
      | .ok (v, regk) =>
        let d : Val := if r == "S" then 0 else d
        let cur := v.pfx m.root
        let nl := match v.left m.root with | some vl => (vl.iter m.root).length | none => 0
        let sr := match v.right m.root with | some vr => (Tree.iterAllS [vr.node m.root]).map (·.1) | none => []
        let inView := regionEntries e regk
        let xa := (regionEntries e ((specRegionStep e (some []) cur .left))).filter (fun x => inView.any (fun y => Spec.sameKey x.1 y.1))
        let xb := (regionEntries e ((specRegionStep e (some []) cur .right))).filter (fun x => inView.any (fun y => Spec.sameKey x.1 y.1))
        (st.set r { m with root := bumpSlots m.root sr d } (bumpKeys e (xb.map (·.1)) d),
          "ok;left=" ++ toString nl, "ok;left=" ++ toString xa.length)
    | _, _, _ => bad st
  | "par_churn" :: r :: n :: rest =>
    -- two threads set / remove the value at the root of their side `n` times and restore it: any
    -- interleaving leaves map and entry counter as they were (C14)
    match st.get r, n.toNat?, parseVSteps w st.masked rest with
    | some (m, e), some _, some steps =>
      match runView m.root e steps View.root (some []) 0 with
      | .error (mm, sm) => (st, mm, sm)
      | .ok _ =>
        (st, "ok;len=" ++ toString m.len ++ ";n=" ++ toString m.entries.length,
          "ok;len=" ++ toString e.length ++ ";n=" ++ toString e.length)
    | _, _, _ => bad st
  | "setop" :: kind :: rest => setOp st kind rest
  | "setop_split" :: kind :: rest => setOpSplit st kind rest
  | ["defaults"] =>
    -- `Default` of maps, sets and iterators: the empty map (`PMap.empty`), the empty stack (`iterAll []`)
    let m : PMap w Val := PMap.empty
    let n := (Tree.iterAll ([] : List (Tree w Val))).length
    let str := "map=" ++ toString m.len ++ "," ++ fmtBool m.isEmpty ++ "," ++ toString m.iter.length ++
      ";set=" ++ toString m.len ++ "," ++ fmtBool m.isEmpty ++ "," ++ toString m.iter.length ++
      ";iters=" ++ toString n ++ "," ++ fmtBool (Tree.iterNext ([] : List (Tree w Val))).isNone ++ "," ++ toString n ++ "," ++
      toString n ++ "," ++ toString n
    (st, str, "map=0,true,0;set=0,true,0;iters=0,true,0,0,0")
  | ["eq", ra, rb] =>
    match st.get ra, st.get rb with
    | some (ma, ea), some (mb, eb) =>
      (st, fmtBool (ma.beq mb) ++ "," ++ fmtBool (mb.beq ma), fmtBool (decide (ea = eb)) ++ "," ++ fmtBool (decide (eb = ea)))
    | _, _ => bad st
  | ["seteq", "S", rb] =>
    -- `PrefixSet == PrefixSet`: equal sequences of stored prefixes (the key type's own equality)
    match st.get "S", st.get rb with
    | some (ms, es), some (mb, eb) =>
      let ks := ms.entries.map (·.1)
      let kb := mb.entries.map (·.1)
      (st, fmtBool (decide (ks = kb)) ++ "," ++ fmtBool (decide (kb = ks)),
        fmtBool (decide (es.map (·.1) = eb.map (·.1))) ++ "," ++ fmtBool (decide (eb.map (·.1) = es.map (·.1))))
    | _, _ => bad st
  | ["copy_from", ra, rb] =>
    match st.get ra with
    | some (ma, ea) => okok (st.set rb ma ea)
    | none => bad st
  | ["copy", ra, rb] =>
    match st.get ra with
    | some (ma, ea) => okok (st.set rb ma ea)
    | none => bad st
  | op :: r :: args =>
    match st.get r with
    | none => bad st
    | some (m, s) =>
      match op, args with
      | "insert", [p, v] => match P p, v.toInt? with
        | some q, some v => (st.set r (m.insert q v).1 (Spec.update s q v),
            fmtOpt toString (m.insert q v).2, fmtOpt toString ((Spec.lookup s q).map (·.2)))
        | _, _ => bad st
      | "get", [p] => match P p with
        | some q => (st, fmtOpt toString (m.get q), fmtOpt toString ((Spec.lookup s q).map (·.2)))
        | none => bad st
      | "get_mut", [p, v] => match P p, v.toInt? with
        | some q, some v => (st.set r (m.modify q (fun _ => v)) (Spec.modify s q (fun _ => v)),
            fmtOpt toString (m.get q), fmtOpt toString ((Spec.lookup s q).map (·.2)))
        | _, _ => bad st
      | "get_key_value", [p] => match P p with
        | some q => (st, fmtOpt fmtPV (m.getKeyValue q), fmtOpt fmtPV (Spec.lookup s q))
        | none => bad st
      | "gkvs", ps => match ps.mapM P with
        | some qs => (st, " ".intercalate (qs.map (fun q => fmtOpt fmtPV (m.getKeyValue q))),
            " ".intercalate (qs.map (fun q => fmtOpt fmtPV (Spec.lookup s q))))
        | none => bad st
      | "contains_key", [p] => match P p with
        | some q => (st, fmtBool (m.containsKey q), fmtBool (Spec.lookup s q).isSome)
        | none => bad st
      | "get_lpm", [p] => match P p with
        | some q => (st, fmtOpt fmtPV (m.getLpm q), fmtOpt fmtPV (Spec.lpm s q))
        | none => bad st
      | "get_lpm_prefix", [p] => match P p with
        | some q => (st, fmtOpt fmtP (m.getLpmPrefix q), fmtOpt fmtP ((Spec.lpm s q).map (·.1)))
        | none => bad st
      | "get_lpm_mut", [p, v] => match P p, v.toInt? with
        | some q, some v =>
          let hit := m.getLpm q
          let sh := Spec.lpm s q
          (st.set r (match hit with | some e => m.modify e.1 (fun _ => v) | none => m)
                    (match sh with | some e => Spec.modify s e.1 (fun _ => v) | none => s),
            fmtOpt fmtPV hit, fmtOpt fmtPV sh)
        | _, _ => bad st
      | "get_spm", [p] => match P p with
        | some q => (st, fmtOpt fmtPV (m.getSpm q), fmtOpt fmtPV (Spec.spm s q))
        | none => bad st
      | "get_spm_prefix", [p] => match P p with
        | some q => (st, fmtOpt fmtP (m.getSpmPrefix q), fmtOpt fmtP ((Spec.spm s q).map (·.1)))
        | none => bad st
      | "cover", [p] => match P p with
        | some q => (st, fmtList fmtPV (m.cover q), fmtList fmtPV (Spec.cover s q))
        | none => bad st
      | "cover_keys", [p] => match P p with
        | some q => (st, fmtList (fun e => fmtP e.1) (m.cover q), fmtList (fun e => fmtP e.1) (Spec.cover s q))
        | none => bad st
      | "cover_values", [p] => match P p with
        | some q => (st, fmtList (fun e => toString e.2) (m.cover q), fmtList (fun e => toString e.2) (Spec.cover s q))
        | none => bad st
      | "remove", [p] => match P p with
        | some q => (st.set r (m.remove q).1 (Spec.erase s q),
            fmtOpt toString (m.remove q).2, fmtOpt toString ((Spec.lookup s q).map (·.2)))
        | none => bad st
      | "remove_keep_tree", [p] => match P p with
        | some q => (st.set r (m.removeKeepTree q).1 (Spec.erase s q),
            fmtOpt toString (m.removeKeepTree q).2, fmtOpt toString ((Spec.lookup s q).map (·.2)))
        | none => bad st
      | "remove_children", [p] => match P p with
        | some q => okok (st.set r (m.removeChildren q) (Spec.removeChildren s q))
        | none => bad st
      | "clear", [] => okok (st.set r m.clear [])
      | "retain", predToks =>
        -- last token: `-` or the index (from 1) of the predicate call that panics
        let stop := predToks.getLast?.bind String.toNat?
        match parsePred w predToks.dropLast with
        | some f =>
          let calls := m.retainCalls stop
          let m' := m.retainRec f stop
          let panicked := match stop with | some k => decide (k ≤ m.root.postorder.length) | none => false
          -- specification: every entry exactly once (in some order); with a panic at call k the
          -- entries rejected among the first k-1 calls are gone
          let s' := s.filter (fun e => !(calls.any (fun c => Spec.sameKey c.1 e.1 && !f c.1 c.2)))
          let sorted := calls.foldl (fun acc c => Spec.insertSorted c acc) ([] : Spec.SMap w Val)
          (st.set r m' s',
            "calls=" ++ fmtList fmtPV calls ++ ";sorted=" ++ fmtList fmtPV sorted ++ ";" ++ (if panicked then "panic" else "done") ++ ";consistent=ok",
            "calls=*;sorted=" ++ (if panicked then "*" else fmtList fmtPV s) ++ ";" ++ (if panicked then "panic" else "done") ++ ";consistent=ok")
        | none => bad st
      | "collect", items =>
        match items.mapM (parsePV w st.masked) with
        | some xs => okok (st.set r (PMap.collect xs) (Spec.collect xs))
        | none => bad st
      | "collect_self", [] =>
        -- rebuild from the map's own entries; equal to the original
        (st, fmtBool ((PMap.collect m.iter).beq m), fmtBool (decide (Spec.collect s = s)))
      | "entry", p :: rest => match P p with
        | some q => entryOp st r m s q rest
        | none => bad st
      | "iter", [] | "ref_iter", [] | "into_iter", [] => (st, fmtList fmtPV m.iter, fmtList fmtPV s)
      | "keys", [] | "into_keys", [] => (st, fmtList (fun e => fmtP e.1) m.iter, fmtList (fun e => fmtP e.1) s)
      | "values", [] | "into_values", [] => (st, fmtList (fun e => toString e.2) m.iter, fmtList (fun e => toString e.2) s)
      | "iter_mut", [d] | "values_mut", [d] => match d.toInt? with
        | some d =>
          let items := Tree.iterAllS [m.root]
          (st.set r { m with root := bumpSlots m.root (items.map (·.1)) d } (s.map (fun e => (e.1, e.2 + d))),
            fmtList fmtPV (items.map (·.2)), fmtList fmtPV s)
        | none => bad st
      | "iter_clone", [k] => match k.toNat? with
        | some k =>
          let (first, st') := Tree.iterTake k [m.root]
          let rest := Tree.iterAll st'
          (st, "first=" ++ fmtList fmtPV first ++ ";rest=" ++ fmtList fmtPV rest ++ ";clone=" ++ fmtList fmtPV rest,
               "first=" ++ fmtList fmtPV (s.take k) ++ ";rest=" ++ fmtList fmtPV (s.drop k) ++ ";clone=" ++ fmtList fmtPV (s.drop k))
        | none => bad st
      | "iter_fused", [] =>
        (st, fmtList fmtPV m.iter ++ ";tail=none,none,none", fmtList fmtPV s ++ ";tail=none,none,none")
      | "len", [] => (st, toString m.len ++ ";" ++ fmtBool m.isEmpty ++ ";n=" ++ toString m.iter.length,
                          toString s.length ++ ";" ++ fmtBool s.isEmpty ++ ";n=" ++ toString s.length)
      | "children", [p] | "into_children", [p] => match P p with
        | some q => (st, fmtList fmtPV (m.childrenIter q), fmtList fmtPV (Spec.children s q))
        | none => bad st
      | "children_mut", [p, d] => match P p, d.toInt? with
        | some q, some d =>
          let items := Tree.iterAllS [m.root.childrenStart q]
          let ents := Spec.children s q
          (st.set r { m with root := bumpSlots m.root (items.map (·.1)) d } (bumpKeys s (ents.map (·.1)) d),
            fmtList fmtPV (items.map (·.2)), fmtList fmtPV ents)
        | _, _ => bad st
      | "shape", [] => (st, shapeStr m.root, "*")
      | "skel", [] => (st, skelStr m.root, "*")
      | "shape_fresh", [] =>
        -- for tries modified only by insert / remove / retain / clear: the shape equals that of a
        -- map freshly built from the surviving keys (in ascending and in descending order)
        let fwd : PMap w Val := PMap.collect m.iter
        let bwd : PMap w Val := PMap.collect m.iter.reverse
        (st, (if shapeStr fwd.root == shapeStr m.root && shapeStr bwd.root == shapeStr m.root then "same" else "differ"), "same")
      | "serde", [] => (st, "true", "true")
      | "snap", [] => (st, snapStr m, snapSpec s)
      | _, _ => bad st
  | _ => bad st

partial def loop {w : Nat} (h : IO.FS.Stream) (out : IO.FS.Stream) (st : St w) : IO Unit := do
  let line ← h.getLine
  if line.isEmpty then return ()
  let t := line.trimAscii.toString
  if t.isEmpty || t.startsWith "#" then
    loop h out st
  else
    let (st', m, s) := step st t
    out.putStrLn ("M " ++ m)
    out.putStrLn ("S " ++ s)
    loop h out st'

def main : IO Unit := do
  let stdin ← IO.getStdin
  let stdout ← IO.getStdout
  -- header: `width <w> <plain|masked>`
  let hdr ← stdin.getLine
  match (hdr.trimAscii.toString.splitOn " ").filter (· != "") with
  | ["width", ws, kind] =>
    match ws.toNat? with
    | some w => loop stdin stdout (St.init w (kind == "masked"))
    | none => stdout.putStrLn "bad-header"
  | _ => stdout.putStrLn "bad-header"
