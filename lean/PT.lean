import PT.Bits
import PT.Tree
import PT.MapOps
import PT.Iter
import PT.View
import PT.SetOps
import PT.Spec
import PT.Retain
